import Driver.Common
import AslModel.Xml
import AslModel.XmlOwn
/-! Model driver for C07 (Xml decode / encode). -/
open Driver AslModel.Xml

namespace Driver.C07

mutual
partial def dumpNode : Node → String
  | .text _ _ t => "T" ++ hex t
  | .elem id _ tag attrs children =>
    "E" ++ hex tag ++ "[" ++ ",".intercalate (attrs.map fun kv => hex kv.1 ++ "=" ++ hex kv.2) ++ "]{"
      ++ " ".intercalate (children.map fun c => (if c.parent == some id then "+" else "!") ++ dumpNode c) ++ "}"
end

def render : Result → String
  | .fault => "fault"
  | r => if r.isNull then "null" else match r with
    | .node n => (if n.parent == none then "R+" else "R!") ++ dumpNode n ++ " t=" ++ hex n.textOf
    | _ => "null"

/-- parse the preorder token stream; attributes go through `mapSet` like `setAttr` -/
partial def build : List String → Option (Tree × List String)
  | "T" :: h :: rest => do pure (.text (← unhex h), rest)
  | "E" :: h :: na :: rest => do
    let tag ← unhex h
    let na ← na.toNat?
    let rec attrs (k : Nat) (acc : List (Bytes × Bytes)) (ts : List String) : Option (List (Bytes × Bytes) × List String) :=
      match k, ts with
      | 0, ts => some (acc, ts)
      | k + 1, a :: b :: ts => do attrs k (mapSet (← unhex a) (← unhex b) acc) ts
      | _, _ => none
    let (at_, rest) ← attrs na [] rest
    match rest with
    | nc :: rest => do
      let nc ← nc.toNat?
      let rec kids (k : Nat) (acc : List Tree) (ts : List String) : Option (List Tree × List String) :=
        match k with
        | 0 => some (acc.reverse, ts)
        | k + 1 => do
          let (t, ts) ← build ts
          kids k (t :: acc) ts
      let (cs, rest) ← kids nc [] rest
      pure (.elem tag at_ cs, rest)
    | [] => none
  | _ => none

/-- depth / node count / wrong parent links with an explicit work list (the trees can be 10^6 deep) -/
partial def measure (work : List (Node × Nat)) (depth nodes bad : Nat) : Nat × Nat × Nat :=
  match work with
  | [] => (depth, nodes, bad)
  | (n, d) :: rest =>
    match n with
    | .text .. => measure rest (max depth d) (nodes + 1) bad
    | .elem id _ _ _ cs =>
      let bad' := cs.foldl (fun acc c => if c.parent == some id then acc else acc + 1) bad
      measure (cs.foldl (fun acc c => (c, d + 1) :: acc) rest) (max depth d) (nodes + 1) bad'

def deepDoc (n : Nat) (kind : String) : Bytes :=
  let opens := (List.replicate n [60, 97, 62]).flatten
  let closes := (List.replicate n [60, 47, 97, 62]).flatten
  (if kind == "1" then [60, 114, 62] else []) ++ opens ++ (if kind == "3" then [120] else [])
    ++ (if kind == "2" then [] else closes)
    ++ (if kind == "1" then [60, 47, 120, 62] else [])

def deepShow (r : Result) : String :=
  if r.isNull then "deep null" else match r with
  | .node n =>
    let (d, k, b) := measure [(n, 1)] 0 0 (if n.parent == none then 0 else 1)
    s!"deep depth={d} nodes={k} badparents={b} text={hex n.textOf}"
  | .fault => "fault"
  | .null => "deep null"

/-- one op token of an `own` history: `n<v>` `a<v><w>` `i<v><w><j>` `r<v><j>` `e<v><w>` `c<v>` `k<v><w><j>` `s<v><w>` `d<v>` `u<v><w>` -/
def ownOp (t : String) : Option AslModel.XmlOwn.Op :=
  let d (c : Char) : Option Nat := if c.isDigit then some (c.toNat - 48) else none
  match t.toList with
  | ['n', v] => do pure (.new ((← d v) % 4))
  | ['a', v, w] => do pure (.append ((← d v) % 4) ((← d w) % 4))
  | ['r', v, j] => do pure (.remove ((← d v) % 4) (← d j))
  | ['i', v, w, j] => do pure (.insert ((← d v) % 4) ((← d w) % 4) (← d j))
  | ['e', v, w] => do pure (.removeE ((← d v) % 4) ((← d w) % 4))
  | ['c', v] => do pure (.clear ((← d v) % 4))
  | ['k', v, w, j] => do pure (.child ((← d v) % 4) ((← d w) % 4) (← d j))
  | ['s', v, w] => do pure (.assign ((← d v) % 4) ((← d w) % 4))
  | ['d', v] => do pure (.drop ((← d v) % 4))
  | ['u', v, w] => do pure (.up ((← d v) % 4) ((← d w) % 4))
  | _ => none

/-- run a history, showing the handle variables after every op; then destroy the four handles and report what the
    model says about leaks (live nodes left), faults (use of a dead node / count underflow) and the stored counts -/
def ownRun (ts : List String) : String :=
  match ts.mapM ownOp with
  | none => "bad-op"
  | some ops =>
    let (h, outs, ok) := ops.foldl (fun (acc : AslModel.XmlOwn.Heap × List String × Bool) o =>
      let h := AslModel.XmlOwn.step acc.1 o
      (h, AslModel.XmlOwn.observe h :: acc.2.1, acc.2.2 && AslModel.XmlOwn.countsOK h)) (.init, [], true)
    let hEnd := AslModel.XmlOwn.run h [.drop 0, .drop 1, .drop 2, .drop 3]
    "|".intercalate outs.reverse ++ s!" end leak={AslModel.XmlOwn.liveCount hEnd} fault={hEnd.fault} counts={ok && AslModel.XmlOwn.countsOK hEnd}"

def step (_ : Unit) (ts : List String) : Unit × String :=
  let r : String := match ts with
    | ["deep", n, kind] => match n.toNat? with
      | some n => deepShow (decode (deepDoc n kind)) | none => "bad-op"
    | ["sub", h, k] => match unhex h, k.toNat? with
      | some d, some k =>
        let r := decode d
        if r.isNull then "null" else match pickSurvivor r k with
        | some c => (if c.parent == none then "R+" else "R!") ++ dumpNode c ++ " t=" ++ hex c.textOf
        | none => "null"
      | _, _ => "bad-op"
    | ["mut", h, k, j, how] =>
      let m : Option Mutator := match how with
        | "remove" => some .remove | "removee" => some .removeE | "clear" => some .clear | "put" => some .put
        | "araw_remove" => some .rawRemove | "araw_clear" => some .rawClear | "araw_resize" => some .rawResize
        | "araw_assign" => some .rawAssign | _ => none
      match unhex h, k.toNat?, j.toNat?, m with
      | some d, some k, some j, some m =>
        let r := decode d
        if r.isNull then "null" else match pickDetached r k j m, (match r with | .node n => some n | _ => none) with
        | some c, some n =>
          -- the node before the mutation (for `parentAfterRelease`): same node with its original parent
          let l := preorder n
          let orig := match l[k % l.length]? with
            | some (.elem _ _ _ _ cs) => cs[j % cs.length]?
            | _ => none
          -- first flag: parent() right after the mutation; second: once everything else is released
          let after := match orig with
            | some o => (match parentAfterRelease m o with | .null => "R+" | .dangling _ => "R~dangling")
            | none => "R+"
          (if c.parent == none then "M+" else "M!") ++ after ++ dumpNode c ++ " t=" ++ hex c.textOf
        | _, _ => "skip"
      | _, _, _, _ => "bad-op"
    | "own" :: rest => ownRun rest
    | ["desc", h] => match unhex h with
      | some d =>
        let r := decode d
        if r.isNull then "null" else match descendSurvivor r with
        | some c => (if c.parent == none then "R+" else "R!") ++ dumpNode c ++ " t=" ++ hex c.textOf
        | none => "null"
      | none => "bad-op"
    | ["dec", h] => match unhex h with
      | some d => render (decode d) | none => "bad-op"
    | "enc" :: f :: rest => match build rest with
      | some (t, []) => hex (encode (f == "1") t) | _ => "bad-op"
    | "rt" :: f :: rest => match build rest with
      | some (t, []) => render (decode (encode (f == "1") t)) | _ => "bad-op"
    | _ => "bad-op"
  ((), r)

end Driver.C07

def main : IO Unit := Driver.loop () Driver.C07.step
