import Driver.Common
import AslModel.Utf
/-! Model driver for C08 (UTF conversions, count/chars/iteration, case mapping). -/
open Driver AslModel

namespace Driver.C08
open AslModel.Utf

def natList (l : List Nat) : String := if l.isEmpty then "-" else ",".intercalate (l.map toString)
def pairList (l : List (Nat × Nat)) : String :=
  if l.isEmpty then "-" else ",".intercalate (l.map fun p => s!"{p.1}:{p.2}")
def lenHex (bs : List UInt8) : String := s!"{bs.length} {hex bs}"
def lenNat (l : List Nat) : String := s!"{l.length} {natList l}"

/-- comma-separated decimal ints, `-` = empty -/
def ints (s : String) : Option (List Int) :=
  if s = "-" then some [] else (s.splitOn ",").mapM String.toInt?

def oob : String := "oob"
def orOob (o : Option String) : String := o.getD oob
def b01 (b : Bool) : String := if b then "1" else "0"

/-- all observables of one string that do not involve the case tables -/
def convOut (s : List UInt8) : String :=
  let cnt := orOob ((count s).map toString)
  let ch := orOob ((chars s).map natList)
  let it := orOob ((iter s).map pairList)
  let (wd, back) := match dataw s with
    | none => (oob, oob)
    | some units =>
      let w := wcs units
      (natList w, orOob ((fromWide ((w.map Int.ofNat) ++ [0])).map lenHex))
  s!"count={cnt} chars={ch} iter={it} wide={wd} back={back}"

def caseOut (s : List UInt8) : String :=
  match toUpperCase s, toLowerCase s with
  | some u, some l => s!"up={lenHex u} lo={lenHex l} le={b01 (u.length ≤ s.length && l.length ≤ s.length)}"
  | _, _ => oob

def nocaseOut (a b : List UInt8) : String :=
  match equalsNocase a b, toLowerCase a, toLowerCase b with
  | some e, some la, some lb => s!"eq={b01 e} lower_eq={b01 (la == lb)}"
  | _, _, _ => oob

/-- `fromCodes(x.chars()) == x`: decode-then-encode gives `x` back (true on standard UTF-8) -/
def reenc (x : List UInt8) : String :=
  match chars x with
  | none => oob
  | some cs => match fromCodes (cs.map Int.ofNat) with
    | none => oob
    | some y => b01 (y == x)

/-- character counts before / after the case functions and well-formedness of their results -/
def cvalidOut (s : List UInt8) : String :=
  match count s, toUpperCase s, toLowerCase s with
  | some n, some u, some l =>
    s!"{n} {orOob ((count u).map toString)} {orOob ((count l).map toString)} {reenc u} {reenc l}"
  | _, _, _ => oob

def strOut (s : List UInt8) : String := s!"{convOut s} {caseOut s}"

def codesOut (cs : List Int) : String :=
  match fromCodes cs with
  | none => oob
  | some s => s!"s={lenHex s} {convOut s}"

def faultName : Fault → String
  | .oobRead => "oob-read" | .oobWrite => "oob-write" | .overtake => "overtake"

/-- offset and capacity as the harness observes them, then the content after `fixW()` -/
def fixOut (size0 len : Nat) (_us : List Int) (r : Except Fault (List UInt8)) : String :=
  let cap := capOf (sizeResize size0 (datawNeed len))
  match r with
  | .ok out => s!"off={wideOffset len} cap={cap} {lenHex out}"
  | .error f => s!"fault {faultName f}"

def fnv (h : UInt64) (s : String) : UInt64 :=
  s.toUTF8.foldl (fun h b => (h ^^^ b.toUInt64) * 1099511628211) h

def fnv0 : UInt64 := 14695981039346656037

def hex64 (h : UInt64) : String :=
  String.ofList ((List.range 16).map fun i => hexDigit ((h.toNat >>> (60 - 4 * i)) % 16))

def isSurr (c : Nat) : Bool := 0xd800 ≤ c && c ≤ 0xdfff

/-- digest of `codesOut [c]` over the scalar values in `[lo, lo+cnt)` -/
def scalarBlock (lo cnt : Nat) : String :=
  let h := (List.range cnt).foldl (fun h i =>
    let c := lo + i
    if isSurr c || c == 0 || c > 0x10ffff then h else fnv (fnv h (codesOut [Int.ofNat c])) "\n") fnv0
  hex64 h

def boundaryBytes : List UInt8 := [0x00, 0x7F, 0x80, 0xBF, 0xC0, 0xC2, 0xDF, 0xE0, 0xEF, 0xF0, 0xF4, 0xF7, 0xF8, 0xFF, 0x41, 0x61]

/-- digest of `strOut` of `prefix ++ [b]` for every `b` of the alphabet -/
def byteBlock (pre : List UInt8) (alpha : List UInt8) : String :=
  let h := alpha.foldl (fun h b =>
    let s := pre ++ [b]
    fnv (fnv h (strOut s)) "\n") fnv0
  hex64 h

def allBytes : List UInt8 := (List.range 256).map UInt8.ofNat

def step (_ : Unit) (ts : List String) : Unit × String :=
  let r : String := match ts with
    | ["e32", n, cs] => match n.toInt?, ints cs with
      | some n, some cs => orOob ((utf32toUtf8 (cs ++ [0]) n).map lenHex)
      | _, _ => "bad-op"
    | ["d32", n, h] => match n.toInt?, unhex h with
      | some n, some s => orOob ((utf8toUtf32 (mem s) n).map lenNat)
      | _, _ => "bad-op"
    | ["e16", n, cs] => match n.toInt?, ints cs with
      | some n, some cs => orOob ((utf16toUtf8 (cs ++ [0]) n).map lenHex)
      | _, _ => "bad-op"
    | ["d16", n, h] => match n.toInt?, unhex h with
      | some n, some s => orOob ((utf8toUtf16 (mem s) n).map lenNat)
      | _, _ => "bad-op"
    | ["conv", h] => match unhex h with
      | some s => convOut s | none => "bad-op"
    | ["str", h] => match unhex h with
      | some s => strOut s | none => "bad-op"
    | ["cmap", h] => match unhex h with
      | some s => caseOut s | none => "bad-op"
    | ["nocase", a, b] => match unhex a, unhex b with
      | some a, some b => nocaseOut a b | _, _ => "bad-op"
    | ["codes", cs] => match ints cs with
      | some cs => codesOut cs | none => "bad-op"
    | ["code", c] => match c.toInt? with
      | some c => orOob ((fromCode c).map lenHex) | none => "bad-op"
    | ["fixw", h, us] => match unhex h, ints us with
      | some b, some us => fixOut (sizeInit b.length) b.length us (fixwOp b.length us)
      | _, _ => "bad-op"
    | ["safe", n, us] => match n.toNat?, ints us with
      | some n, some us => fixOut (sizeResize 0 (3 * (n % 64))) (3 * (n % 64)) us (safeOp (n % 64) us)
      | _, _ => "bad-op"
    | ["safec", h] => match unhex h with
      | some b => match safeConstOp b with
        | none => oob
        | some (w, r) =>
          let cap := capOf (sizeResize (sizeInit b.length) (datawNeed b.length))
          match r with
          | .ok out => s!"off={wideOffset b.length} cap={cap} wide={natList w} {lenHex out}"
          | .error f => s!"fault {faultName f}"
      | none => "bad-op"
    | ["cvalid", h] => match unhex h with
      | some b => cvalidOut b | none => "bad-op"
    | ["wlen", h] => match unhex h with
      | some b => orOob ((wlength b).map toString) | none => "bad-op"
    | ["warr", us] => match ints us with
      | some us => orOob ((fromWideArr us).map lenHex)
      | none => "bad-op"
    | ["sblk", lo, cnt] => match lo.toNat?, cnt.toNat? with
      | some lo, some cnt => scalarBlock lo cnt | _, _ => "bad-op"
    | ["bblk", h, a] => match unhex h with
      | some p => if a == "all" then byteBlock p allBytes else if a == "bnd" then byteBlock p boundaryBytes else "bad-op"
      | none => "bad-op"
    | _ => "bad-op"
  ((), r)

end Driver.C08

def main : IO Unit := Driver.loop () Driver.C08.step
