import Driver.Common
import AslModel.HttpParse
import AslModel.HttpRange
/-! Model driver for C09 (HTTP request reader, server loop, Url). -/
open Driver AslModel.HttpParse

namespace Driver.C09

def adler32 (b : List UInt8) : Nat :=
  let r := b.foldl (fun (acc : Nat × Nat) c =>
    let a := (acc.1 + c.toNat) % 65521
    (a, (acc.2 + a) % 65521)) (1, 0)
  r.2 * 65536 + r.1

/-- short byte strings in full, long ones as length:adler32:first 16 bytes -/
def brep (b : List UInt8) : String :=
  if b.length ≤ 64 then s!"{b.length}:{hex b}" else s!"{b.length}:{adler32 b}:{hex (b.take 16)}"

def showDic (d : Dic) : String :=
  if d.isEmpty then "-" else ";".intercalate (d.map fun kv => hex kv.1 ++ ":" ++ brep kv.2)

def showList (l : List (List UInt8)) : String :=
  if l.isEmpty then "none" else ",".intercalate (l.map hex)

/-- bytewise scan for two consecutive dots -/
def scanDD : List UInt8 → Bool
  | a :: b :: t => (a == 46 && b == 46) || scanDD (b :: t)
  | _ => false

def ciOk (h : Dic) : Bool :=
  h.all fun kv => header h (kv.1.map toLower) == kv.2 && header h (kv.1.map toUpper) == kv.2
    && hasHeader h (kv.1.map toLower)

def showFault : Fault → String
  | .oob => "fault oob"
  | .spin => "fault spin"

def showReq (r : Req) : String :=
  let qd := match queryDic r with
    | .ok d => showDic d
    | .error f => showFault f
  s!"m={brep r.method} r={brep r.res} pr={brep r.proto} p={brep r.path} q={brep r.query} f={brep r.fragment} " ++
  s!"parts={showList r.parts} H={showDic r.headers} b={brep r.body} qd={qd} ci={if ciOk r.headers then 1 else 0} " ++
  s!"dd={if scanDD r.path then 1 else 0}"

def showSock (s : Sock) (rest : Bool) : String :=
  s!"err={s.err} closed={if s.closed then 1 else 0} out={brep s.out}" ++ (if rest then s!" rest={s.inp.length}" else "")

def showServed (rs : List Req) : String :=
  s!"n={rs.length}" ++ String.join (rs.map fun q => " [" ++ showReq q ++ "]")

def step (_ : Unit) (ts : List String) : Unit × String :=
  let r : String := match ts with
    | ["req", h] => match unhex h with
      | some d => match read { inp := d } with
        | .ok (q, s) => showReq q ++ " | " ++ showSock s true
        | .error f => showFault f
      | none => "bad-op"
    | ["tg", h] => match unhex h with
      | some t =>
        let d := [71, 69, 84, 32] ++ t ++ [32, 72, 84, 84, 80, 47, 49, 46, 49, 13, 10, 13, 10]
        match read { inp := d } with
        | .ok (q, _) => s!"p={brep q.path} dd={if scanDD q.path then 1 else 0}"
        | .error f => showFault f
      | none => "bad-op"
    | ["srv", h] => match unhex h with
      | some d => match serve { inp := d }, serveLoopAt { inp := d } with
        | .ok (s, rs), .ok (_, _, ats) =>
          showServed rs ++ " | " ++ showSock s true ++ " at=" ++ (if ats.isEmpty then "-" else ",".intercalate (ats.map toString))
        | .error f, _ => showFault f
        | _, .error f => showFault f
      | none => "bad-op"
    | "tcp" :: hs => match hs.mapM unhex with
      | some ds =>
        if ds.isEmpty then "bad-op" else
        " || ".intercalate (ds.map fun d => match serve { inp := d } with
          | .ok (s, rs) => showServed rs ++ " | out=" ++ brep s.out
          | .error f => showFault f)
      | none => "bad-op"
    | ["file", h] => match unhex h with
      -- safety oracle op: the implementation side prints `ok` unless a response leaks a file from outside the root
      | some _ => "ok"
      | none => "bad-op"
    | ["fmap", h] => match unhex h with
      | some t =>
        let d := [71, 69, 84, 32] ++ t ++ [32, 72, 84, 84, 80, 47, 49, 46, 49, 13, 10, 13, 10]
        match read { inp := d } with
        | .ok (q, s) =>
          if s.err != 0 || s.closed || q.method.length == 0 || q.path.length == 0 || q.proto.length == 0 then "status=none"
          else
            let r := serveFileStatus q.path
            s!"status={r.1} len={r.2}"
        | .error f => showFault f
      | none => "bad-op"
    | ["rng", k, h] => match k.toNat?, unhex h with
      | some k, some v =>
        let (path, n) : Bytes × Nat := match k % 3 with
          | 0 => ([47, 97, 46, 116, 120, 116], 36)
          | 1 => ([47, 101, 46, 98, 105, 110], 0)
          | _ => ([47, 115, 117, 98, 47, 98, 46, 116, 120, 116], 4)
        let d := [71, 69, 84, 32] ++ path ++ [32, 72, 84, 84, 80, 47, 49, 46, 49, 13, 10, 82, 97, 110, 103, 101, 58, 32] ++ v ++ [13, 10, 13, 10]
        match read { inp := d } with
        | .ok (q, s) =>
          if s.err != 0 || s.closed || q.method.length == 0 || q.path.length == 0 || q.proto.length == 0 then "status=none"
          else match rangeAnswer n q.headers with
            | .ok .whole => s!"status=200 cr=- len={n} body={n}"
            | .ok .unsat => s!"status=416 cr=bytes_*/{n} len=0 body=0"
            | .ok (.part b e) => s!"status=206 cr=bytes_{b}-{e}/{n} len={e - b + 1} body={e - b + 1}"
            | .error f => showFault f
        | .error f => showFault f
      | _, _ => "bad-op"
    | ["upg", h, f] => match unhex h, unhex f with
      | some hd, some fr => match upgradeHandOff { inp := hd ++ fr } with
        | .ok (some (_, s')) => s!"ho=1 rest={brep s'.inp}"
        | .ok none => "ho=0"
        | .error e => showFault e
      | _, _ => "bad-op"
    -- the same stream delivered in two segments cut at `k`: the answer does not depend on `k` (`upgrade_handoff_any_fragmentation`)
    | ["upgf", h, f, k] => match unhex h, unhex f, k.toNat? with
      | some hd, some fr, some _ => match upgradeHandOff { inp := hd ++ fr } with
        | .ok (some (_, s')) => s!"ho=1 rest={brep s'.inp}"
        | .ok none => "ho=0"
        | .error e => showFault e
      | _, _, _ => "bad-op"
    | ["url", h] => match unhex h with
      | some d => match parseUrl d with
        | .ok u => s!"proto={brep u.protocol} host={brep u.host} port={u.port} path={brep u.path}"
        | .error f => showFault f
      | none => "bad-op"
    | ["dec", h] => match unhex h with
      | some d => match urlDecode d with
        | .ok u => brep u
        | .error f => showFault f
      | none => "bad-op"
    | _ => "bad-op"
  ((), r)

end Driver.C09

def main : IO Unit := Driver.loop () Driver.C09.step
