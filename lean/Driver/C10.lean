import Driver.Common
import AslModel.HttpFrame
/-! Model driver for C10 (HTTP framing, client <-> server exchanges).

Ops (all byte strings hex, `-` = empty):

* body spec  : `-` | `x<hex>` | `g<seed>.<len>.<mode>`  (mode 0 all bytes, 1 CR/LF/NUL heavy, 2 printable)
* headers    : `H<n>` followed by n pairs `<name> <value>`
* plan       : `P <code> H<n>.. <kind>` with kind `n` | `b <body>` | `t <body>` | `j <jsontext-body>` | `f <body> <ext>` |
               `s <body> <sizes>` | `S <body> <sizes>` (streamed parts; S = no final chunk) | `r <target> <body>`
* request    : `<method> <target> <D|S><F|N> H<n>.. <kind>` with kind `n` | `b/t/j/f/u <body>`
               (D: headers passed as a Dic to the constructor, S: setHeader; F: follow redirects)
* `xchg <request> <plan>`                       real client <-> real server:  `H.. | C..`
* `cwire <request>`                             real client -> raw server: request bytes on the wire
* `cread <head> <body> <framing> <cuts> <c|k>`  raw server -> real client
* `raw <s|p> <k> { <head> <body> <framing> <cuts> <plan> }*k`   raw client -> real server, k requests on one connection
* `options <0|1>`                               1: OPTIONS requests reach the handler
* `sockio w <body> <sched>` / `sockio r <body> <cuts> <size>`   Socket::write / Socket::read over a socketpair
* `dl <seed> <sizes> <n> {<file> <b> <e> <pace>}*n`   concurrent file downloads, every body byte checked against a formula
* `par ..` / `big ..`                           concurrency / very large bodies: judged by the property oracle; the
                                                model prints the verdict the oracle requires (`ok <n>`).
-/
open Driver AslModel AslModel.HttpFrame

namespace Driver.C10

def unhexFast (s : String) : Option Bytes :=
  if s = "-" then some [] else
  let cs := s.toList.toArray
  if cs.size % 2 != 0 then none else
  let rec go (k : Nat) (acc : Array UInt8) (fuel : Nat) : Option (Array UInt8) :=
    match fuel with
    | 0 => some acc
    | f + 1 =>
      if k + 1 < cs.size then
        match hexVal cs[k]!, hexVal cs[k + 1]! with
        | some a, some b => go (k + 2) (acc.push (UInt8.ofNat (a * 16 + b))) f
        | _, _ => none
      else some acc
  (go 0 (Array.mkEmpty (cs.size / 2)) (cs.size / 2 + 1)).map (·.toList)

def hexFast (bs : Bytes) : String :=
  if bs.isEmpty then "-" else
  String.ofList (bs.foldr (fun b acc => hexDigit (b.toNat / 16) :: hexDigit (b.toNat % 16) :: acc) [])

def fnv (bs : Bytes) : UInt64 :=
  bs.foldl (fun h b => (h ^^^ b.toUInt64) * 1099511628211) 14695981039346656037

def hex16 (x : UInt64) : String :=
  String.ofList ((List.range 16).map fun k => hexDigit ((x >>> (UInt64.ofNat (60 - 4 * k))).toNat % 16))

def digest (bs : Bytes) : String := s!"B{bs.length}.{hex16 (fnv bs)}"

def wireStrL (limit : Nat) (w : Bytes) : String :=
  let s := s!"W{w.length}.{hex16 (fnv w)}"
  if w.length ≤ limit then s ++ " " ++ hexFast w else s

def wireStr (w : Bytes) : String := wireStrL 160 w

def genBody (seed len mode : Nat) : Bytes :=
  let rec go (k : Nat) (x : Nat) (acc : Array UInt8) : Array UInt8 :=
    match k with
    | 0 => acc
    | k + 1 =>
      let x := (x * 1103515245 + 12345) % 2147483648
      let b := (x / 65536) % 256
      let c : Nat :=
        if mode == 0 then b
        else if mode == 1 then
          let r := b % 8
          if r == 0 then 13 else if r == 1 then 10 else if r == 2 then 0 else if r == 3 then 48 else b
        else 32 + b % 95
      go k x (acc.push (UInt8.ofNat c))
  (go len (seed % 2147483648) (Array.mkEmpty len)).toList

def bodyOf (s : String) : Option Bytes :=
  if s = "-" then some []
  else if s.startsWith "x" then unhexFast (s.drop 1).toString
  else if s.startsWith "g" then
    match ((s.drop 1).toString.splitOn ".").map String.toNat? with
    | [some seed, some len, some mode] => some (genBody seed len mode)
    | _ => none
  else none

def natList (s : String) : List Nat :=
  if s = "-" then [] else (s.splitOn ",").filterMap String.toNat?

def cutsOf (s : String) (len : Nat) : List Nat :=
  ((natList s).map (· % (len + 1))).toArray.qsort (· < ·) |>.toList

/-- H<n> then n pairs -/
def hdrsOf : List String → Option (List (Bytes × Bytes) × List String)
  | t :: rest =>
    if t.startsWith "H" then
      match (t.drop 1).toString.toNat? with
      | some n =>
        let rec go (k : Nat) (ts : List String) (acc : List (Bytes × Bytes)) : Option (List (Bytes × Bytes) × List String) :=
          match k, ts with
          | 0, ts => some (acc.reverse, ts)
          | k + 1, a :: b :: ts =>
            match unhexFast a, unhexFast b with
            | some x, some y => go k ts ((x, y) :: acc)
            | _, _ => none
          | _, _ => none
        go n rest []
      | none => none
    else none
  | [] => none

/-- split a body into parts of the given sizes (cyclic; 0 counts as 1) -/
def partsOf (sizes : List Nat) (b : Bytes) : List Bytes :=
  let rec go (fuel : Nat) (k : Nat) (b : Bytes) (acc : List Bytes) : List Bytes :=
    match fuel with
    | 0 => acc.reverse
    | f + 1 =>
      if b.isEmpty then acc.reverse else
      let n := if sizes.isEmpty then b.length else sizes.getD (k % sizes.length) 1
      let n := if n == 0 then 1 else n
      go f (k + 1) (b.drop n) (b.take n :: acc)
  go (b.length + 1) 0 b []

structure PlanX where
  plan : Plan
  json : Bool := false

/-- `@` in a Location text stands for the server's authority (`127.0.0.1:<port>`, port canonicalised to 0) -/
def substAuthority (b : Bytes) : Bytes :=
  (b.map fun c => if c == 64 then "127.0.0.1:0".toUTF8.toList else [c]).flatten

def planOf : List String → Option (Plan × List String)
  | "P" :: code :: rest =>
    match code.toNat?, hdrsOf rest with
    | some c, some (hs, rest) =>
      match rest with
      | "n" :: rest => some ({ code := c, headers := hs, kind := .none }, rest)
      | "b" :: b :: rest => (bodyOf b).map fun x => ({ code := c, headers := hs, kind := .bytes x }, rest)
      | "t" :: b :: rest => (bodyOf b).map fun x => ({ code := c, headers := hs, kind := .bytes x }, rest)
      | "j" :: _ :: rest => some ({ code := c, headers := hs, kind := .json }, rest)
      | "f" :: b :: e :: rest =>
        match bodyOf b, unhexFast e with
        | some x, some ext => some ({ code := c, headers := hs, kind := .file x ext }, rest)
        | _, _ => none
      | "s" :: b :: sz :: rest =>
        (bodyOf b).map fun x => ({ code := c, headers := hs, kind := .stream (partsOf ((natList sz).map (· % 1073741825)) x) true }, rest)
      | "S" :: b :: sz :: rest =>
        (bodyOf b).map fun x => ({ code := c, headers := hs, kind := .stream (partsOf ((natList sz).map (· % 1073741825)) x) false }, rest)
      | "w" :: b :: sz :: rest =>
        (bodyOf b).map fun x => ({ code := c, headers := hs, kind := .streamAuto (partsOf ((natList sz).map (· % 1073741825)) x) }, rest)
      | "W" :: b :: rest =>
        -- the handler's own writeFile(): the file goes out in reads of the receive block, each written like a part
        (bodyOf b).map fun x => ({ code := c, headers := hs, kind := .streamAuto (partsOf [recvBlock] x) }, rest)
      | "m" :: rest => some ({ code := c, headers := hs, kind := .missing }, rest)
      | "B" :: b :: rest =>
        -- put(body) and then write() by the handler itself: the same message as put(body) alone (687bf13)
        (bodyOf b).map fun x => ({ code := c, headers := hs, kind := .bytes x }, rest)
      | "F" :: pre :: b :: rest =>
        -- write(pre) (or sendHeaders() alone), then put(File): the file goes out through writeFile() behind the piece
        match bodyOf pre, bodyOf b with
        | some pr, some x => some ({ code := c, headers := hs, kind := .streamFile pr x }, rest)
        | _, _ => none
      | "R" :: loc :: rel :: b :: rest =>
        match unhexFast loc, (if rel == "-" then some [] else unhexFast rel), bodyOf b with
        | some l, some rl, some x => some ({ code := c, headers := hs, kind := .redirectRel l (substAuthority rl) x }, rest)
        | _, _, _ => none
      | "r" :: loc :: b :: rest =>
        match unhexFast loc, bodyOf b with
        | some l, some x => some ({ code := c, headers := hs, kind := .redirect l x }, rest)
        | _, _ => none
      | _ => none
    | _, _ => none
  | _ => none

structure Req where
  method : Bytes
  target : Bytes
  viaDic : Bool
  follow : Bool
  times : Nat := 1
  caller : Bool := false      -- flag C: the 4-argument constructor on a Dic the caller keeps and uses again
  headers : List (Bytes × Bytes)
  kind : String
  body : Bytes

def reqOf : List String → Option (Req × List String)
  | m :: t :: fl :: rest =>
    match unhexFast m, unhexFast t, hdrsOf rest with
    | some m, some t, some (hs, rest) =>
      let viaDic := fl.startsWith "D" || fl.startsWith "C"
      let caller := fl.startsWith "C"
      let follow := (fl.drop 1).toString.startsWith "F"
      let times := match (fl.drop 2).toString.toNat? with
        | some k => if k ≥ 1 ∧ k ≤ 9 then k else 1
        | none => 1
      match rest with
      | "n" :: rest => some ({ method := m, target := t, viaDic, follow, times, caller, headers := hs, kind := "n", body := [] }, rest)
      | k :: b :: rest =>
        if k ∈ ["b", "t", "j", "f", "u"] then
          (bodyOf b).map fun x => ({ method := m, target := t, viaDic, follow, times, caller, headers := hs, kind := k, body := x }, rest)
        else none
      | _ => none
    | _, _, _ => none
  | _ => none

def sHost : Bytes := "127.0.0.1".toUTF8.toList
def sBase : Bytes := "http://127.0.0.1:0".toUTF8.toList
def sMultipart : Bytes := "multipart/form-data".toUTF8.toList
def sMultipartStar : Bytes := "multipart/form-data; boundary=*".toUTF8.toList

def sortPairs (l : List (Bytes × Bytes)) : List (String × String) :=
  ((l.map fun kv => (hexFast kv.1, hexFast kv.2)).toArray.qsort (fun a b => a.1 < b.1 || (a.1 == b.1 && a.2 < b.2))).toList

def dicStr (tag : String) (d : Dic) : String :=
  let l := sortPairs d
  l.foldl (fun s kv => s ++ " " ++ kv.1 ++ " " ++ kv.2) (tag ++ toString l.length)

/-- `H ...` line; `mark` replaces the body digest (and the Content-Length value) for JSON / multipart bodies -/
def handlerObs (q : Request) (mark : String) : String :=
  let hs := if mark.isEmpty || !hasHeader q.headers sContentLength then q.headers else dicSet q.headers sContentLength sStar
  let hs := if mark == "U1" then dicSet hs sContentType sMultipartStar else hs
  s!"H {hexFast q.method} {hexFast q.path} {hexFast q.querystring} {dicStr "Q" (parseQuery q.querystring)} {dicStr "N" hs} " ++
    (if mark.isEmpty then digest q.body else mark)

def clientObs (r : Response) (json : Bool) : String :=
  let hs := if json then dicSet r.headers sContentLength sStar else r.headers
  s!"C {r.code} {hexFast r.proto} {dicStr "N" hs} " ++ (if json then "J1" else digest r.body) ++ " E" ++ hexFast r.sockError

/-- the message the client sends (what `Http::request` + `write()` build) -/
def sUrlEncoded : Bytes := "application/x-www-form-urlencoded".toUTF8.toList

/-- the header dictionary of the request object: `setHeader` calls, or the Dic given to the constructor (its entries
copied under their capitalized names, an empty value kept) -/
def requestHeaders (r : Req) : Dic :=
  if r.viaDic then (dicOfList r.headers).foldl (fun d nv => storeHeader d nv.1 nv.2) []
  else r.headers.foldl (fun d nv => setHeader d nv.1 nv.2) []

/-- the message the client sends (what `Http::request` + `write()` build): (headers of the request object afterwards, wire) -/
def clientWire (r : Req) (target : Bytes) (h0 : Option Dic) : Dic × Bytes :=
  let path := if target.isEmpty then [47] else target
  let h : Dic := match h0 with
    | some h => h
    | none => requestHeaders r
  match r.kind with
  | "f" =>
    -- put(File): Content-Length first set to the path length, then to the file size by putFile (not when chunked)
    clientSendFile r.method path sHost 0 (setHeader h sContentLength [49]) r.body
  | "u" =>
    -- multipart envelope with a random boundary: only judged by the oracle (`U1`); the model sends the bare file
    let h := if hasHeader h sContentType then h else setHeader h sContentType sMultipart
    clientSendFile r.method path sHost 0 h r.body
  | "j" =>
    -- put(Var): JSON text and Content-Type: application/json, or form encoding when the request says so
    let h := setHeader h sContentLength (utoa r.body.length)
    let h := if header h sContentType = sUrlEncoded then h else setHeader h sContentType sAppJson
    clientSend r.method path sHost 0 h r.body
  | "n" => clientSend r.method path sHost 0 h r.body
  | _ =>
    -- put(ByteArray) / put(String) always set Content-Length (also "0")
    clientSend r.method path sHost 0 (setHeader h sContentLength (utoa r.body.length)) r.body

/-- `Http::request` against `serve(Socket)`: returns the last handler observation and the client's view -/
def exchange (opt : Bool) (r : Req) (p : Plan) : Nat → Bytes → Option Dic → Option Request → (Option Request × Response)
  | 0, _, _, last => (last, { code := 421, proto := sHttp11, headers := [], body := [], sockError := "Too many redirects".toUTF8.toList })
  | fuel + 1, target, h0, last =>
    let (hAfter, wire) := clientWire r target h0
    let (q, _) := readRequest (Inp.ofBytes wire)
    if ¬ q.valid then (last, { code := 0, proto := sHttp11, headers := [], body := [], sockError := sBadRecv }) else
    let s := serve1 opt q p [] sBase
    let seen := if s.called then some q else last
    let (resp, _) := readResponse (Inp.ofBytes (interimOf q.headers ++ s.wire))
    if followsRedirect r.follow resp.code resp.headers then
      let loc := resolveLocation (sBase ++ target) (header resp.headers sLocation)
      let target' := if startsWith loc sBase then loc.drop sBase.length else loc
      if fuel = 0 then
        (seen, { resp with code := 421, body := [], sockError := "Too many redirects".toUTF8.toList })
      else exchange opt r p fuel target' (some hAfter) seen
    else (seen, resp)

def obsOrDash (q : Option Request) (mark : String) : String :=
  match q with
  | some q => handlerObs q mark
  | none => "H-"

def frameStream (head body : Bytes) (fr : String) : Bytes :=
  if fr == "cl" || !fr.startsWith "ch" then head ++ body else
  let spec := (fr.drop 2).toString
  let isFlag (c : Char) : Bool := c == 'u' || c == 'x' || c == 'z' || c == 'p' || c == 'q'
  let flags := spec.toList.filter isFlag
  let spec := String.ofList (spec.toList.filter (fun c => !isFlag c))
  let pad := if flags.contains 'q' then 9 else if flags.contains 'p' then 8 else 0
  let upper := flags.contains 'u'
  let ext := flags.contains 'x'
  let noend := flags.contains 'z'
  let sizes := if spec.isEmpty then [] else natList spec
  let parts := partsOf sizes body
  let enc (p : Bytes) : Bytes :=
    let hx := hexLower p.length
    let hx := if upper then hx.map toUpper else hx
    let hx := List.replicate (pad - hx.length) 48 ++ hx
    hx ++ (if ext then ";a=b".toUTF8.toList else []) ++ crlf ++ p ++ crlf
  head ++ (parts.map enc).flatten ++ (if noend then [] else lastChunk)

/-! ### `dl`: concurrent file downloads with position-dependent content -/

def dlByte (seed f o : Nat) : UInt8 :=
  UInt8.ofNat ((((o + 1) * 2654435761 + (f + 1) * 40503 * (o / 1000 + 1) + seed) % 4294967296) / 8192 % 256)

def dlContent (seed f n : Nat) : Bytes :=
  let rec go (k : Nat) (o : Nat) (acc : Array UInt8) : Array UInt8 :=
    match k with
    | 0 => acc
    | k + 1 => go k (o + 1) (acc.push (dlByte seed f o))
  (go n 0 (Array.mkEmpty n)).toList

def dlSlice (seed f from_ len : Nat) : Bytes :=
  let rec go (k : Nat) (o : Nat) (acc : Array UInt8) : Array UInt8 :=
    match k with
    | 0 => acc
    | k + 1 => go k (o + 1) (acc.push (dlByte seed f o))
  (go len from_ (Array.mkEmpty len)).toList

structure DlClient where
  file : Nat
  b : Int
  e : Int
  pace : Nat

/-- the oracle: (status, Content-Length, Content-Range, first offset, length) a client must observe -/
def dlExpect (n : Nat) (c : DlClient) : Nat × Bytes × Bytes × Nat × Nat :=
  if c.b < 0 then (200, utoa n, [], 0, n)
  else if c.b ≤ c.e ∧ c.b < (n : Int) then
    -- RFC 7233 2.1: a last position at or past the end means "to the end"
    let e : Int := if c.e < (n : Int) then c.e else (n : Int) - 1
    (206, utoa (e - c.b + 1).toNat, contentRangeText c.b.toNat e.toNat n, c.b.toNat, (e - c.b + 1).toNat)
  else (416, [48], contentRangeStar n, 0, 0)

def sBin : Bytes := [98, 105, 110]

def dlRequest (c : DlClient) : Bytes :=
  s!"GET /dl/{c.file} HTTP/1.1\r\nHost: x\r\n".toUTF8.toList ++
    (if c.b < 0 then [] else s!"Range: bytes={c.b}-{c.e}\r\n".toUTF8.toList) ++ "Connection: close\r\n\r\n".toUTF8.toList

/-- model verdict for one `dl` op: every connection is served through `runSched` (files up to 1 MiB are materialised and
every body byte compared; for larger files the announced status / length / range are computed by the range arithmetic
and the body bytes follow from `range_spec`) -/
def opDl (seed : Nat) (sizes : List Nat) (cs : List DlClient) : String :=
  let small (c : DlClient) : Bool := sizes.getD c.file 0 ≤ 1048576
  let conns : List Conn := cs.map fun c =>
    let n := sizes.getD c.file 0
    if small c then Conn.start [{ code := 200, headers := [], kind := .file (dlContent seed c.file n) sBin }] (dlRequest c)
    else Conn.start [] []
  let server : Server := fun k => conns.getD k default
  -- a schedule that interleaves the connections in a seed-dependent order
  let order := ((List.range cs.length).toArray.qsort (fun a b => (a * 7919 + seed) % 104729 < (b * 7919 + seed) % 104729)).toList
  let final := runSched true sBase order server
  let verdicts := (List.range cs.length).map fun k =>
    match cs[k]? with
    | none => false
    | some c =>
      let n := sizes.getD c.file 0
      let (code, cl, cr, from_, len) := dlExpect n c
      if small c then
        match (final k).out with
        | [(_, wire)] =>
          let (r, _) := readResponse (Inp.ofBytes wire)
          r.code == code && header r.headers sContentLength == cl && header r.headers sContentRange == cr &&
            r.body == dlSlice seed c.file from_ len
        | _ => false
      else
        -- header arithmetic of putFile
        if c.b < 0 then code == 200
        else match rangeOf n c.b c.e with
          | some (b', e') => code == 206 && cl == utoa (e' - b' + 1) && cr == contentRangeText b' e' n && from_ == b' && len == e' - b' + 1
          | none => code == 416
  match verdicts.findIdx? (· == false) with
  | some k => s!"bad client {k}"
  | none => s!"ok {cs.length}"

structure St where
  wireLimit : Nat := 160
  options : Bool := true    -- OPTIONS handled by the library's handleOptions

def opRaw (st : St) (pipelined : Bool) (k : Nat) (ts : List String) : String :=
  let rec parse (k : Nat) (ts : List String) (acc : List (Bytes × List Nat × Plan)) : Option (List (Bytes × List Nat × Plan)) :=
    match k with
    | 0 => if ts.isEmpty then some acc.reverse else none
    | k + 1 =>
      match ts with
      | head :: body :: fr :: cuts :: rest =>
        match unhexFast head, bodyOf body, planOf rest with
        | some h, some b, some (p, rest) =>
          let s := frameStream h b fr
          parse k rest ((s, cutsOf cuts s.length, p) :: acc)
        | _, _, _ => none
      | _ => none
  match parse k ts [] with
  | none => "bad-op"
  | some items =>
    let outs : List (Option Request × Bytes) :=
      if pipelined then
        let all := (items.map (·.1)).flatten
        let (_, cuts) := items.foldl (fun (acc : Nat × List Nat) it => (acc.1 + it.1.length, acc.2 ++ it.2.1.map (· + acc.1))) (0, [])
        serveConn st.options sBase (items.map (·.2.2)) (Inp.ofBytes all cuts)
      else
        -- one request at a time; the connection stays usable while every exchange keeps it
        let (res, _) := items.foldl (fun (acc : List (Option Request × Bytes) × Bool) it =>
          if !acc.2 then (acc.1 ++ [(none, [])], false) else
          let (q, w, keep, _) := serveStep st.options sBase it.2.2 (Inp.ofBytes it.1 it.2.1)
          (acc.1 ++ [(q, w)], keep)) ([], true)
        res
    let strs := outs.map fun (q, w) => obsOrDash q "" ++ " " ++ wireStrL st.wireLimit w ++ (if w.isEmpty || w == sInterim100 then " short" else "")  -- no final response: nothing, or only the interim 100
    " ; ".intercalate strs ++ " ; R0"

/-! ### `reuse`: ONE client HttpRequest object sent several times (method / framing / body changed in between)

What the object carries from one send to the next is its body and whether it has a `Content-Length` (`put()` sets one, also
"0"; a chunked send removes it from the object; a send with a length puts it back when the body is not empty).  Each send is
then an exchange of its own: `exchange` on a fresh `Req` with the object's current method, headers and body. -/

structure ReuseSend where
  method : Bytes
  chunked : Bool
  put : String            -- "=" keeps the body, "b" / "t" / "f" put a new one
  body : Bytes
  plan : Plan

/-- the independent requests a sequence of sends of one object amounts to -/
def reuseReqs (target : Bytes) (viaDic : Bool) (hs : List (Bytes × Bytes)) :
    List ReuseSend → String → Bytes → Bool → List (Req × Plan)
  | [], _, _, _ => []
  | s :: rest, kind, body, cl =>
    let (kind, body, cl) := if s.put == "=" then (kind, body, cl) else (s.put, s.body, true)
    let k := if kind == "f" then "f" else if s.chunked || cl || !body.isEmpty then (if kind == "n" then "n" else "b") else "n"
    let hs' := if s.chunked then hs ++ [(sTransferEncoding, sChunked)] else hs
    let r : Req := { method := s.method, target, viaDic, follow := true, headers := hs', kind := k, body := body }
    let cl' := if s.chunked then false else if body.isEmpty then cl else true
    (r, s.plan) :: reuseReqs target viaDic hs rest kind body cl'

def reuseParse : Nat → List String → List ReuseSend → Option (List ReuseSend)
  | 0, ts, acc => if ts.isEmpty then some acc.reverse else none
  | k + 1, m :: fr :: put :: rest, acc =>
    match unhexFast m with
    | none => none
    | some m =>
      if put == "=" then
        match planOf rest with
        | some (p, rest) => reuseParse k rest ({ method := m, chunked := fr == "C", put, body := [], plan := p } :: acc)
        | none => none
      else if put ∈ ["b", "t", "f"] then
        match rest with
        | b :: rest =>
          match bodyOf b, planOf rest with
          | some x, some (p, rest) => reuseParse k rest ({ method := m, chunked := fr == "C", put, body := x, plan := p } :: acc)
          | _, _ => none
        | [] => none
      else none
  | _, _, _ => none

def opReuse (st : St) (ts : List String) : String :=
  match ts with
  | t :: fl :: rest =>
    match unhexFast t, hdrsOf rest with
    | some t, some (hs, k :: rest) =>
      match k.toNat? with
      | some k =>
        if k < 1 || k > 9 then "bad-op" else
        match reuseParse k rest [] with
        | some sends =>
          let outs := (reuseReqs t (fl.startsWith "D") hs sends "n" [] false).map fun (r, p) =>
            let (q, resp) := exchange st.options r p 4 r.target none none
            let isJson := match p.kind with
              | .json => true
              | _ => false
            obsOrDash q "" ++ " | " ++ clientObs resp isJson
          " || ".intercalate outs
        | none => "bad-op"
      | none => "bad-op"
    | _, _ => "bad-op"
  | _ => "bad-op"

def step (st : St) (ts : List String) : St × String :=
  match ts with
  | ["wirelimit", n] => ({ st with wireLimit := n.toNat?.getD 160 }, "ok")
  | ["options", v] => ({ st with options := v != "1" }, "ok")
  | "xchg" :: rest =>
    match reqOf rest with
    | some (r, rest) =>
      match planOf rest with
      | some (p, []) =>
        let (q, resp) := exchange st.options r p 4 r.target none none
        let mark := if r.kind == "j" then (if header (requestHeaders r) sContentType = sUrlEncoded then "F1" else "J1")
                    else if r.kind == "u" then "U1" else ""
        let isJson := match p.kind with
          | .json => true
          | _ => false
        -- the same HttpRequest object passed `times` times to Http::request: every time the same exchange
        let one := obsOrDash q mark ++ " | " ++ clientObs resp isJson
        let out := " || ".intercalate (List.replicate r.times one)
        if r.caller then
          -- the caller's Dic is untouched by the request made from it, and a GET made from it afterwards carries just it
          let r2 : Req := { r with method := "GET".toUTF8.toList, kind := "n", body := [], times := 1, caller := false }
          let (q2, resp2) := exchange st.options r2 p 4 r.target none none
          (st, out ++ " ## " ++ dicStr "D" (dicOfList r.headers) ++ " ## " ++ obsOrDash q2 "" ++ " | " ++ clientObs resp2 isJson)
        else (st, out)
      | _ => (st, "bad-op")
    | none => (st, "bad-op")
  | "reuse" :: rest => (st, opReuse st rest)
  | "cwire" :: rest =>
    match reqOf rest with
    | some (r, []) =>
      let (_, w) := clientWire r r.target none
      (st, wireStr w ++ " C200")
    | _ => (st, "bad-op")
  | ["cread", head, body, fr, cuts, _] =>
    match unhexFast head, bodyOf body with
    | some h, some b =>
      let s := frameStream h b fr
      let (resp, _) := readResponse (Inp.ofBytes s (cutsOf cuts s.length))
      (st, clientObs resp false)
    | _, _ => (st, "bad-op")
  | "raw" :: mode :: k :: rest =>
    match k.toNat? with
    | some k => (st, opRaw st (mode == "p") k rest)
    | none => (st, "bad-op")
  | ["sockio", "w", b, sched] =>
    match bodyOf b with
    | some d =>
      let (out, ret) := sockWrite (natList sched) d
      (st, s!"{ret} {digest out}")
    | none => (st, "bad-op")
  | ["sockio", "r", b, cuts, size] =>
    match bodyOf b, size.toNat? with
    | some d, some n =>
      -- the pieces the peer sends are the schedule of what each read() can return at most
      let cs := cutsOf cuts d.length
      let pieces := (cs.zip (0 :: cs)).map (fun (a, b) => a - b)
      let (out, err) := sockRead pieces d n
      (st, s!"{out.length} {digest out} {if err then 1 else 0}")
    | _, _ => (st, "bad-op")
  | "dl" :: seed :: sizes :: n :: rest =>
    match seed.toNat?, n.toNat? with
    | some seed, some n =>
      let rec parse (k : Nat) (ts : List String) (acc : List DlClient) : Option (List DlClient) :=
        match k, ts with
        | 0, [] => some acc.reverse
        | k + 1, f :: b :: e :: p :: ts =>
          match f.toNat?, b.toInt?, e.toInt?, p.toNat? with
          | some f, some b, some e, some p => parse k ts ({ file := f, b := b, e := e, pace := p } :: acc)
          | _, _, _, _ => none
        | _, _ => none
      match parse n rest [] with
      | some cs => (st, opDl seed ((natList sizes).map (· % 1073741825)) cs)
      | none => (st, "bad-op")
    | _, _ => (st, "bad-op")
  | "par" :: n :: r :: _ =>
    match n.toNat?, r.toNat? with
    | some n, some r => (st, s!"ok {n * r}")
    | _, _ => (st, "bad-op")
  | "big" :: _ => (st, "ok 1")
  | _ => (st, "bad-op")

end Driver.C10

def main : IO Unit := Driver.loop ({} : Driver.C10.St) Driver.C10.step
