import Driver.Common
import AslModel.WebSocket
/-! Model driver for C11 (WebSocket). -/
open Driver AslModel AslModel.WebSocket

namespace Driver.C11

/-- 64-bit FNV-1a, used by both sides to print long byte strings compactly -/
def fnv (bs : List UInt8) : UInt64 :=
  bs.foldl (fun h b => (h ^^^ b.toUInt64) * 1099511628211) 14695981039346656037

def showBytes (bs : List UInt8) : String :=
  if bs.length ≤ 2048 then hex bs else s!"#{(fnv bs).toNat}"

def le64 (bs : List UInt8) : UInt64 :=
  (bs.take 8).foldr (fun b acc => acc * 256 + b.toUInt64) 0

/-- 32 bytes = `_state[0..3]` in memory (little-endian host) -/
def rngOf (bs : List UInt8) : Rng :=
  ⟨le64 bs, le64 (bs.drop 8), le64 (bs.drop 16), le64 (bs.drop 24)⟩

def roleOf (s : String) : Option Bool :=
  if s == "c" then some true else if s == "s" then some false else none

def showRun (r : List (List UInt8) × Conn) : String :=
  let msgs := r.1.map fun m => s!"{m.length}:{showBytes m}"
  let body := if msgs.isEmpty then "-" else " ".intercalate msgs
  let flt := if r.2.fault then " FAULT" else ""
  s!"n={r.1.length} {body} closed={if r.2.closed then 1 else 0} code={r.2.code} out={r.2.out.length}:{showBytes r.2.out}{flt}"

def parseMsgs : List String → Option (List (Nat × List UInt8))
  | [] => some []
  | t :: h :: rest => do
    let ty ← t.toNat?
    let p ← unhex h
    let r ← parseMsgs rest
    pure ((ty, p) :: r)
  | [_] => none

def parseSteps : List String → Option (List (String × Nat × List UInt8))
  | [] => some []
  | d :: t :: h :: rest => do
    let ty ← t.toNat?
    let p ← unhex h
    let r ← parseSteps rest
    if (d == "u" || d == "d") && !p.isEmpty then pure ((d, ty, p) :: r) else none
  | _ => none

def showList (ms : List (List UInt8)) : String :=
  if ms.isEmpty then "-" else ",".intercalate (ms.map fun m => s!"{m.length}:{showBytes m}")

def step (_ : Unit) (ts : List String) : Unit × String :=
  let r : String := match ts with
    -- receive everything from a raw stream
    | ["rx", role, st, h] => match roleOf role, unhex st, unhex h with
      | some ic, some s, some d => showRun (run { isClient := ic, rng := rngOf s, inp := d })
      | _, _, _ => "bad-op"
    -- one send(): the bytes on the wire
    | ["tx", role, st, ty, h] => match roleOf role, unhex st, ty.toNat?, unhex h with
      | some ic, some s, some t, some d =>
        match sendFrame ic (rngOf s) t d with
        | some (bytes, _) => s!"{bytes.length}:{showBytes bytes}"
        | none => "FAULT"
      | _, _, _, _ => "bad-op"
    -- library sender (role, generator state) → library receiver (other role, its own state)
    | "pair" :: role :: st :: st2 :: ms => match roleOf role, unhex st, unhex st2, parseMsgs ms with
      | some ic, some s, some s2, some msgs =>
        match sendAll ic (rngOf s) msgs [] with
        | some wire => showRun (run { isClient := !ic, rng := rngOf s2, inp := wire })
        | none => "FAULT"
      | _, _, _, _ => "bad-op"
    -- server handshake for a well-formed upgrade request carrying this key
    | ["accept", proto, h] => match unhex h with
      | some k => hex (serverResponse k (proto == "1"))
      | none => "bad-op"
    -- scripted conversation over real handshakes: what the server and the client receive
    | "tcp" :: st :: _path :: steps => match unhex st, parseSteps steps with
      | some s, some script =>
        let up := script.filterMap fun (d, t, p) => if d == "u" then some (t, p) else none
        let down := script.filterMap fun (d, t, p) => if d == "d" then some (t, p) else none
        match sendAll true (rngOf s) up [], sendAll false (rngOf s) down [] with
        | some wu, some wd =>
          let rs := run { isClient := false, rng := rngOf s, inp := wu }
          let rc := run { isClient := true, rng := rngOf s, inp := wd }
          if rs.2.fault || rc.2.fault then "FAULT" else s!"connect=1 s={showList rs.1} c={showList rc.1}"
        | _, _ => "FAULT"
      | _, _ => "bad-op"
    -- a second thread polls closed() while receive() runs: every one-byte message arrives
    | ["watch", role, st, n, seed] => match roleOf role, unhex st, n.toNat?, seed.toNat? with
      | some ic, some s, some k, some sd =>
        if k < 1 || k > 1000000 then "bad-op" else
        let wire := (List.range k).flatMap fun i => [0x82, 0x01, UInt8.ofNat ((sd + i) % 251)]
        let r := run { isClient := ic, rng := rngOf s, inp := wire }
        let got := (r.1.filter (· ≠ [])).flatten
        s!"n={got.length}:{showBytes got} closed={if r.2.closed then 1 else 0}"
      | _, _, _, _ => "bad-op"
    -- server handshake on arbitrary request bytes
    | ["hs", h] => match unhex h with
      | some req => hex (serverHandshake req)
      | none => "bad-op"
    -- full duplex: data frames written by send() and pongs written by receive(), as the peer parses them
    -- a copy taken during a send() of another thread sends afterwards: both frames whole
    | ["copysend", role, st, size] => match roleOf role, unhex st, size.toNat? with
      | some ic, some s, some sz =>
        if sz < 1 || sz > 8388608 then "bad-op" else
        let one (p : List UInt8) : String := match sendFrame ic (rngOf s) 2 p with
          | some (bytes, _) => (match readFrame 0 (bytes ++ [0]) with
              | .ok _ _ buf _ => s!"{buf.length}:{showBytes buf}"
              | _ => "FAULT")
          | none => "FAULT"
        s!"data=2 {one ((List.range sz).map fun j => UInt8.ofNat (j % 251))},{one [104, 101, 108, 108, 111]}"
      | _, _, _ => "bad-op"
    | "duplex" :: role :: st :: nmsg :: size :: seed :: nping :: _copy =>
      match roleOf role, unhex st, nmsg.toNat?, size.toNat?, seed.toNat?, nping.toNat? with
      | some ic, some s, some n, some sz, some sd, some np =>
        if n < 1 || n > 64 || sz < 1 || sz > 2097152 || np > 5000 then "bad-op" else
        let payload (i : Nat) : List UInt8 := (List.range sz).map fun j => UInt8.ofNat ((sd + i * 31 + j) % 251)
        -- each message: the frame send() writes, read back by the frame reader (the mask key is not observable)
        let datas := (List.range n).map fun i =>
          match sendFrame ic (rngOf s) 2 (payload i) with
          | some (bytes, _) => (match readFrame 0 (bytes ++ [0]) with
              | .ok _ _ buf _ => s!"{buf.length}:{showBytes buf}"
              | _ => "FAULT")
          | none => "FAULT"
        -- the pongs: receive() on the stream of pings, its output parsed frame by frame
        let pings := (List.range np).flatMap fun i => [0x89, 0x04, 112, UInt8.ofNat (i % 256), UInt8.ofNat (i / 256 % 256), 103]
        let c := (run { isClient := ic, rng := rngOf s, inp := pings }).2
        let rec frames (fuel : Nat) (inp : List UInt8) (acc : List UInt8) (k : Nat) : List UInt8 × Nat :=
          match fuel with
          | 0 => (acc, k)
          | fuel + 1 => match readFrame 0 (inp ++ [0]) with
            | .ok _ _ buf rest => if rest.length ≤ 1 then (acc ++ buf, k + 1) else frames fuel (rest.dropLast) (acc ++ buf) (k + 1)
            | _ => (acc, k)
        let (pb, k) := if c.out.isEmpty then ([], 0) else frames (c.out.length + 1) c.out [] 0
        s!"data={n} {",".intercalate datas} pongs={k}:{showBytes pb}"
      | _, _, _, _, _, _ => "bad-op"
    -- fragments too long for a byte list: lengths only, by the two limits the model uses (`recvMaxLen`, `recvMaxMsg`)
    | ["bigsum", l, n] => match l.toNat?, n.toNat? with
      | some len, some nfrag =>
        if len = 0 || len > Gen.Ws.recvMaxLen || nfrag < 1 || nfrag > 8 then "bad-op"
        else
          -- fragments are accepted while the sum stays within recvMaxMsg; the first one that does not closes
          let k := (List.range nfrag).foldl (fun acc _ => if acc.2 then acc else
                      if (acc.1 + 1) * len > Gen.Ws.recvMaxMsg then (acc.1, true) else (acc.1 + 1, false)) (0, false)
          if k.2 then "lens=0 closed=1"                      -- refused: closed, nothing of the message is delivered
          else s!"lens={nfrag * len} closed=1"
      | _, _ => "bad-op"
    -- client handshake: connect() against a raw peer answering these bytes
    | ["chs", st, path, resp] => match unhex st, unhex path, unhex resp with
      | some s, some pa, some rs =>
        if pa.head? != some 47 then "bad-op" else
        let r := clientConnect (rngOf s) pa [49, 50, 55, 46, 48, 46, 48, 46, 49] [80, 79, 82, 84] rs
        s!"connect={if r.2 then 1 else 0} req={hex r.1}"
      | _, _, _ => "bad-op"
    | _ => "bad-op"
  ((), r)

end Driver.C11

def main : IO Unit := Driver.loop () Driver.C11.step
