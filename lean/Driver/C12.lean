import Driver.Common
import AslModel.Rc
import Gen.ShapesGen
/-! Model driver for C12: compiles a scenario's thread programs into atomic steps using the *recorded*
operation shapes (`Gen/ShapesGen.lean`), enumerates all interleavings in the same depth-first order as
the scheduler harness and prints the same summary line. -/
open Driver AslModel.Rc Gen.Shapes

namespace Driver.C12

def findKind (n : String) : Option Kind := kinds.find? (·.name == n)

/-- model object id of counter `cnt` of logical object `obj` -/
def oid (k : Kind) (obj cnt : Nat) : Nat := obj * k.counters + cnt

/-- shape events → model steps (releases are implicit in the model: they follow a decrement to 0) -/
def evSteps (k : Kind) (roleObj : Nat → Nat) (evs : List Ev) : List Step :=
  evs.filterMap fun e => match e with
    | Ev.inc r c => some (Step.inc (oid k (roleObj r) c))
    | Ev.dec r c => some (Step.dec (oid k (roleObj r) c))
    | _ => none

/-- compile one thread's program; `hs` = logical objects behind the thread's handles -/
def compileOps (k : Kind) : List String → List Nat → List Step
  | [], hs => hs.reverse.flatMap fun o => evSteps k (fun _ => o) k.dropNotLast
  | op :: rest, hs =>
    let n := hs.length
    if n == 0 then compileOps k rest hs else
    let cs := op.toList
    let dig (c : Char) : Nat := c.toNat - '0'.toNat
    match cs with
    | ['c', i] =>
      let o := hs.getD (dig i % n) 0
      evSteps k (fun _ => o) k.copy ++ compileOps k rest (hs ++ [o])
    | ['x'] =>
      let o := hs.getD (n - 1) 0
      evSteps k (fun _ => o) k.dropNotLast ++ compileOps k rest hs.dropLast
    | ['a', i, j] =>
      let i' := dig i % n
      let j' := dig j % n
      let od := hs.getD i' 0
      let os := hs.getD j' 0
      let shape := if i' == j' then k.assignSelf else if od == os then k.assignSameObj else k.assignDiff
      evSteps k (fun r => if r == 0 then od else os) shape ++ compileOps k rest (hs.set i' os)
    | _ => compileOps k rest hs

def compileCounter : List String → List Step
  | [] => []
  | op :: rest =>
    (match op.toList with
     | ['i'] => [Step.add 0 1]
     | ['d'] => [Step.add 0 (-1)]
     | 'p' :: ds => match (String.ofList ds).toInt? with
        | some d => [Step.lock 0, Step.load 0, Step.store 0 d, Step.unlock 0]
        | none => []
     | _ => []) ++ compileCounter rest

def splitOps (p : String) : List String := (p.splitOn ",").filter fun s => s != "" && s != "-"

/-- executable version of the invariant of `AslProofs.Rc.RcInv` (checked in every visited state) -/
def invB (c : Cfg) : Bool :=
  c.alive.length == c.rc.length && c.frees.length == c.rc.length &&
  (List.range c.rc.length).all fun o =>
    c.rc.getD o 0 == (heldCount c.thrs o : Int) &&
    (c.alive.getD o false == (decide (0 < c.rc.getD o 0) || decide (0 < pendCount c.thrs o))) &&
    decide (pendCount c.thrs o ≤ 1) &&
    (!(decide (0 < pendCount c.thrs o)) || c.rc.getD o 0 == 0) &&
    c.frees.getD o 0 == (if c.alive.getD o false then 0 else 1)

/-- steps the scheduler cannot see (no hook point): executed together with the preceding visible step -/
def invisible : Step → Bool
  | Step.load _ => true
  | Step.store _ _ => true
  | _ => false

partial def fuse (c : Cfg) (t : Nat) : Cfg :=
  match c.thrs[t]? with
  | some th => match th.pending, th.prog with
    | none, s :: _ => if invisible s && c.bad.isNone then fuse (step c t) t else c
    | _, _ => c
  | none => c

structure Acc where
  leaves : Nat := 0
  deadlocks : Nat := 0
  outcomes : List String := []
  modelOk : Bool := true

def commaList (l : List Nat) : String := ",".intercalate (l.map toString)

def outcomeStr (nctr : Nat) (c : Cfg) : String :=
  let a := (List.range nctr).map fun i => c.frees.getD i 0
  let b := (List.range nctr).map fun i => c.frees.getD (nctr + i) 0
  s!"A={commaList a} B={commaList b} c={c.ctr.getD 0 0} v={c.vars.getD 0 0}"

/-- first `lim + 1` leaves of the schedule tree in depth-first order, children by increasing thread id -/
partial def dfs (lim nctr : Nat) (c : Cfg) (a : Acc) : Acc :=
  if a.leaves > lim then a else
  let a := { a with modelOk := a.modelOk && invB c && c.bad.isNone }
  let en := (List.range c.thrs.length).filter (enabled c)
  if en.isEmpty || c.bad.isSome then
    if a.leaves < lim then
      { a with leaves := a.leaves + 1, deadlocks := a.deadlocks + (if done c then 0 else 1),
               outcomes := insertUniq (outcomeStr nctr c) a.outcomes }
    else { a with leaves := a.leaves + 1 }
  else en.foldl (fun a t => dfs lim nctr (fuse (step c t) t) a) a

def sortStrs (l : List String) : List String := (l.toArray.qsort (· < ·)).toList

def scen (kind : String) (lim : Nat) (progs : List String) : String :=
  let mk (c : Cfg) (nctr : Nat) (wf : Bool) : String :=
    let a := dfs lim nctr c {}
    let sched := min a.leaves lim
    let full := if a.leaves ≤ lim then 1 else 0
    let base := s!"sched={sched} full={full} dl={a.deadlocks} out={"|".intercalate (sortStrs a.outcomes)}"
    if a.modelOk && wf then base else base ++ " MODEL-VIOLATION(inv=" ++ toString a.modelOk ++ ",wf=" ++ toString wf ++ ")"
  if kind == "count" || kind == "atomic" then
    let thrs := progs.map fun p => ({ prog := compileCounter (splitOps p), held := [], pending := none, tmp := 0 } : Thr)
    let c : Cfg := { rc := [], alive := [], frees := [], ctr := [0], mtx := [false], vars := [0], thrs := thrs, bad := none }
    mk c 0 true
  else match findKind kind with
    | none => "bad-op"
    | some k =>
      let held0 := (List.range k.counters).map (oid k 0) ++ (List.range k.counters).map (oid k 1)
      let thrs := progs.map fun p => ({ prog := compileOps k (splitOps p) [0, 1], held := held0, pending := none, tmp := 0 } : Thr)
      let c := mkCfg (2 * k.counters) thrs [0] 1 [0]
      mk c k.counters (thrs.all wfThr)

def step (_ : Unit) (ts : List String) : Unit × String :=
  match ts with
  | ["scen", kind, lim, progs] => ((), scen kind (lim.toNat?.getD 0) (progs.splitOn "|"))
  | ["stress", _, _, _] => ((), "ok")   -- what the theorems say a free-running contention run must end with
  | _ => ((), "bad-op")

end Driver.C12

def main : IO Unit := Driver.loop () Driver.C12.step
