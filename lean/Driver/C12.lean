import Driver.Common
import AslModel.Rc
import Gen.ShapesGen
import AslModel.RcCompile
import AslModel.RcNest
import AslModel.RcOrders
/-! Model driver for C12: compiles a scenario's thread programs into atomic steps using the *recorded*
operation shapes (`Gen/ShapesGen.lean`), enumerates all interleavings in the same depth-first order as
the scheduler harness and prints the same summary line. -/
open Driver AslModel.Rc Gen.Shapes AslModel.RcCompile

namespace Driver.C12

def findKind (n : String) : Option Kind := kinds.find? (·.name == n)

def compileCounter : List String → List Step
  | [] => []
  | op :: rest =>
    (match op.toList with
     | ['i'] => [Step.add 0 1]
     | ['d'] => [Step.add 0 (-1)]
     | 'p' :: ds => match (String.ofList ds).toInt? with
        | some d => [Step.lock 0, Step.load 0, Step.store 0 d, Step.unlock 0]
        | none => []
     -- the other additive Atomic<T> operators: `x -= n`, `++x`, `x++`, `--x`, `x--`: one critical section each
     | 's' :: ds => match (String.ofList ds).toInt? with
        | some d => [Step.lock 0, Step.load 0, Step.store 0 (-d), Step.unlock 0]
        | none => []
     | ['I'] => [Step.lock 0, Step.load 0, Step.store 0 1, Step.unlock 0]
     | ['P'] => [Step.lock 0, Step.load 0, Step.store 0 1, Step.unlock 0]
     | ['D'] => [Step.lock 0, Step.load 0, Step.store 0 (-1), Step.unlock 0]
     | ['M'] => [Step.lock 0, Step.load 0, Step.store 0 (-1), Step.unlock 0]
     | _ => []) ++ compileCounter rest

def splitOps (p : String) : List String := (p.splitOn ",").filter fun s => s != "" && s != "-"

/-- executable version of the invariant of `AslProofs.Rc.RcInv` (checked in every visited state) -/
def invB (c : Cfg) : Bool :=
  c.alive.length == c.rc.length && c.frees.length == c.rc.length &&
  (List.range c.rc.length).all fun o =>
    c.rc.getD o 0 == (heldCount c.thrs o : Int) &&
    (c.alive.getD o false == (decide (0 < c.rc.getD o 0) || decide (0 < pendCount c.thrs o))) &&
    decide (pendCount c.thrs o ≤ 1) &&
    (!(decide (0 < pendCount c.thrs o)) || c.rc.getD o 0 == 0) &&
    c.frees.getD o 0 == (if c.alive.getD o false then 0 else 1)

/-- steps the scheduler cannot see (no hook point): executed together with the preceding visible step -/
def invisible : Step → Bool
  | Step.load _ => true
  | Step.store _ _ => true
  | Step.use _ => true
  | _ => false

partial def fuse (c : Cfg) (t : Nat) : Cfg :=
  match c.thrs[t]? with
  | some th => match th.pending, th.prog with
    | none, s :: _ => if invisible s && c.bad.isNone then fuse (step c t) t else c
    | _, _ => c
  | none => c

structure Acc where
  leaves : Nat := 0
  deadlocks : Nat := 0
  outcomes : List String := []
  modelOk : Bool := true

def commaList (l : List Nat) : String := ",".intercalate (l.map toString)

def outcomeStr (nctr : Nat) (c : Cfg) : String :=
  let a := (List.range nctr).map fun i => c.frees.getD i 0
  let b := (List.range nctr).map fun i => c.frees.getD (nctr + i) 0
  s!"A={commaList a} B={commaList b} c={c.ctr.getD 0 0} v={c.vars.getD 0 0}"

/-- first `lim + 1` leaves of the schedule tree in depth-first order, children by increasing thread id -/
partial def dfs (lim nctr : Nat) (c : Cfg) (a : Acc) : Acc :=
  if a.leaves > lim then a else
  let a := { a with modelOk := a.modelOk && invB c && c.bad.isNone }
  let en := (List.range c.thrs.length).filter (enabled c)
  if en.isEmpty || c.bad.isSome then
    if a.leaves < lim then
      { a with leaves := a.leaves + 1, deadlocks := a.deadlocks + (if done c then 0 else 1),
               outcomes := insertUniq (outcomeStr nctr c) a.outcomes }
    else { a with leaves := a.leaves + 1 }
  else en.foldl (fun a t => dfs lim nctr (fuse (step c t) t) a) a

def sortStrs (l : List String) : List String := (l.toArray.qsort (· < ·)).toList

def scen (kind : String) (lim : Nat) (progs : List String) : String :=
  let mk (c : Cfg) (nctr : Nat) (wf : Bool) : String :=
    -- thread-local steps without a hook point at the very start of a program happen before the first scheduling decision
    let c := (List.range c.thrs.length).foldl fuse c
    let a := dfs lim nctr c {}
    let sched := min a.leaves lim
    let full := if a.leaves ≤ lim then 1 else 0
    let base := s!"sched={sched} full={full} dl={a.deadlocks} out={"|".intercalate (sortStrs a.outcomes)}"
    if a.modelOk && wf then base else base ++ " MODEL-VIOLATION(inv=" ++ toString a.modelOk ++ ",wf=" ++ toString wf ++ ")"
  if kind == "count" || kind == "atomic" then
    let thrs := progs.map fun p => ({ prog := compileCounter (splitOps p), held := [], pending := none, tmp := 0 } : Thr)
    let c : Cfg := { rc := [], alive := [], frees := [], ctr := [0], mtx := [false], vars := [0], thrs := thrs, bad := none }
    mk c 0 true
  else match findKind kind with
    | none => "bad-op"
    | some k =>
      let c := scenCfg k (progs.map splitOps)
      mk c k.counters (c.thrs.all wfThr)

/-! ### handles stored inside shared objects: `nest <kind> <descr> <roots> <ops>` -/
open AslModel.RcNest in
def parseNats (s sep : String) : Option (List Nat) :=
  if s == "-" then some [] else (s.splitOn sep).mapM (·.toNat?)

open AslModel.RcNest in
def parsePath (s : String) : Option Path :=
  match s.splitOn "." with
  | r :: es =>
    if r.startsWith "r" then
      match (r.drop 1).toString.toNat?, es.mapM (·.toNat?) with
      | some i, some l => some ⟨i, l⟩
      | _, _ => none
    else none
  | [] => none

open AslModel.RcNest in
def parseOp (s : String) : Option Op :=
  if s == "x" then some Op.drop else
  match s.splitOn "=" with
  | [a, b] => match parsePath a, parsePath b with
    | some d, some s => some (Op.assign d s)
    | _, _ => none
  | _ => none

/-- the order of the assignment, as recorded from the current library for this handle type -/
def kindAcquiresFirst (k : Kind) : Bool :=
  let kinds (evs : List Ev) : List Bool := evs.filterMap fun e => match e with
    | Ev.inc _ _ => some true
    | Ev.dec _ _ => some false
    | Ev.free _ _ => some false
    | Ev.unknown => none
  AslModel.RcNest.incsFirst (kinds k.assignDiffLast) && AslModel.RcNest.incsFirst (kinds k.assignDiff)

/-- the statement order of the kind's copy assignment, as regenerated from the source -/
def kindOrder (name : String) : AslModel.RcNest.Order :=
  match (Gen.Shapes.assignOrders.find? (·.1 == name)).map (·.2) with
  | some Gen.Shapes.Ord.shared => AslModel.RcNest.Order.shared
  | some Gen.Shapes.Ord.smart => AslModel.RcNest.Order.smart
  | _ => AslModel.RcNest.Order.array

open AslModel.RcNest in
def nest (kind descr roots ops : String) : String :=
  match findKind kind, (descr.splitOn "/").mapM (parseNats · ","), parseNats roots ",",
        (if ops == "-" then some [] else (ops.splitOn ";").mapM parseOp) with
  | some k, some d, some r, some os =>
    if !wfDescr d r then "bad-op" else
    let h := if kindAcquiresFirst k then runOpsOrd (kindOrder kind) (build d r) os else runOps false (build d r) os
    let fr (h : Heap) : String := commaList ((List.range d.length).map fun b => if aliveAt h b then 0 else 1)
    let hEnd := (List.range h.roots.length).foldl (fun h _ => dropRoot h) h
    if h.bad || hEnd.bad then "MODEL-BAD: released storage is used"
    else if !AslModel.RcNest.invB h [] (d.length + 1) then "MODEL-VIOLATION(inv)"
    else s!"frees={fr h} end={fr hEnd}"
  | _, _, _, _ => "bad-op"

def step (_ : Unit) (ts : List String) : Unit × String :=
  match ts with
  | ["scen", kind, lim, progs] => ((), scen kind (lim.toNat?.getD 0) (progs.splitOn "|"))
  | ["nest", kind, descr, roots, ops] => ((), nest kind descr roots ops)
  | ["stress", _, _, _] => ((), "ok")   -- what the theorems say a free-running contention run must end with
  | _ => ((), "bad-op")

end Driver.C12

def main : IO Unit := Driver.loop () Driver.C12.step
