import Driver.Common
import AslModel.Thread
import AslModel.ThreadEnd
import AslModel.ThreadTimed
import AslModel.ThreadRounds
import Gen.ThreadGen
/-! Model driver for C13: parallel_for index groups, thread kinds, semaphore ops, and the *acceptor* that
replays a hook-point trace recorded from the real library on the `Handover` model. -/
open Driver AslModel.Thread

namespace Driver.C13

def showInts (l : List Int) : String := "[" ++ ",".intercalate (l.map toString) ++ "]"

def pfOne (i0 i1 : Int) (nth : Nat) : String :=
  let n := (ParFor.nWorkers i0 i1 nth).toNat
  let gs := ((List.range n).map (ParFor.worker i0 i1 nth)).filter (· ≠ [])
  if gs.isEmpty then "-" else String.join (gs.map showInts)

def pfRow (i0 : Int) (nth : Nat) (lo hi : Int) : String :=
  let n := (hi - lo + 1).toNat
  " ".intercalate ((List.range n).map fun (k : Nat) => let i1 : Int := lo + (k : Int); s!"{i1}:{pfOne i0 i1 nth}")

open Handover in
/-- run the hand-over model to completion with a fair round-robin schedule -/
def runToEnd (n : Nat) (cf : Bool) : Cfg :=
  let acts : List (Option Nat) := none :: (List.range n).map some
  let rec go (fuel : Nat) (c : Cfg) : Cfg :=
    match fuel with
    | 0 => c
    | fuel + 1 => go fuel (acts.foldl (fun c a => if enabled c a && c.bad.isNone then step c a else c) c)
  go (12 * n + 12) (init n cf)

def ones (l : List Nat) : String := ",".intercalate (l.map toString)

open AslModel.ThreadCopies in
/-- `finished()` as the harness reads it for the kinds that copy Thread objects: through a copy after the thread is over
    (`cpy`, `sst`: a copy; `cpd`: the original destroyed first; `cpj`: copies made after join) -/
def copiesFin (kind : String) : Nat :=
  let acts : List Act :=
    if kind == "cpd" then [Act.copy, Act.drop, Act.finish, Act.release]
    else if kind == "cpj" then [Act.finish, Act.release, Act.copy, Act.copy, Act.copy]
    else [Act.copy, Act.finish, Act.release]
  match readFinished (run init acts) with
  | some true => 1
  | _ => 0

open AslModel.Thread.Rounds in
/-- `thr grp3 n`: three start/join rounds of the same `n` threads on the `Rounds` model (canonical schedule); per thread 1 iff
    it had completed exactly `round` runs after every join, and its sticky finished flag -/
def grp3 (n : Nat) : String :=
  let oneRound (acc : Cfg × List Bool) : Cfg × List Bool :=
    let c := run acc.1 (roundSched n)
    (c, (List.range n).map fun i => (acc.2.getD i true) && c.runs i == c.rounds && !c.early)
  let r := (List.range 3).foldl (fun acc _ => oneRound acc) (init n Gen.Thread.joinUsesFlag, List.replicate n true)
  let c := r.1
  if c.rounds == 3 then s!"ran={ones (r.2.map fun b => if b then 1 else 0)} fin={ones ((List.range n).map fun i => if c.flag i then 1 else 0)}"
  else "model-stuck"

def thr (kind : String) (n : Nat) : String :=
  if kind == "grp3" then grp3 n else
  let threads := if kind == "inv" || kind == "invs" then n - 1 else n
  let c := runToEnd threads (kind == "sub" || kind == "grp" || kind == "grp3" || kind == "reap")
  let ran := (List.range threads).map c.ran
  let viaCopy := kind == "cpy" || kind == "cpd" || kind == "cpj" || kind == "sst"
  let fin := (List.range threads).map fun j => if viaCopy then copiesFin kind else if c.finished j then 1 else 0
  let (ran, fin) := if kind == "inv" || kind == "invs" then (1 :: ran, 1 :: fin) else (ran, fin)
  if c.cpos == Handover.CPos.done && c.bad.isNone then s!"ran={ones ran} fin={ones fin}" else "model-stuck"

open Sync in
def sem (ops : String) : String :=
  let r := ops.toList.foldl (fun (acc : Sem × Nat × Nat) ch =>
    let (s, ok, refused) := acc
    if ch == 'p' then (s.post, ok, refused)
    else if ch == 'w' then (if s.canWait then (s.wait, ok + 1, refused) else (s, ok, refused + 1))
    else acc) (({ count := 0, posts := 0, waits := 0 } : Sem), 0, 0)
  s!"ok={r.2.1} refused={r.2.2} value={r.1.count}"

/-! ### acceptor: replay a recorded trace on the Handover model -/
open Handover in
def creatorImplicit (c : Cfg) : Cfg :=
  -- the creator left a ready-spin without parking at the SPIN hook (ready was already set)
  match c.cpos with
  | CPos.spin _ => if enabled c none then step c none else c
  | _ => c

open Handover in
def applyEv (c : Cfg) (ev : String) : Except String Cfg :=
  let need (b : Bool) (msg : String) (k : Cfg) : Except String Cfg := if b then pure k else throw (msg ++ " at " ++ ev)
  match ev.toList with
  | ['c', 'S'] =>
    let c := creatorImplicit c
    match c.cpos with
    | CPos.spawn _ => pure (step c none)
    | _ => throw ("spawn not expected at " ++ ev)
  | ['c', 'P'] =>
    match c.cpos with
    | CPos.spin _ => need (enabled c none) "spin left before ready" (step c none)
    | _ => throw ("spin not expected at " ++ ev)
  | ['c', 'J'] =>
    let c := creatorImplicit c
    match c.cpos with
    | CPos.join _ => need (enabled c none) "join returned before the thread ended" (step (step c none) none)
    | _ => throw ("join not expected at " ++ ev)
  | 'w' :: rest =>
    let kind := rest.getLast?.getD ' '
    let k := (String.ofList rest.dropLast).toNat?.getD 1000
    let adv (c : Cfg) : Except String Cfg :=
      if enabled c (some k) then
        let c' := step c (some k)
        if c'.bad.isSome then throw ("model reports a memory error at " ++ ev) else pure c'
      else throw ("worker step not enabled at " ++ ev)
    if kind == 'B' then
      if c.ctxFree then need (c.wpc k == 2) "begin of a thread that was not started" c
      else need (c.wpc k == 1) "begin of a thread that was not created" c >>= adv
    else if kind == 'R' then
      need (c.wpc k == 2) "ready before the context was copied" c >>= adv >>= adv
    else if kind == 'E' then
      (if c.wpc k == 2 then adv c >>= adv else pure c) >>= fun c => need (c.wpc k == 4) "end before the body ran" c >>= adv
    else throw ("unknown event " ++ ev)
  | _ => throw ("unknown event " ++ ev)

open Handover in
def acceptTrace (evs : List String) : String :=
  let n := (evs.filter (· == "cS")).length
  let cf := !(evs.any fun e => e.endsWith "R")      -- subclassed threads: no context hand-over
  match evs.foldlM applyEv (init n cf) with
  | .error e => "reject: " ++ e
  | .ok c =>
    let c := creatorImplicit c
    if c.cpos == CPos.done && c.bad.isNone && (List.range n).all (fun j => c.ran j == 1 && c.finished j) then "accept"
    else "reject: trace ends before the model is done"


/-! ### acceptor for the condition-variable log of `condx` (timed waits, time-outs, spurious wake-ups) -/
namespace CondX
open AslModel.Thread.SyncT

def act (c : CondT) (a : Act) (what : String) : Except String CondT :=
  if enabled c a then pure (step c a) else throw s!"model step not enabled at {what}"

def need (b : Bool) (what : String) : Except String Unit := if b then pure () else throw what

def applyEv (c : CondT) (ev : String) : Except String CondT :=
  if ev == "sL" then do need (c.s == SPc.start) "sL: signaler not at start"; act c Act.signaler ev
  else if ev == "sP" then do need (c.s == SPc.locked) "sP: signaler does not hold the mutex"; act c Act.signaler ev
  else if ev == "sB" then do need (c.s == SPc.predSet) "sB: signal before the predicate was set"; act c Act.signaler ev
  else if ev == "sU" then do need (c.s == SPc.signalled) "sU: unlock before the signal"; act c Act.signaler ev
  else
    let kind := ev.toList.headD ' '
    let rest := (String.ofList (ev.toList.drop 1)).splitOn ":"
    match (rest.headD "").toNat? with
    | none => throw ("unknown event " ++ ev)
    | some i =>
      if kind == 'L' then do need (c.w i == TPc.start) (ev ++ ": waiter not at start"); act c (Act.waiter i) ev
      else if kind == 'S' then do
        need (c.w i == TPc.locked && !c.pred) (ev ++ ": waiter goes to sleep although the predicate is true, or without the mutex")
        act c (Act.waiter i) ev
      else if kind == 'P' then do
        need (c.w i == TPc.locked && c.pred) (ev ++ ": waiter passes although the predicate is false, or without the mutex")
        act c (Act.waiter i) ev
      else if kind == 'W' then do
        let tmo := rest.getD 1 "0" == "1"
        -- the wake-up is the signal's (already applied by sB), or the environment's: spurious, or a time-out
        let c ← (if c.w i == TPc.sleeping then act c (Act.wake i tmo) (ev ++ " (wake-up without a signal)")
                 else if tmo && c.w i == TPc.woken false then act c (Act.wake i true) (ev ++ " (time-out reported after the signal)")
                 else pure c)
        need (c.w i == TPc.woken tmo) (ev ++ ": wait returned but the model's waiter is not runnable")
        act c (Act.waiter i) ev
      else if kind == 'G' then do
        need (c.w i == TPc.leaving && c.timedOut i) (ev ++ ": waiter gives up without a time-out of its own timed wait"); pure c
      else if kind == 'X' then do need (c.w i == TPc.leaving) (ev ++ ": waiter unlocks outside the protocol"); act c (Act.waiter i) ev
      else throw ("unknown event " ++ ev)

def accept (kinds : String) (evs : List String) : String :=
  let ks := kinds.toList
  let n := ks.length
  let timed := fun i => let k := ks.getD i 'u'; k == 't' || k == 'l'
  let giveUp := fun i => ks.getD i 'u' == 't'
  match evs.foldlM applyEv (init n true timed giveUp) with
  | .error e => "reject: " ++ e
  | .ok c =>
    if c.s == SPc.done && (List.range n).all (fun i => c.w i == TPc.done) then
      "accept out=" ++ String.ofList ((List.range n).map fun i => if c.sawPred i then 'p' else if c.timedOut i then 't' else '?')
    else "reject: log ends before every thread of the model is done"
end CondX

def step (_ : Unit) (ts : List String) : Unit × String :=
  let r := match ts with
    | ["seed", _] => "ok"
    | ["pfrow", i0, nth, lo, hi] =>
      match i0.toInt?, nth.toNat?, lo.toInt?, hi.toInt? with
      | some a, some b, some c, some d => pfRow a b c d
      | _, _, _, _ => "bad-op"
    | ["pfx", a, b, nth] => match a.toInt?, b.toInt?, nth.toNat? with
      | some a, some b, some n => pfOne a b n
      | _, _, _ => "bad-op"
    | ["thr", kind, n, _] => thr kind (n.toNat?.getD 0)
    | ["sem", ops] => sem ops
    | ["semc", p, _, k] => s!"ok got={(p.toNat?.getD 0) * (k.toNat?.getD 0)} value=0"
    | ["cond", _, _] => "ok"
    | ["condt", _, _, _] => "ok"
    | ["condx", _, _, _] => "ok"
    | ["ctrace", kinds, evs] => CondX.accept kinds (evs.splitOn ",")
    | ["trace", "-"] => acceptTrace []
    | ["trace", evs] => acceptTrace (evs.splitOn ",")
    | _ => "bad-op"
  ((), r)

end Driver.C13

def main : IO Unit := Driver.loop () Driver.C13.step
