import Driver.Common
import AslModel.SockServer
import Gen.SockGen
/-! Model driver for C14: the summary every schedule must produce, and the acceptor that replays a
recorded hook-point trace of the real SocketServer on the model. -/
open Driver AslModel.SockServer

namespace Driver.C14

def tryAct (s : Cfg) (a : Act) (what : String) : Except String Cfg :=
  if enabled s a then
    let s' := step s a
    if s'.bad then throw ("the destroyed server is used at " ++ what) else pure s'
  else throw ("step not possible in the model at " ++ what)

/-- acceptor state: the model configuration, and whether the destructor has been entered and is waiting for the
    accept thread (`join`) -/
abbrev ASt := Cfg × Bool

def applyEv (st : ASt) (ev : String) : Except String ASt :=
  let s := st.1
  let keep (r : Except String Cfg) : Except String ASt := r.map fun c => (c, st.2)
  let num := (ev.drop 1).toString.toNat?
  match ev.toList.head?, num with
  | some 'a', some k =>
    keep ((if s.st k == 0 then tryAct s (Act.connect k) ev else pure s) >>= fun s => tryAct s (Act.accept k) ev)
  | some 'F', _ => keep (tryAct s Act.acceptFail ev)      -- accept() failed: possible only at the top of the loop
  | some 'n', _ => keep (tryAct s Act.count ev)
  | some 'b', some k => keep (tryAct s (Act.hBegin k) ev)
  | some 'e', some k => keep (tryAct s (Act.hEnd k) ev)
  | some 'c', some k => keep (tryAct s (Act.hClose k) ev)
  | some 'd', some k => keep (tryAct s (Act.hDec k) ev)
  | some 'S', _ =>
    -- the loop saw `_requestStop == true`: the controller's write has happened, even if its hook point
    -- (placed after the assignment) has not been recorded yet
    keep ((if s.reqStop then pure s else tryAct s Act.reqStop ev) >>= fun s => tryAct s (Act.check true) ev)
  | some 's', _ => keep (tryAct s (Act.check false) ev)
  | some 'R', _ => keep (if s.reqStop then pure s else tryAct s Act.reqStop ev)
  | some 'T', _ =>
    -- stop(true) returns: its last reads must have seen `_running == false` and `_numClients == 0`.  (They are replayed
    -- here, when the return is recorded; nothing that matters can happen between the real reads and this point, because
    -- `_running == false ∧ _numClients == 0` is stable: `after_stop_nothing_happens`.)
    keep (tryAct s Act.readRunning ev >>= fun s => tryAct s Act.readNum ev >>= fun s =>
      if s.cpc == CPc.returned then pure s
      else throw "stop(true) returned while the accept loop was running or a handler was in flight")
  | some 'E', _ =>
    -- the accept thread reaches the end of its thread function
    tryAct s Act.loopEnd ev >>= fun s => if st.2 then (tryAct s Act.destroy "D (after join)").map fun c => (c, false) else pure (s, false)
  | some 'D', _ =>
    -- the destructor is entered; it frees the server only after the accept thread has ended
    if s.threadDone then keep (tryAct s Act.destroy ev)
    else if s.cpc == CPc.returned then pure (s, true)
    else throw "the server is destroyed before stop(true) has returned"
  | _, _ => throw ("unknown event " ++ ev)

def acceptTrace (sequential : Bool) (evs : List String) : String :=
  let n := (evs.filter (·.startsWith "a")).length
  -- the two facts the model takes from the source (regenerated: Gen/SockGen.lean)
  match evs.foldlM applyEv (init n sequential Gen.Sock.joins Gen.Sock.skipsFailed, false) with
  | .error e => "reject: " ++ e
  | .ok (s, pend) =>
    if s.bad then "reject: server used after destruction"
    else if s.phantom != 0 then "reject: serve() was called for a failed accept()"
    else if pend then "reject: the destructor was entered but the accept thread never ended"
    else if s.cpc == CPc.destroyed && (List.range n).all (fun c => s.st c == 7 && s.serveBegins c == 1 && s.serveEnds c == 1)
    then "accept" else "reject: at the end an accepted connection was not served exactly once and closed"

def step (_ : Unit) (ts : List String) : Unit × String :=
  let r := match ts with
    | ["srv", _, _, _, _, _, _] => "served-exactly-once=1 replies=1 running=0 late=0 badsock=0"
    | ["trace", mode, "-"] => acceptTrace (mode == "seq") []
    | ["trace", mode, evs] => acceptTrace (mode == "seq") (evs.splitOn ",")
    | _ => "bad-op"
  ((), r)

end Driver.C14

def main : IO Unit := Driver.loop () Driver.C14.step
