import Driver.Common
import AslModel.Codec
import AslModel.Sha1
/-! Model driver for C15 (codec + SHA-1). -/
open Driver AslModel

namespace Driver.C15

def sortPairs (l : List (List UInt8 × List UInt8)) : List (List UInt8 × List UInt8) :=
  (l.toArray.qsort (fun a b => (hex a.1) < (hex b.1))).toList

/-- leftmost split on a single separator byte, as `String::split(sep)` for a 1-byte `sep` -/
def splitByte (sep : UInt8) (s : List UInt8) : List (List UInt8) :=
  let r := s.foldr (fun c (acc : List UInt8 × List (List UInt8)) =>
      if c == sep then ([], acc.1 :: acc.2) else (c :: acc.1, acc.2)) ([], [])
  r.1 :: r.2

def indexOfByte (c : UInt8) (s : List UInt8) : Option Nat :=
  let i := s.takeWhile (· != c) |>.length
  if i < s.length then some i else none

def dicSet (d : List (List UInt8 × List UInt8)) (k v : List UInt8) :=
  (d.filter (·.1 != k)) ++ [(k, v)]

/-- `Url::parseQuery(Url::params(d))` -/
def queryRt (d : List (List UInt8 × List UInt8)) : List (List UInt8 × List UInt8) :=
  let enc := d.foldl (fun acc kv => dicSet acc (Codec.urlEncode kv.1 true) (Codec.urlEncode kv.2 true)) []
  let enc := sortPairs enc
  let joined := List.intercalate [38] (enc.map fun kv => kv.1 ++ [61] ++ kv.2)
  let q := joined.map fun c => if c == 43 then 32 else c
  let ps := splitByte 38 q
  let dic := ps.foldl (fun acc p =>
    match indexOfByte 61 p with
    | some j => if j > 0 then dicSet acc (p.take j) (p.drop (j + 1)) else acc
    | none => acc) []
  let out := dic.foldl (fun acc kv => dicSet acc (Codec.urlDecode kv.1) (Codec.urlDecode kv.2)) []
  sortPairs out

def parsePair (s : String) : Option (List UInt8 × List UInt8) :=
  match s.splitOn ":" with
  | [a, b] => do pure ((← unhex a), (← unhex b))
  | _ => none

def lenHex (bs : List UInt8) : String := s!"{bs.length} {hex bs}"

def step (_ : Unit) (ts : List String) : Unit × String :=
  let r : String := match ts with
    | ["b64enc", h] => match unhex h with
      | some d => hex (Codec.encodeBase64 d) | none => "bad-op"
    | ["b64dec", h] => match unhex h with
      | some d => lenHex (Codec.decodeBase64 d) | none => "bad-op"
    | ["b64rt", h] => match unhex h with
      | some d => lenHex (Codec.decodeBase64 (Codec.encodeBase64 d)) | none => "bad-op"
    | ["hexenc", h] => match unhex h with
      | some d => hex (Codec.encodeHex d) | none => "bad-op"
    | ["hexdec", h] => match unhex h with
      | some d => lenHex (Codec.decodeHex d) | none => "bad-op"
    | ["hexrt", h] => match unhex h with
      | some d => lenHex (Codec.decodeHex (Codec.encodeHex d)) | none => "bad-op"
    | ["urlenc", c, h] => match unhex h with
      | some d => hex (Codec.urlEncode d (c == "1")) | none => "bad-op"
    | ["urldec", h] => match unhex h with
      | some d => lenHex (Codec.urlDecode d) | none => "bad-op"
    | ["urlrt", c, h] => match unhex h with
      | some d => lenHex (Codec.urlDecode (Codec.urlEncode d (c == "1"))) | none => "bad-op"
    | "queryrt" :: ps => match ps.mapM parsePair with
      | some d => " ".intercalate ((queryRt d).map fun kv => hex kv.1 ++ ":" ++ hex kv.2) |> fun s => if s.isEmpty then "{}" else s
      | none => "bad-op"
    | ["sha1", h] => match unhex h with
      | some d => hex (Sha1.Impl.hash d) | none => "bad-op"
    | "sha1s" :: h :: cuts => match unhex h with
      | some d =>
        let cs := cuts.filterMap String.toNat?
        let (chunks, rest, _) := cs.foldl (fun (acc : List (List UInt8) × List UInt8 × Nat) c =>
            let (out, rest, pos) := acc
            let k := c - pos
            (out ++ [rest.take k], rest.drop k, pos + k)) ([], d, 0)
        hex (Sha1.Impl.hashChunks (chunks ++ [rest]))
      | none => "bad-op"
    | _ => "bad-op"
  ((), r)

end Driver.C15

def main : IO Unit := Driver.loop () Driver.C15.step
