import Driver.Common
import AslModel.Codec
import AslModel.CodecExt
import AslModel.Sha1
import AslModel.Sha1Raw
/-! Model driver for C15 (codec + SHA-1). -/
open Driver AslModel

namespace Driver.C15

open AslModel.Query in
/-- `Url::parseQuery(Url::params(d))` for the dictionary built from the given assignments -/
def queryRt (l : List (List UInt8 × List UInt8)) : List (List UInt8 × List UInt8) :=
  parseQuery (params (ofPairs l))

def showDic (d : List (List UInt8 × List UInt8)) : String :=
  let s := " ".intercalate (d.map fun kv => hex kv.1 ++ ":" ++ hex kv.2)
  if s.isEmpty then "{}" else s

def fnv (h : UInt64) (b : UInt8) : UInt64 := (h ^^^ b.toUInt64) * 1099511628211

/-- every string of length `L` over `alpha` through the decoder model; FNV-1a digest of all results -/
def b64ex (alpha : Array UInt8) (L : Nat) : String := Id.run do
  let n := alpha.size
  let total := n ^ L
  let mut h : UInt64 := 1469598103934665603
  for k in [0:total] do
    let mut x := k
    let mut s : List UInt8 := []
    for _ in [0:L] do
      s := alpha[x % n]! :: s
      x := x / n
    let r := Codec.decodeBase64 s
    h := fnv h (UInt8.ofNat (r.length % 256))
    for b in r do
      h := fnv h b
  let bytes := (List.range 8).map fun i => UInt8.ofNat ((h >>> (UInt64.ofNat (8 * i))).toNat % 256)
  return s!"{total} {hex bytes}"

def parsePair (s : String) : Option (List UInt8 × List UInt8) :=
  match s.splitOn ":" with
  | [a, b] => do pure ((← unhex a), (← unhex b))
  | _ => none

def lenHex (bs : List UInt8) : String := s!"{bs.length} {hex bs}"

def step (_ : Unit) (ts : List String) : Unit × String :=
  let r : String := match ts with
    | ["b64enc", h] => match unhex h with
      | some d => hex (Codec.encodeBase64 d) | none => "bad-op"
    | ["b64dec", h] => match unhex h with
      | some d => lenHex (Codec.decodeBase64 d) | none => "bad-op"
    | ["b64decn", h, n] => match unhex h, n.toNat? with
      | some d, some k => if k ≤ d.length then lenHex (Codec.decodeBase64 (d.take k)) else "bad-op"
      | _, _ => "bad-op"
    | ["sha1g", _, _, _] => "ok"   -- pseudo-random content of the given length: as `sha1r`
    | ["sha1r", _, _, _] => "ok"   -- the digest given on the line is python hashlib's; `sha1_eq_standard` says the code must produce it
    | ["b64ex", a, l] => match unhex a, l.toNat? with
      | some al, some L => if al.isEmpty || L > 10 then "bad-op" else b64ex al.toArray L
      | _, _ => "bad-op"
    | ["b64rt", h] => match unhex h with
      | some d => lenHex (Codec.decodeBase64 (Codec.encodeBase64 d)) | none => "bad-op"
    | ["b64fold", n, h] => match n.toNat?, unhex h with
      | some n, some d => lenHex (Codec.decodeBase64 (Codec.foldLines n (Codec.encodeBase64 d))) | _, _ => "bad-op"
    | ["hexenc", h] => match unhex h with
      | some d => hex (Codec.encodeHex d) | none => "bad-op"
    | ["hexdec", h] => match unhex h with
      | some d => lenHex (Codec.decodeHex d) | none => "bad-op"
    | ["hexrt", h] => match unhex h with
      | some d => lenHex (Codec.decodeHex (Codec.encodeHex d)) | none => "bad-op"
    | ["urlenc", c, h] => match unhex h with
      | some d => hex (Codec.urlEncode d (c == "1")) | none => "bad-op"
    | ["urldec", h] => match unhex h with
      | some d => lenHex (Codec.urlDecode d) | none => "bad-op"
    | ["urlrt", c, h] => match unhex h with
      | some d => lenHex (Codec.urlDecode (Codec.urlEncode d (c == "1"))) | none => "bad-op"
    | "queryrt" :: ps => match ps.mapM parsePair with
      | some d => showDic (queryRt d)
      | none => "bad-op"
    | "params" :: ps => match ps.mapM parsePair with
      | some d => lenHex (AslModel.Query.params (AslModel.Query.ofPairs d))
      | none => "bad-op"
    | ["pquery", h] => match unhex h with
      | some s => showDic (AslModel.Query.parseQuery s) | none => "bad-op"
    | ["sha1", h] => match unhex h with
      | some d =>
        let a := Sha1.Impl.hash d
        -- (the object model walks offsets into the data list: quadratic, so only up to 100 000 bytes)
        if d.length > 100000 || a == Sha1.Raw.hash d then hex a else "models-differ " ++ hex a
      | none => "bad-op"
    | "sha1s" :: h :: cuts => match unhex h with
      | some d =>
        let cs := cuts.filterMap String.toNat?
        let (chunks, rest, _) := cs.foldl (fun (acc : List (List UInt8) × List UInt8 × Nat) c =>
            let (out, rest, pos) := acc
            let k := c - pos
            (out ++ [rest.take k], rest.drop k, pos + k)) ([], d, 0)
        -- the object model (full buffer, count words) is what is compared with the library; the context model must agree
        let a := Sha1.Raw.hashChunks (chunks ++ [rest])
        if a == Sha1.Impl.hashChunks (chunks ++ [rest]) then hex a else "models-differ " ++ hex a
      | none => "bad-op"
    | _ => "bad-op"
  ((), r)

end Driver.C15

def main : IO Unit := Driver.loop () Driver.C15.step
