import Driver.Common
import AslModel.Stream
/-! Model driver for C16 (endian-aware binary streams).

A case is one stream object: `new <sb|file|sock> <def|big|little|native>`, a write phase — each write prints the
bytes it appended — then `reader <e>` (or `readerf <e> <cut>…`: a Socket reader fed in pieces cut at those offsets) and a
read phase over everything written.
Write ops: `endian`, `w` (scalar), `wa` (Array<T>), `av`/`wv` (one Array object written repeatedly; prints the caller's
array too), `wb`/`ws`/`wz`/`wc`/`wca` (ByteArray, String, const char*, char*, char[N]), `wcarr` (T[N], StreamBuffer),
`was` (Array<String>), `wd`/`wdsb` (Stack/Queue/StreamBuffer objects, File/Socket), `wself`/`wselfpart` (a StreamBuffer's
own bytes).  Read ops: `rendian`, `r`, `ra`/`rd` (>> Array<T> / Stack / Queue, File/Socket), `rb`, `skip`, `rs`
(>> String), `rsame` (probe of a known finding), `state` (the socket's own view: error, available). -/
open Driver AslModel.Stream Gen.Stream

namespace Driver.C16

structure St where
  kind : Option Kind := none
  we : Endian := .little
  out : List UInt8 := []
  reading : Bool := false
  re : Endian := .little
  rest : List UInt8 := []
  /-- array variables `av`: slot, element type, elements (the same value is written by every `wv`) -/
  vars : List (Nat × Ty × List Nat) := []
  /-- after `readerf` on a Socket: the pending pieces (`rest` is kept equal to their concatenation) -/
  pieces : Option (List (List UInt8)) := none

def parseKind : String → Option Kind
  | "sb" => some .sb | "file" => some .file | "sock" => some .sock | _ => none

def parseEndian (dflt : Endian) : String → Option Endian
  | "def" => some dflt | "big" => some .big | "little" => some .little | "native" => some .native | _ => none

def parseTy : String → Option Ty
  | "i8" => some .i8 | "u8" => some .u8 | "ch" => some .ch | "b" => some .b
  | "i16" => some .i16 | "u16" => some .u16 | "i32" => some .i32 | "u32" => some .u32
  | "i64" => some .i64 | "u64" => some .u64 | "f32" => some .f32 | "f64" => some .f64
  | _ => none

/-- big-endian number from bytes -/
def beNat (bs : List UInt8) : Nat := bs.foldl (fun a b => a * 256 + b.toNat) 0

def hexNat (s : String) : Option Nat :=
  if s.length > 16 ∨ s.length % 2 = 1 then none else (unhex s).map beNat

/-- `2w` hex digits of `v` -/
def hexW (w v : Nat) : String := hex (leBytes w v).reverse

def chunks (w : Nat) (bs : List UInt8) : List Nat :=
  if w = 0 then [] else
  (List.range (bs.length / w)).map fun i => beNat ((bs.drop (i * w)).take w)

/-- one read operation: a Socket reader fed in pieces (`readerf`) runs it through the receive loop over the pending pieces
    (`readOpFrag`; theorems `C16.socket_read_frag_eq_flat`, `C16.socket_read_fragment_independent`), every other reader
    on the remaining bytes -/
def doRead (st : St) (k : Kind) (op : ROp) : St × RVal :=
  match st.pieces with
  | some ps =>
    let r := readOpFrag st.re ps op
    ({ st with re := r.1, pieces := some r.2.1, rest := r.2.1.flatten }, r.2.2)
  | none =>
    let r := readOp k st.re st.rest op
    ({ st with re := r.1, rest := r.2.1 }, r.2.2)

def doWrite (st : St) (k : Kind) (op : WOp) : St × String :=
  let r := writeOp k st.we op
  ({ st with we := r.1, out := st.out ++ r.2 }, hex r.2)

/-- bytes handed to `write` by the memory-level writers (`putScalarMem` / `putArrayMem`; theorems `C16.scalar_write_mem`,
    `C16.array_write_mem`: the same bytes as `writeOp`) -/
def doBytes (st : St) (bs : List UInt8) : St × String :=
  ({ st with out := st.out ++ bs }, hex bs)

/-- the elements held by an array's storage, as the harness dumps them (each value most significant byte first) -/
def dumpMem (t : Ty) (n : Nat) (mem : List UInt8) : String :=
  hex ((memVals (sizeofT t) n mem).flatMap fun v => (leBytes (sizeofT t) v).reverse)

def step (st : St) (ts : List String) : St × String :=
  match ts with
  | ["new", ks, es] =>
    match parseKind ks with
    | none => (st, "bad-op")
    | some k =>
      match parseEndian (defaultW k) es with
      | none => (st, "bad-op")
      | some e => ({ kind := some k, we := e }, "ok")
  | _ =>
  match st.kind with
  | none => (st, "no-stream")
  | some k =>
  match ts with
  | ["reader", es] =>
    if st.reading then (st, "closed") else
    match parseEndian (defaultR k) es with
    | none => (st, "bad-op")
    | some e => ({ st with reading := true, re := e, rest := st.out }, s!"ok {st.out.length}")
  | "readerf" :: es :: cuts =>
    -- the reader's peer delivers the bytes in pieces cut at the given offsets (a Socket reader; nothing to cut for the
    -- other classes): the reads then go through the receive loop over those pieces (`doRead`)
    if cuts.any (fun c => c.isEmpty ∨ c.length > 9 ∨ !c.all Char.isDigit) then (st, "bad-op") else
    if st.reading then (st, "closed") else
    match parseEndian (defaultR k) es with
    | none => (st, "bad-op")
    | some e =>
      let ps := if k == .sock then some (cutPieces (cuts.map String.toNat!) st.out) else none
      ({ st with reading := true, re := e, rest := st.out, pieces := ps }, s!"ok {st.out.length}")
  | ["endian", es] =>
    if st.reading then (st, "closed") else
    match parseEndian st.we es with
    | some e => let r := doWrite st k (.setEndian e); (r.1, "ok")
    | none => (st, "bad-op")
  | ["w", tys, h] =>
    if st.reading then (st, "closed") else
    match parseTy tys, hexNat h with
    | some t, some v =>
      -- the write runs on the caller's object; the harness reports an argument that is not what it was
      let m := putScalarMem k st.we t (norm t v)
      if m.2 != objRep (sizeofT t) (norm t v) then
        (st, "err scalar-argument-modified-by-the-write " ++ hexW (sizeofT t) (objVal m.2))
      else doBytes st m.1
    | _, _ => (st, "bad-op")
  | ["wa", tys, h] =>
    if st.reading then (st, "closed") else
    match parseTy tys, unhex h with
    | some t, some bs =>
      if bs.length % sizeofT t != 0 then (st, "bad-op") else
      let vs := (chunks (sizeofT t) bs).map (norm t)
      let m := putArrayMem k st.we t vs
      if m.2 != arrayMem t vs then
        (st, "err array-argument-modified-by-the-write " ++ dumpMem t vs.length m.2)
      else doBytes st m.1
    | _, _ => (st, "bad-op")
  | ["av", ks, tys, h] =>
    match ks.toNat?, parseTy tys, unhex h with
    | some slot, some t, some bs =>
      if ks.length > 9 ∨ bs.length % sizeofT t != 0 then (st, "bad-op") else
      let slot := slot % 4
      ({ st with vars := (slot, t, chunks (sizeofT t) bs) :: st.vars.filter (·.1 != slot) }, "ok")
    | _, _, _ => (st, "bad-op")
  | ["wv", ks] =>
    if st.reading then (st, "closed") else
    match ks.toNat? with
    | none => (st, "bad-op")
    | some slot =>
      if ks.length > 9 then (st, "bad-op") else
      match st.vars.find? (·.1 == slot % 4) with
      | none => (st, "no-var")
      | some (_, t, vs) =>
        -- the write runs on the variable's storage; the variable holds afterwards what that storage holds
        -- (`C16.array_argument_unchanged`: the values it held before)
        let vs := vs.map (norm t)
        let m := putArrayMem k st.we t vs
        let after := memVals (sizeofT t) vs.length m.2
        let r := doBytes st m.1
        ({ r.1 with vars := (slot % 4, t, after) :: st.vars.filter (·.1 != slot % 4) }, r.2 ++ " " ++ dumpMem t vs.length m.2)
  | "was" :: hs =>
    if st.reading then (st, "closed") else
    match hs.mapM unhex with
    | none => (st, "bad-op")
    | some ss =>
      match putStrArray k st.we ss with
      | none => (st, "object-memory")
      | some _ => doWrite st k (.strArray ss)
  | ["wself"] =>
    if st.reading then (st, "closed") else
    if k != .sb then (st, "na") else
    -- `b << *b`: the ByteArray written is the buffer's own content
    doWrite st k (.bytes st.out)
  | ["wselfpart", ks, ns] =>
    if st.reading then (st, "closed") else
    if k != .sb then (st, "na") else
    match ks.toNat?, ns.toNat? with
    | some a, some n =>
      if ks.length > 9 ∨ ns.length > 9 then (st, "bad-op") else
      let a := a % (st.out.length + 1)
      let n := n % (st.out.length - a + 1)
      -- `b.write(b.data() + a, n)`
      doWrite st k (.bytes ((st.out.drop a).take n))
    | _, _ => (st, "bad-op")
  | ["wb", h] =>
    if st.reading then (st, "closed") else
    match unhex h with
    | some bs => doWrite st k (.bytes bs)
    | none => (st, "bad-op")
  | ["ws", h] =>
    if st.reading then (st, "closed") else
    match unhex h with
    | some bs => doWrite st k (.bytes bs)
    | none => (st, "bad-op")
  | ["wd", cls, tys, h] =>   -- File/Socket << Stack<T> / Queue<T>: an object derived from Array<T> is its items
    if st.reading then (st, "closed") else
    match parseTy tys, unhex h with
    | some t, some bs =>
      if (cls != "stack" ∧ cls != "queue") ∨ bs.length % sizeofT t != 0 then (st, "bad-op")
      else if k == .sb then (st, "na")
      else doWrite st k (.array t (chunks (sizeofT t) bs))
    | _, _ => (st, "bad-op")
  | ["wdsb", h] =>           -- File/Socket << StreamBuffer (derived from Array<byte>): its bytes
    if st.reading then (st, "closed") else
    match unhex h with
    | some bs => if k == .sb then (st, "na") else doWrite st k (.bytes bs)
    | none => (st, "bad-op")
  | ["wc", h] =>          -- char*
    if st.reading then (st, "closed") else
    match unhex h with
    | some bs => doWrite st k (.cstr bs)
    | none => (st, "bad-op")
  | ["wca", h] =>         -- char[N], N = length + 1: a C string for all three classes (since 7c56539)
    if st.reading then (st, "closed") else
    match unhex h with
    | some bs => if bs.length > 15 then (st, "bad-op") else doWrite st k (.cstr bs)
    | none => (st, "bad-op")
  | ["wcarr", tys, h] =>  -- T[N], 1 <= N <= 8 (StreamBuffer only)
    if st.reading then (st, "closed") else
    match parseTy tys, unhex h with
    | some t, some bs =>
      -- a `char[N]` is a C string for `operator<<` (ops `wc`/`wca`), not an array of items
      if t == .ch ∨ bs.length % sizeofT t != 0 ∨ bs.length = 0 ∨ bs.length / sizeofT t > 8 then (st, "bad-op")
      else if k != .sb then (st, "na")
      else doWrite st k (.carray t (chunks (sizeofT t) bs))
    | _, _ => (st, "bad-op")
  | ["wz", h] =>
    if st.reading then (st, "closed") else
    match unhex h with
    | some bs => doWrite st k (.cstr bs)
    | none => (st, "bad-op")
  | ["rendian", es] =>
    if !st.reading then (st, "not-reading") else
    match parseEndian st.re es with
    | some e => let r := readOp k st.re st.rest (.setEndian e); ({ st with re := r.1 }, "ok")
    | none => (st, "bad-op")
  | ["r", tys] =>
    if !st.reading then (st, "not-reading") else
    match parseTy tys with
    | none => (st, "bad-op")
    | some t =>
      if st.rest.length < need k t then (st, "eof")
      -- File/Socket `>> bool` of a byte other than 0/1 has no defined meaning in C++: not exercised
      else if k != .sb ∧ t == .b ∧ st.rest.getD 0 0 > 1 then (st, "na-bool")
      else
        match doRead st k (.scalar t) with
        | (st', .val _ v) => (st', hexW (sizeofT t) v)
        | _ => (st, "bad-op")
  | ["rd", cls, tys, ns] =>  -- File/Socket >> Stack<T> / Queue<T> of length n
    if !st.reading then (st, "not-reading") else
    match parseTy tys, ns.toNat? with
    | some t, some n =>
      if (cls != "stack" ∧ cls != "queue") ∨ ns.length > 3 then (st, "bad-op")
      else if k == .sb then (st, "na")
      else if st.rest.length < n * sizeofT t then (st, "eof")
      else if t == .b ∧ (st.rest.take n).any (· > 1) then (st, "na-bool")
      else
        match doRead st k (.array t n) with
        | (st', .vals _ vs) => (st', hex (vs.flatMap fun v => (leBytes (sizeofT t) v).reverse))
        | _ => (st, "bad-op")
    | _, _ => (st, "bad-op")
  | ["ra", tys, ns] =>
    if !st.reading then (st, "not-reading") else
    match parseTy tys, ns.toNat? with
    | some t, some n =>
      if ns.length > 3 then (st, "bad-op")
      else if k == .sb then (st, "na")
      else if st.rest.length < n * sizeofT t then (st, "eof")
      else if t == .b ∧ (st.rest.take n).any (· > 1) then (st, "na-bool")
      else
        match doRead st k (.array t n) with
        | (st', .vals _ vs) => (st', hex (vs.flatMap fun v => (leBytes (sizeofT t) v).reverse))
        | _ => (st, "bad-op")
    | _, _ => (st, "bad-op")
  | ["rb", ns] =>
    if !st.reading then (st, "not-reading") else
    match ns.toNat? with
    | none => (st, "bad-op")
    | some n =>
      let n := n % (st.rest.length + 1)
      match doRead st k (.bytes n) with
      | (st', .bytes bs) => (st', hex bs)
      | _ => (st, "bad-op")
  | ["skip", ns] =>
    if !st.reading then (st, "not-reading") else
    match ns.toNat? with
    | none => (st, "bad-op")
    | some n =>
      let n := n % (st.rest.length + 1)
      ((doRead st k (.skip n)).1, "ok")
  | ["state"] =>
    -- a stream that was only asked for bytes that are there reports no error; a reader socket has exactly the unread bytes pending
    if k != .sock then (st, "na")
    else if !st.reading then (st, "ok error=0")
    else (st, s!"ok error=0 available={st.rest.length}")
  | ["rsame", h] =>
    -- probe of known finding `string-read-not-inverse`: what "read the same type back" would have to return
    if !st.reading then (st, "not-reading") else
    match unhex h with
    | none => (st, "bad-op")
    | some bs => if k == .sb ∨ st.rest.length < 4 then (st, "na") else (st, s!"{bs.length} {hex bs}")
  | ["rs"] =>
    if !st.reading then (st, "not-reading") else
    match st.pieces with
    | some ps =>      -- a Socket fed in pieces: prefix and body through the receive loop (`C16.socket_string_read_fragment_independent`)
      match getStringFrag st.re ps with
      | none => (st, "na")
      | some (s, ps') => ({ st with rest := ps'.flatten, pieces := some ps' }, s!"{s.length} {hex s}")
    | none =>
    match getString k st.re st.rest with
    | none => (st, "na")
    | some (s, rest) => ({ st with rest := rest }, s!"{s.length} {hex s}")
  | _ => (st, "bad-op")

end Driver.C16

def main : IO Unit := Driver.loop ({} : Driver.C16.St) Driver.C16.step
