import Driver.Common
import AslModel.FileText
/-! Model driver for C17 (File / TextFile / Directory::copy,move).  Same op lines as harness/c17.cpp. -/
open Driver AslModel AslModel.FileText Gen.File

namespace Driver.C17

/-! ### canonical output helpers (protocol plumbing, not part of the model) -/

def crcTable : Array UInt32 := Id.run do
  let mut t : Array UInt32 := Array.mkEmpty 256
  for i in [0:256] do
    let mut c : UInt32 := i.toUInt32
    for _ in [0:8] do
      c := if c &&& 1 == 1 then (c >>> 1) ^^^ 0xEDB88320 else c >>> 1
    t := t.push c
  return t

def crcStep (c : UInt32) (b : UInt8) : UInt32 :=
  crcTable[((c ^^^ b.toUInt32) &&& 0xff).toNat]! ^^^ (c >>> 8)

def crc32 (bs : List UInt8) : UInt32 := (bs.foldl crcStep 0xffffffff) ^^^ 0xffffffff

def hex8 (v : UInt32) : String :=
  String.ofList ((List.range 8).map fun i => hexDigit ((v.toNat >>> (4 * (7 - i))) % 16))

/-- `<len> <hex>` up to 4096 bytes, `<len> crc:<crc32>` beyond -/
def showBytes (bs : List UInt8) : String :=
  let n := bs.length
  if n ≤ 4096 then s!"{n} {hex bs}" else s!"{n} crc:{hex8 (crc32 bs)}"

def showLines (ls : List (List UInt8)) : String :=
  let total := ls.foldl (fun a l => a + l.length + 1) 0
  if total ≤ 4096 then s!"n={ls.length} " ++ ",".intercalate (ls.map hex)
  else
    let c := ls.foldl (fun c l => (le32 l.length ++ l).foldl crcStep c) 0xffffffff
    s!"n={ls.length} crc:{hex8 (c ^^^ 0xffffffff)}"

/-! ### byte-string tokens: hex, `-`, `g<n>.<seed>` (pseudo-random bytes), `t<n>.<seed>` (the same, NUL-free) -/

def lcgBase (seed : Nat) (nulFree : Bool) : Array UInt8 := Id.run do
  let mut x : UInt64 := seed.toUInt64 * 2862933555777941757 + 3037000493
  let mut a : Array UInt8 := Array.mkEmpty 65521
  for _ in [0:65521] do
    x := x * 6364136223846793005 + 1442695040888963407
    let v := (x >>> 56).toNat
    a := a.push (UInt8.ofNat (if nulFree then v % 255 + 1 else v))
  return a

def genBytes (n seed : Nat) (nulFree : Bool) : List UInt8 :=
  let base := lcgBase seed nulFree
  (List.range n).map fun i => base[i % 65521]!

def parseBytes (tok : String) : Option (List UInt8) :=
  match tok.toList with
  | 'g' :: rest =>
    match (String.ofList rest).splitOn "." with
    | [a, b] => do pure (genBytes (← a.toNat?) (← b.toNat?) false)
    | _ => none
  | 't' :: rest =>
    match (String.ofList rest).splitOn "." with
    | [a, b] => do pure (genBytes (← a.toNat?) (← b.toNat?) true)
    | _ => none
  | _ => unhex tok

def parsePath : String → Option Nat
  | "1a" => some 0 | "1b" => some 1 | "2a" => some 2 | "2b" => some 3 | _ => none

def parseMode : String → Option OpenMode
  | "r" => some .read | "w" => some .write | "a" => some .append | "rw" => some .rw | _ => none

/-! ### state -/

/-- a persistent object of the h-operations with the flags of the protocol (see harness/c17.cpp) -/
structure HSt where
  obj : Obj
  dirty : Bool := false
  poisoned : Bool := false
  spent : Bool := false
  ver : Nat := 0

structure St where
  disk : Disk
  xdev : Bool
  sess : Option Handle
  hs : List (Option HSt) := [none, none, none, none]
  pver : Nat → Nat := fun _ => 0

def init : St := { disk := fun _ => none, xdev := false, sess := none }

def b01 (b : Bool) : String := if b then "1" else "0"

def hasNul (bs : List UInt8) : Bool := bs.contains 0

/-- two paths are on different devices -/
def cross (st : St) (p q : Nat) : Bool := st.xdev && (p / 2 != q / 2)

/-- a write through the open session -/
def sessWrite (st : St) (bs : List UInt8) (show_ : Nat → Handle → String) : St × String :=
  match st.sess with
  | none => (st, "err nosession")
  | some h =>
    if h.mode == .read then (st, "err mode") else
    let r := fwrite st.disk h bs
    ({ st with disk := r.2.1, sess := some r.2.2 }, show_ r.1 h)

def readSess (st : St) (f : Handle → St × String) : St × String :=
  match st.sess with
  | none => (st, "err nosession")
  | some h => if h.mode != .read then (st, "err mode") else f h

def linesStr (d : Disk) (p : Nat) : String := showLines (linesOf d p)

def textStr (d : Disk) (p : Nat) : String :=
  match textOf d p with
  | some t => showBytes t
  | none => "crash read-outside"

def rawStr (d : Disk) (p : Nat) : String :=
  match d p with
  | none => "absent"
  | some c => showBytes c

/-- all lines through `readLine()` while `!end()` on an explicitly opened TextFile: the loop of `lines()` run by the caller -/
def rlAll (h : Handle) : List (List UInt8) := linesLoop (readLineChunk - 2) h.rs []

/-- one of the nine writers of `xput` / `xseq` on path 1a -/
def applyApi (d0 : Disk) (api : String) (bs : List UInt8) : Option Disk :=
  let viaSession (isText : Bool) (mode : OpenMode) : Option Disk :=
    let r := openH d0 0 isText mode
    r.1.map fun h => (writeAll r.2 h [bs]).1
  match api with
  | "put" => some (put d0 0 bs).2
  | "tput" => some (tput d0 0 .write bs).2
  | "tapp" => some (tput d0 0 .append bs).2
  | "fw" => viaSession false .write
  | "fa" => viaSession false .append
  | "fsb" => viaSession false .write
  | "fss" => viaSession false .write
  | "tw" => viaSession true .write
  | "ts" => viaSession true .write
  | _ => none

/-- `size()`, `content()`, and whether the POSIX view equals `content()` -/
def threeViews (d : Disk) : String :=
  s!"{size d 0} {showBytes (content d 0)} raw={b01 ((d 0) == some (content d 0))}"

/-! ### h-operations: persistent objects -/

/-- −1 closed, 0 r, 1 w, 2 a, 3 rw -/
def HSt.mode (h : HSt) : Int :=
  match h.obj.file with
  | none => -1
  | some f => match f.mode with | .read => 0 | .write => 1 | .append => 2 | .rw => 3

def hGet (st : St) (i : Nat) : Option HSt := (st.hs.getD i none)
def hSet (st : St) (i : Nat) (h : Option HSt) : St := { st with hs := st.hs.set i h }

def pathDirty (st : St) (p : Nat) : Bool :=
  st.hs.any fun o => match o with | some h => h.obj.path == p && h.dirty | none => false

def otherWriter (st : St) (self p : Nat) : Bool :=
  (st.hs.zipIdx).any fun (o, i) => match o with
    | some h => i != self && h.obj.path == p && h.mode ≥ 1
    | none => false

def bumpVer (st : St) (p : Nat) : St := { st with pver := fun q => if q = p then st.pver p + 1 else st.pver q }

def closeH (h : HSt) : HSt := { obj := h.obj.close, ver := h.ver }

def closeAllHandles (st : St) : St := { st with hs := st.hs.map fun o => o.map closeH }

def dirtyOther (st : St) (self p : Nat) : Bool :=
  (st.hs.zipIdx).any fun (o, i) => match o with
    | some h => i != self && h.obj.path == p && h.dirty
    | none => false

def hstep (st : St) (ts : List String) : St × String :=
  match ts with
  | op :: hn :: args =>
    match hn.toNat? with
    | none => (st, "bad-op")
    | some hi =>
    if hn.length != 1 || hi > 3 then (st, "bad-op") else
    if op == "hnew" then
      match args with
      | [p, k] => match parsePath p with
        | some p => if k != "f" && k != "t" then (st, "bad-op") else
          (hSet st hi (some { obj := Obj.new p (k == "t") }), "ok")
        | none => (st, "bad-op")
      | _ => (st, "bad-op")
    else
    match hGet st hi with
    | none => (st, "err nohandle")
    | some h =>
    let p := h.obj.path
    let upd (st : St) (h : HSt) : St := hSet st hi (some h)
    match op, args with
    | "hopen", [m] => match parseMode m with
      | none => (st, "bad-op")
      | some m =>
        if m != .read && otherWriter st hi p then (st, "err busy") else
        let wasOpen := h.mode ≥ 0
        let r := h.obj.open st.disk m
        let h := { h with obj := r.2.2, dirty := false, spent := false, poisoned := if wasOpen then false else h.poisoned }
        let st := { st with disk := r.2.1 }
        if !r.1 then (upd st h, "err open") else
        let st := if m == .write || m == .append then bumpVer st p else st
        (upd st { h with ver := st.pver p }, "ok")
    | "hclose", [] => (upd st (closeH h), "ok")
    | "hflush", [] => if h.mode < 0 then (st, "err closed") else (upd st { h with dirty := false }, "ok")
    | wop, [b] =>
      if wop == "hw" || wop == "happ" || wop == "hput" || wop == "hsh" then
        match parseBytes b with
        | none => (st, "bad-op")
        | some bs =>
          let isFile := !h.obj.isText
          if wop == "happ" && isFile then (st, "err kind") else
          if h.mode < 0 && isFile && (wop == "hw" || wop == "hsh") then (st, "err closed") else
          if h.mode == 0 then (st, "err mode") else
          if h.mode < 0 && otherWriter st hi p then (st, "err busy") else
          let (out, d', o') : String × Disk × Obj :=
            if isFile then
              if wop == "hput" then let r := h.obj.put st.disk bs; (b01 r.1, r.2.1, r.2.2)
              else let r := h.obj.write st.disk bs; (if wop == "hw" then toString r.1 else "ok", r.2.1, r.2.2)
            else
              let r := h.obj.twrite st.disk (if wop == "happ" then .append else .write) bs
              (if wop == "hsh" then "ok" else b01 r.1, r.2.1, r.2.2)
          let h' := { h with obj := o' }
          let st := { st with disk := d' }
          if h'.mode ≥ 1 then
            let st := bumpVer st p
            (upd st { h' with dirty := true, ver := st.pver p }, out)
          else (upd st h', out)
      else if wop == "hfirst" then
        match b.toNat? with
        | none => (st, "bad-op")
        | some k =>
          if dirtyOther st hi p then (st, "err dirty") else
          let r := h.obj.firstBytes st.disk k
          let h' := { h with obj := r.2 }
          let h' := if h.mode ≥ 0 then { h' with dirty := false } else { h' with poisoned := false }
          (upd st h', showBytes r.1)
      else if wop == "hr" then
        match b.toNat? with
        | none => (st, "bad-op")
        | some k =>
          if h.mode ≥ 1 then (st, "err mode") else
          if h.mode < 0 then (st, "err closed") else
          if pathDirty st p then (st, "err dirty") else
          if h.ver != st.pver p then (st, "err stale") else
          let r := h.obj.read k
          (upd st { h with obj := r.2 }, showBytes r.1)
      else if wop == "hcopy" || wop == "hmove" then
        let full := b == "full"
        match (if full then some 99 else parsePath b) with
        | none => (st, "bad-op")
        | some q =>
          let busy := (st.hs.zipIdx).any fun (o, i) => match o with
            | some x => x.mode ≥ 0 && ((i != hi && x.obj.path == p) || (!full && x.obj.path == q && i != hi))
            | none => false
          if busy then (st, "err busy") else
          if wop == "hcopy" then
            let r := if full then copyToFull st.disk p else h.obj.copy st.disk q
            let st := { st with disk := r.2 }
            let st := if full then st else bumpVer st q
            (upd st (if h.mode ≥ 0 then { h with dirty := false } else h), b01 r.1)
          else
            let o' := if h.obj.file.isSome then h.obj.close else h.obj
            let r := if full then moveToFull st.disk p else (h.obj.move st.disk q (cross st p q)).1
            let st := bumpVer { st with disk := r.2 } p
            let st := if full then st else bumpVer st q
            (upd st { obj := o', ver := h.ver, poisoned := if h.mode ≥ 0 then false else h.poisoned }, b01 r.1)
      else (st, "bad-op")
    | qop, [] =>
      if qop == "hsize" || qop == "hexists" || qop == "hisfile" || qop == "hisdir" || qop == "hmtime" then
        let other := dirtyOther st hi p
        let h := if h.mode < 0 && other then { h with poisoned := true } else h
        if qop == "hsize" then
          let r := h.obj.size st.disk
          let h' := { h with obj := r.2 }
          let h' := if h.mode ≥ 0 then { h' with dirty := false } else h'
          (upd st h', if other || (h.mode < 0 && h.poisoned) then "?" else toString r.1)
        else if qop == "hexists" then
          let r := h.obj.exists st.disk
          (upd st { h with obj := r.2 }, b01 r.1)
        else if qop == "hisfile" then
          let r := h.obj.isFile st.disk
          (upd st { h with obj := r.2 }, b01 r.1)
        else
          (upd st { h with obj := h.obj.touch st.disk }, if qop == "hisdir" then "0" else "ok")
      else if qop == "hcontent" || qop == "htext" || qop == "hlines" then
        if (qop == "htext" || qop == "hlines") && !h.obj.isText then (st, "err kind") else
        if dirtyOther st hi p then (st, "err dirty") else
        let (out, o') : String × Obj :=
          if qop == "hcontent" then let r := h.obj.content st.disk; (showBytes r.1, r.2)
          else if qop == "htext" then
            let r := h.obj.text st.disk
            (match r.1 with | some t => showBytes t | none => "crash read-outside", r.2)
          else let r := h.obj.lines st.disk; (showLines r.1, r.2)
        let h' := { h with obj := o' }
        if (h'.mode ≥ 0) != (h.mode ≥ 0) then (upd st h', "err open-state-changed " ++ out) else
        let h' := if h.mode ≥ 0 then { h' with dirty := false } else { h' with poisoned := false }
        (upd st h', out)
      else (st, "bad-op")
    | _, _ => (st, "bad-op")
  | _ => (st, "bad-op")

def hOps : List String := ["hnew", "hopen", "hclose", "hflush", "hw", "happ", "hput", "hsh", "hsize", "hexists", "hisfile",
  "hisdir", "hmtime", "hcontent", "hfirst", "hr", "htext", "hlines", "hcopy", "hmove"]

def obsOps : List String := ["raw", "size", "content", "text", "lines", "exists", "first"]

/-- the remaining operations of `stepOld` -/
def stepOldRest (st : St) (ts : List String) : St × String :=
  match ts with
  | ["xobj", k, m, q, b1, b2] => match parseBytes b1, parseBytes b2 with
    | some bs1, some bs2 =>
      if (k != "f" && k != "t") || (m != "w" && m != "a") then (st, "bad-op") else
      let isT := k == "t"
      let d0 := st.disk.set 0 none
      let r := (Obj.new 0 isT).open d0 (if m == "w" then .write else .append)
      if !r.1 then ({ st with disk := r.2.1 }, "err open") else
      let wr (d : Disk) (o : Obj) (bs : List UInt8) : Disk × Obj :=
        if isT then let x := o.twrite d .write bs; (x.2.1, x.2.2) else let x := o.write d bs; (x.2.1, x.2.2)
      let (d1, o1) := wr r.2.1 r.2.2 bs1
      let o2 := if q == "size" then (o1.size d1).2 else if q == "exists" then (o1.exists d1).2
        else if q == "isfile" then (o1.isFile d1).2 else if q == "isdir" || q == "mtime" then o1.touch d1 else o1
      let (d2, o3) := wr d1 o2 bs2
      let o4 := o3.close
      let s := o4.size d2
      let (txt, o5) : String × Obj :=
        if isT then
          let x := s.2.text d2
          (" " ++ (match x.1 with | some t => showBytes t | none => "crash read-outside"), x.2.close)
        else ("", s.2)
      ({ st with disk := d2 }, s!"{s.1}{txt} {showBytes (o5.content d2).1}")
    | _, _ => (st, "bad-op")
  | ["xfo", k, v, api, b] => match parseBytes b with
    | some bs =>
      -- operations through an object after a FAILED open: File/TextFile(1a, READ) on a missing path (v = c), or an object
      -- of 1b on which open(1a, READ) fails (v = o); then one lazily opening writer, size(), content()/text(), path()
      if (k != "f" && k != "t") || (v != "c" && v != "o") then (st, "bad-op") else
      let isT := k == "t"
      if !(if isT then api == "w" || api == "a" || api == "p" || api == "s" else api == "p") then (st, "bad-op") else
      let d0 := st.disk.set 0 none
      let d0 := if v == "o" then d0.set 1 (some [112, 114, 101, 99, 105, 111, 117, 115]) else d0
      let r := (Obj.new (if v == "o" then 1 else 0) isT).openAt d0 0 .read
      let w : Bool × Disk × Obj :=
        if isT then r.2.2.twrite r.2.1 (if api == "a" then .append else .write) bs else r.2.2.put r.2.1 bs
      let d1 := w.2.1
      let sz := w.2.2.size d1
      let (dat, o2) : String × Obj :=
        if isT then
          let x := sz.2.text d1
          ((match x.1 with | some t => showBytes t | none => "crash read-outside"), x.2)
        else let x := sz.2.content d1; (showBytes x.1, x.2)
      ({ st with disk := d1 }, s!"open={b01 r.1} w={b01 w.1} size={sz.1} data={dat} path={o2.path} raw0={rawStr d1 0} raw1={rawStr d1 1}")
    | none => (st, "bad-op")
  | ["xput", api, b] => match parseBytes b with
    | some bs =>
      match applyApi (st.disk.set 0 none) api bs with
      | some d => ({ st with disk := d }, threeViews d)
      | none => (st, "bad-op")
    | none => (st, "bad-op")
  | ["xseq", api1, b1, api2, b2] => match parseBytes b1, parseBytes b2 with
    | some bs1, some bs2 =>
      match (applyApi (st.disk.set 0 none) api1 bs1).bind fun d => applyApi d api2 bs2 with
      | some d => ({ st with disk := d }, threeViews d)
      | none => (st, "bad-op")
    | _, _ => (st, "bad-op")
  | ["xcopy", b] => match parseBytes b with
    | some bs =>
      let d := (st.disk.set 0 (some bs)).set 1 none
      let r := copy d 0 1
      ({ st with disk := r.2 }, s!"{b01 r.1} {rawStr r.2 1}")
    | none => (st, "bad-op")
  | ["xmove", x, b] => match parseBytes b with
    | some bs =>
      let st := { st with xdev := x == "1", disk := (st.disk.set 2 none).set 3 none }
      let d := st.disk.set 0 (some bs)
      let r := move d 0 2 (cross st 0 2)
      ({ st with disk := r.2 }, s!"{b01 r.1} {rawStr r.2 2} src={b01 (r.2 0).isSome}")
    | none => (st, "bad-op")
  | _ => (st, "bad-op")

def stepOld (st0 : St) (ts : List String) : St × String :=
  -- every operation that is not an operation *on the open session* closes the session first
  let sessionOps := ["w", "sb", "ss", "sc", "si", "r", "rl", "rlc", "end", "seek", "pos"]
  let st : St := match ts with
    | op :: _ => if sessionOps.contains op then st0 else { st0 with sess := none }
    | [] => st0
  match ts with
  | ["dev2", x] =>
    ({ st with xdev := x == "1", disk := (st.disk.set 2 none).set 3 none }, "ok")
  | ["put", p, b] => match parsePath p, parseBytes b with
    | some p, some bs => let r := put st.disk p bs; ({ st with disk := r.2 }, b01 r.1)
    | _, _ => (st, "bad-op")
  | ["tput", p, b] => match parsePath p, parseBytes b with
    | some p, some bs => let r := tput st.disk p .write bs; ({ st with disk := r.2 }, b01 r.1)
    | _, _ => (st, "bad-op")
  | ["tapp", p, b] => match parsePath p, parseBytes b with
    | some p, some bs => let r := tput st.disk p .append bs; ({ st with disk := r.2 }, b01 r.1)
    | _, _ => (st, "bad-op")
  | ["rawput", p, b] => match parsePath p, parseBytes b with
    | some p, some bs => ({ st with disk := st.disk.set p (some bs) }, "ok")
    | _, _ => (st, "bad-op")
  | ["open", p, k, m] => match parsePath p, parseMode m with
    | some p, some m =>
      if k != "f" && k != "t" then (st, "bad-op") else
      let r := openH st.disk p (k == "t") m
      match r.1 with
      | none => ({ st with disk := r.2 }, "err open")
      | some h => ({ st with disk := r.2, sess := some h }, "ok")
    | _, _ => (st, "bad-op")
  | ["close"] => (st, "ok")
  | ["w", b] => match parseBytes b with
    | some bs => sessWrite st bs fun n h => if h.isText then b01 (decide (n ≥ bs.length)) else toString n
    | none => (st, "bad-op")
  | ["sb", b] => match parseBytes b with
    | some bs => sessWrite st bs fun _ _ => "ok"
    | none => (st, "bad-op")
  | ["ss", b] => match parseBytes b with
    | some bs => sessWrite st bs fun _ _ => "ok"
    | none => (st, "bad-op")
  | ["sc", b] => match parseBytes b with
    | some bs => sessWrite st (cstr bs) fun _ _ => "ok"
    | none => (st, "bad-op")
  | ["si", v] => match v.toInt? with
    | some i =>
      match st.sess with
      | some h =>
        let i32 : Int := (i + 2147483648) % 4294967296 - 2147483648
        let bs := if h.isText then decimal i32 else le32 (i32 % 4294967296).toNat
        sessWrite st bs fun _ _ => "ok"
      | none => (st, "err nosession")
    | none => (st, "bad-op")
  | ["r", k] => match k.toNat? with
    | some k =>
      -- read(p, n) is offered in every mode but "r+": through a writer it returns nothing and sets the error indicator
      match st.sess with
      | none => (st, "err nosession")
      | some h =>
        if h.mode == .rw then (st, "err mode") else
        let r := hread h k; ({ st with sess := some r.2 }, showBytes r.1)
    | none => (st, "bad-op")
  | ["rl"] =>
    -- readLine(String&) and end() are offered in every mode but "r+": after a failed read end() must say so
    match st.sess with
    | none => (st, "err nosession")
    | some h =>
      if !h.isText then (st, "err kind") else
      if h.mode == .rw then (st, "err mode") else
      let r := hreadLine readLineChunk h
      ({ st with sess := some r.2 }, s!"{b01 r.1.2} {showBytes r.1.1} {b01 (hend r.2)}")
  | ["rlc", b] => match unhex b with
    | some [delim] =>
      -- readLine(char) is offered in every mode: on an object opened for writing it must come back empty-handed
      match st.sess with
      | none => (st, "err nosession")
      | some h =>
        if !h.isText then (st, "err kind") else
        if h.mode == .rw then (st, "err mode") else
        if h.mode == .read && hasNul h.all then (st, "err nul") else
        let r := hreadLineDelim h delim
        ({ st with sess := some r.2 }, s!"{showBytes r.1} {b01 (hend r.2)}")
    | _ => (st, "bad-op")
  | ["end"] => match st.sess with
    | none => (st, "err nosession")
    | some h => if h.mode == .rw then (st, "err mode") else (st, b01 (hend h))
  | ["seek", k] => match k.toNat? with
    | some k => readSess st fun h => ({ st with sess := some (hseek h (k % (h.all.length + 1))) }, "ok")
    | none => (st, "bad-op")
  | ["pos"] => readSess st fun h => (st, toString (hpos h))
  | ["content", p] => match parsePath p with
    | some p => (st, showBytes (content st.disk p))
    | none => (st, "bad-op")
  | ["first", p, k] => match parsePath p, k.toNat? with
    | some p, some k => (st, showBytes (firstBytes st.disk p k))
    | _, _ => (st, "bad-op")
  | ["size", p] => match parsePath p with
    | some p => (st, toString (size st.disk p))
    | none => (st, "bad-op")
  | ["exists", p] => match parsePath p with
    | some p => (st, b01 (st.disk p).isSome)
    | none => (st, "bad-op")
  | ["raw", p] => match parsePath p with
    | some p => (st, rawStr st.disk p)
    | none => (st, "bad-op")
  | ["text", p] => match parsePath p with
    | some p => (st, textStr st.disk p)
    | none => (st, "bad-op")
  | ["lines", p] => match parsePath p with
    | some p => (st, linesStr st.disk p)
    | none => (st, "bad-op")
  | ["copy", p, "full"] => match parsePath p with
    | some p => let r := copyToFull st.disk p; ({ st with disk := r.2 }, b01 r.1)
    | none => (st, "bad-op")
  | ["move", p, "full"] => match parsePath p with
    | some p => let r := moveToFull st.disk p; ({ st with disk := r.2 }, b01 r.1)
    | none => (st, "bad-op")
  | ["copy", p, q] => match parsePath p, parsePath q with
    | some p, some q => let r := copy st.disk p q; ({ st with disk := r.2 }, b01 r.1)
    | _, _ => (st, "bad-op")
  | ["copyd", p, dd] => match parsePath p, dd.toNat? with
    | some p, some dd =>
      if dd != 1 && dd != 2 then (st, "bad-op") else
      let r := copy st.disk p (intoDir p (dd - 1)); ({ st with disk := r.2 }, b01 r.1)
    | _, _ => (st, "bad-op")
  | ["move", p, q] => match parsePath p, parsePath q with
    | some p, some q => let r := move st.disk p q (cross st p q); ({ st with disk := r.2 }, b01 r.1)
    | _, _ => (st, "bad-op")
  | ["moved", p, dd] => match parsePath p, dd.toNat? with
    | some p, some dd =>
      if dd != 1 && dd != 2 then (st, "bad-op") else
      let q := intoDir p (dd - 1)
      let r := move st.disk p q (cross st p q); ({ st with disk := r.2 }, b01 r.1)
    | _, _ => (st, "bad-op")
  | ["rm", p] => match parsePath p with
    | some p => let r := remove st.disk p; ({ st with disk := r.2 }, b01 r.1)
    | none => (st, "bad-op")
  -- self-contained operations (scratch file 1a / 1b / 2a), judged by the python reference as well
  | ["xlines", b] => match parseBytes b with
    | some bs => let d := st.disk.set 0 (some bs); ({ st with disk := d }, linesStr d 0)
    | none => (st, "bad-op")
  | ["xrl", b] => match parseBytes b with
    | some bs =>
      let d := st.disk.set 0 (some bs)
      match (openH d 0 true .read).1 with
      | some h => ({ st with disk := d }, showLines (rlAll h))
      | none => ({ st with disk := d }, "err open")
    | none => (st, "bad-op")
  | ["xshr", b] => match parseBytes b with
    | some bs =>
      -- `File f(p, READ); f >> x;` (String): the string, position(), end()
      let d := st.disk.set 0 (some bs)
      match (openH d 0 false .read).1 with
      | some h =>
        let r := hreadStr shrBlock h
        ({ st with disk := d }, s!"{showBytes r.1} pos={hpos r.2} end={b01 (hend r.2)}")
      | none => ({ st with disk := d }, "err open")
    | none => (st, "bad-op")
  | ["xshw", a, b] => match parseBytes a, parseBytes b with
    | some s, some tail =>
      -- `f << int(s.length()) << s << tail` on a fresh file, then `g >> x` and one read of the rest
      match openH (st.disk.set 0 none) 0 false .write with
      | (some w, d0) =>
        let d := (writeAll d0 w [le32 s.length, s, tail]).1
        match (openH d 0 false .read).1 with
        | some h =>
          let r := hreadStr shrBlock h
          let r2 := hread r.2 (tail.length + 8)
          ({ st with disk := d }, s!"{showBytes r.1} rest={showBytes r2.1} end={b01 (hend r2.2)}")
        | none => ({ st with disk := d }, "err open")
      | (none, d0) => ({ st with disk := d0 }, "err open")
    | _, _ => (st, "bad-op")
  | ["xrlw", b] => match parseBytes b with
    | some bs =>
      -- `while (tf.readLine(s)) ls << s;` on a freshly opened TextFile: the delivered strings, the string left by the
      -- final `false` call, end()
      let d := st.disk.set 0 (some bs)
      match (openH d 0 true .read).1 with
      | some h =>
        let r := hreadWhile readLineChunk h
        ({ st with disk := d }, s!"{showLines r.1.1} last={showBytes r.1.2} end={b01 (hend r.2)}")
      | none => ({ st with disk := d }, "err open")
    | none => (st, "bad-op")
  | ["xtext", b] => match parseBytes b with
    | some bs => let d := st.disk.set 0 (some bs); ({ st with disk := d }, textStr d 0)
    | none => (st, "bad-op")
  -- NOTE: xdirend, xdircopy, xdirrlc and xdirlines below are CONSTANTS of this driver (the model has no directories and no
  -- failing reads of a source): they make K re-check the repairs 9eba4eb, 95952ce, 4bfeeba, bbbf8e1 on the real library, nothing more.
  | ["xwend", b] => match parseBytes b with
    | some bs =>
      -- the documented idiom on an object that has just written: `while (!f.end()) f.readLine();`
      let d0 := st.disk.set 0 none
      let w := (Obj.new 0 true).twrite d0 .write bs
      let n : Nat := match w.2.2.file with
        | some h => if hend h then 0 else if hend (hreadLine readLineChunk h).2 then 1 else 100000
        | none => 0
      ({ st with disk := w.2.1 }, toString n)
    | none => (st, "bad-op")
  | ["xdirend"] =>
    -- the same idiom on a directory: the first read fails, end() is true afterwards (transcribed constant)
    (st, "1")
  | ["xdircopy"] =>
    -- Directory::copy of a directory: reading the source fails, the copy is reported as failed; a cross-device move
    -- of a directory is refused and the source stays (transcribed constants, the model has no directories)
    (st, "0 0 src=1")
  | ["xdirrlc"] =>
    -- readLine(char) of a directory: the first read fails, the empty string comes back (transcribed constant)
    (st, showBytes [])
  | ["xwrlc", b] => match parseBytes b with
    | some bs =>
      let d0 := st.disk.set 0 none
      let w := (Obj.new 0 true).twrite d0 .write bs
      let s1 := match w.2.2.file with | some h => (hreadLineDelim h 10).1 | none => []
      -- after close(): readLine(char) opens the file for reading itself
      let s2 := match (openH w.2.1 0 true .read).1 with | some h => (hreadLineDelim h 10).1 | none => []
      ({ st with disk := w.2.1 }, s!"{showBytes s1} {if hasNul bs then "err nul" else showBytes s2}")
    | none => (st, "bad-op")
  | ["xdirlines"] =>
    -- lines() of a directory: `fopen` succeeds, the first `fgets` fails with the error indicator set and the loop stops
    -- after the one (empty) line it had already pushed; the model has no directories: this is the transcribed constant
    (st, showLines [[]])
  | ["xwlines", b] => match parseBytes b with
    | some bs =>
      let d0 := st.disk.set 0 none
      let w := (Obj.new 0 true).twrite d0 .write bs
      let l1 := w.2.2.lines w.2.1
      let o2 := l1.2.close
      let o3 := (o2.text w.2.1).2
      let l2 := o3.lines w.2.1
      let l3 := l2.2.lines w.2.1
      ({ st with disk := w.2.1 }, s!"{showLines l1.1} | {showLines l2.1} | {showLines l3.1}")
    | none => (st, "bad-op")
  | ["xfull", b] => match parseBytes b with
    | some bs =>
      let d1 := st.disk.set 0 (some bs)
      let c := copyToFull d1 0
      let mv := moveToFull c.2 0
      ({ st with disk := mv.2 }, s!"{b01 c.1} {b01 mv.1} {rawStr mv.2 0}")
    | none => (st, "bad-op")
  | [xop, k, b] =>
    if xop == "xtwice" || xop == "xputread" || xop == "xreopen" then
      match parseBytes b with
      | none => (st, "bad-op")
      | some bs =>
        if k != "f" && k != "t" then (st, "bad-op") else
        let isT := k == "t"
        let d0 := st.disk.set 0 none
        let o := Obj.new 0 isT
        let showT (x : Option (List UInt8)) : String := match x with | some t => showBytes t | none => "crash read-outside"
        let whole (d : Disk) (o : Obj) : String × Obj :=
          if isT then let x := o.text d; (showT x.1, x.2) else let x := o.content d; (showBytes x.1, x.2)
        let wr (d : Disk) (o : Obj) : Disk × Obj :=
          if isT then let x := o.twrite d .write bs; (x.2.1, x.2.2) else let x := o.put d bs; (x.2.1, x.2.2)
        if xop == "xtwice" then
          let d1 := d0.set 0 (some bs)
          let (r1, o1) := whole d1 o
          let (r2, o2) := whole d1 o1
          let f := o2.firstBytes d1 2
          let (r4, _) := whole d1 f.2
          ({ st with disk := d1 }, s!"{r1} {r2} {showBytes f.1} {r4}")
        else if xop == "xputread" then
          let (d1, o1) := wr d0 o
          let s1 := o1.size d1
          let (r2, o2) := whole d1 s1.2
          let (d2, o3) := wr d1 o2
          let s3 := o3.size d2
          ({ st with disk := d2 }, s!"{s1.1} {r2} {s3.1}")
        else
          let (d1, o1) := wr d0 o
          let r := o1.open d1 .read
          let (r2, _) := whole r.2.1 r.2.2
          ({ st with disk := r.2.1 }, s!"{b01 r.1} {r2} {rawStr r.2.1 0}")
    else stepOldRest st [xop, k, b]
  | [xop, k, b1, b2] =>
    if xop == "xreadwrite" then
      match parseBytes b1, parseBytes b2 with
      | some bs1, some bs2 =>
        if k != "f" && k != "t" then (st, "bad-op") else
        let isT := k == "t"
        let d1 := st.disk.set 0 (some bs1)
        let o := Obj.new 0 isT
        if isT then
          let o1 := (o.text d1).2
          let o2 := (o1.lines d1).2
          let r := o2.twrite d1 .append bs2
          ({ st with disk := r.2.1 }, s!"{b01 r.1} {rawStr r.2.1 0}")
        else
          let o1 := (o.content d1).2
          let o2 := (o1.firstBytes d1 1).2
          let r := o2.put d1 bs2
          ({ st with disk := r.2.1 }, s!"{b01 r.1} {rawStr r.2.1 0}")
      | _, _ => (st, "bad-op")
    else if xop == "xobjcopy" then
      match parseBytes b2 with
      | some bs =>
        if k != "f" && k != "t" then (st, "bad-op") else
        let isT := k == "t"
        let st := { st with xdev := b1 == "1" }
        let d0 := ((st.disk.set 0 none).set 1 none).set 2 none
        let wr (d : Disk) (o : Obj) : Disk × Obj :=
          if isT then let x := o.twrite d .write bs; (x.2.1, x.2.2) else let x := o.put d bs; (x.2.1, x.2.2)
        let (d1, o1) := wr d0 (Obj.new 0 isT)
        let c := o1.copy d1 1
        let (d2, o2) := wr c.2 o1
        let mv := o2.move d2 2 (cross st 0 2)
        ({ st with disk := mv.1.2 },
          s!"{b01 c.1} {rawStr c.2 1} {b01 mv.1.1} {rawStr mv.1.2 2} src={b01 (mv.1.2 0).isSome}")
      | none => (st, "bad-op")
    else if xop == "xstale" || xop == "xstalesize" then
      match parseBytes b1, parseBytes b2 with
      | some bs1, some bs2 =>
        if k != "f" && k != "t" then (st, "bad-op") else
        let isT := k == "t"
        let d1 := st.disk.set 0 (some bs1)
        let o1 := ((Obj.new 0 isT).size d1).2
        let d2 := (tput d1 0 .write bs2).2
        if xop == "xstalesize" then ({ st with disk := d2 }, toString (o1.size d2).1)
        else if isT then
          ({ st with disk := d2 }, match (o1.text d2).1 with | some t => showBytes t | none => "crash read-outside")
        else ({ st with disk := d2 }, showBytes (o1.content d2).1)
      | _, _ => (st, "bad-op")
    else stepOldRest st [xop, k, b1, b2]
  | _ => stepOldRest st ts

/-- h-operations work on the persistent objects; observations through temporaries leave them alone (and are
    answered `?` / `err dirty` while the path has unflushed writes); every other operation closes them first -/
def step (st : St) (ts : List String) : St × String :=
  match ts with
  | op :: rest =>
    if hOps.contains op then hstep { st with sess := none } ts
    else if obsOps.contains op then
      match rest.head?.bind parsePath with
      | some p =>
        if pathDirty st p && op != "exists" then ({ st with sess := none }, if op == "size" then "?" else "err dirty")
        else stepOld st ts
      | none => stepOld st ts
    else stepOld (closeAllHandles st) ts
  | [] => stepOld st ts

end Driver.C17

def main : IO Unit := Driver.loop Driver.C17.init Driver.C17.step
