import Driver.Common
import AslModel.FileText
/-! Model driver for C17 (File / TextFile / Directory::copy,move).  Same op lines as harness/c17.cpp. -/
open Driver AslModel AslModel.FileText Gen.File

namespace Driver.C17

/-! ### canonical output helpers (protocol plumbing, not part of the model) -/

def crcTable : Array UInt32 := Id.run do
  let mut t : Array UInt32 := Array.mkEmpty 256
  for i in [0:256] do
    let mut c : UInt32 := i.toUInt32
    for _ in [0:8] do
      c := if c &&& 1 == 1 then (c >>> 1) ^^^ 0xEDB88320 else c >>> 1
    t := t.push c
  return t

def crcStep (c : UInt32) (b : UInt8) : UInt32 :=
  crcTable[((c ^^^ b.toUInt32) &&& 0xff).toNat]! ^^^ (c >>> 8)

def crc32 (bs : List UInt8) : UInt32 := (bs.foldl crcStep 0xffffffff) ^^^ 0xffffffff

def hex8 (v : UInt32) : String :=
  String.ofList ((List.range 8).map fun i => hexDigit ((v.toNat >>> (4 * (7 - i))) % 16))

/-- `<len> <hex>` up to 4096 bytes, `<len> crc:<crc32>` beyond -/
def showBytes (bs : List UInt8) : String :=
  let n := bs.length
  if n ≤ 4096 then s!"{n} {hex bs}" else s!"{n} crc:{hex8 (crc32 bs)}"

def le32 (n : Nat) : List UInt8 :=
  [UInt8.ofNat n, UInt8.ofNat (n >>> 8), UInt8.ofNat (n >>> 16), UInt8.ofNat (n >>> 24)]

def showLines (ls : List (List UInt8)) : String :=
  let total := ls.foldl (fun a l => a + l.length + 1) 0
  if total ≤ 4096 then s!"n={ls.length} " ++ ",".intercalate (ls.map hex)
  else
    let c := ls.foldl (fun c l => (le32 l.length ++ l).foldl crcStep c) 0xffffffff
    s!"n={ls.length} crc:{hex8 (c ^^^ 0xffffffff)}"

/-! ### byte-string tokens: hex, `-`, `g<n>.<seed>` (pseudo-random bytes), `t<n>.<seed>` (the same, NUL-free) -/

def lcgBase (seed : Nat) (nulFree : Bool) : Array UInt8 := Id.run do
  let mut x : UInt64 := seed.toUInt64 * 2862933555777941757 + 3037000493
  let mut a : Array UInt8 := Array.mkEmpty 65521
  for _ in [0:65521] do
    x := x * 6364136223846793005 + 1442695040888963407
    let v := (x >>> 56).toNat
    a := a.push (UInt8.ofNat (if nulFree then v % 255 + 1 else v))
  return a

def genBytes (n seed : Nat) (nulFree : Bool) : List UInt8 :=
  let base := lcgBase seed nulFree
  (List.range n).map fun i => base[i % 65521]!

def parseBytes (tok : String) : Option (List UInt8) :=
  match tok.toList with
  | 'g' :: rest =>
    match (String.ofList rest).splitOn "." with
    | [a, b] => do pure (genBytes (← a.toNat?) (← b.toNat?) false)
    | _ => none
  | 't' :: rest =>
    match (String.ofList rest).splitOn "." with
    | [a, b] => do pure (genBytes (← a.toNat?) (← b.toNat?) true)
    | _ => none
  | _ => unhex tok

def parsePath : String → Option Nat
  | "1a" => some 0 | "1b" => some 1 | "2a" => some 2 | "2b" => some 3 | _ => none

def parseMode : String → Option OpenMode
  | "r" => some .read | "w" => some .write | "a" => some .append | "rw" => some .rw | _ => none

/-! ### state -/

structure St where
  disk : Disk
  xdev : Bool
  sess : Option Handle

def init : St := { disk := fun _ => none, xdev := false, sess := none }

def b01 (b : Bool) : String := if b then "1" else "0"

def hasNul (bs : List UInt8) : Bool := bs.contains 0

def decimal (i : Int) : List UInt8 := (toString i).toUTF8.toList

def cstr (bs : List UInt8) : List UInt8 := bs.takeWhile (· != 0)

/-- two paths are on different devices -/
def cross (st : St) (p q : Nat) : Bool := st.xdev && (p / 2 != q / 2)

/-- a write through the open session -/
def sessWrite (st : St) (bs : List UInt8) (show_ : Nat → Handle → String) : St × String :=
  match st.sess with
  | none => (st, "err nosession")
  | some h =>
    if h.mode == .read then (st, "err mode") else
    let r := fwrite st.disk h bs
    ({ st with disk := r.2.1, sess := some r.2.2 }, show_ r.1 h)

def readSess (st : St) (f : Handle → St × String) : St × String :=
  match st.sess with
  | none => (st, "err nosession")
  | some h => if h.mode != .read then (st, "err mode") else f h

def linesStr (d : Disk) (p : Nat) : String := showLines (linesOf d p)

def textStr (d : Disk) (p : Nat) : String :=
  match textOf d p with
  | some t => showBytes t
  | none => "crash read-outside"

def rawStr (d : Disk) (p : Nat) : String :=
  match d p with
  | none => "absent"
  | some c => showBytes c

/-- all lines through `readLine()` while `!end()` on an explicitly opened TextFile: the loop of `lines()` run by the caller -/
def rlAll (h : Handle) : List (List UInt8) := linesLoop (readLineChunk - 2) h.rs []

/-- one of the nine writers of `xput` / `xseq` on path 1a -/
def applyApi (d0 : Disk) (api : String) (bs : List UInt8) : Option Disk :=
  let viaSession (isText : Bool) (mode : OpenMode) : Option Disk :=
    let r := openH d0 0 isText mode
    r.1.map fun h => (writeAll r.2 h [bs]).1
  match api with
  | "put" => some (put d0 0 bs).2
  | "tput" => some (tput d0 0 .write bs).2
  | "tapp" => some (tput d0 0 .append bs).2
  | "fw" => viaSession false .write
  | "fa" => viaSession false .append
  | "fsb" => viaSession false .write
  | "fss" => viaSession false .write
  | "tw" => viaSession true .write
  | "ts" => viaSession true .write
  | _ => none

/-- `size()`, `content()`, and whether the POSIX view equals `content()` -/
def threeViews (d : Disk) : String :=
  s!"{size d 0} {showBytes (content d 0)} raw={b01 ((d 0) == some (content d 0))}"

def step (st0 : St) (ts : List String) : St × String :=
  -- every operation that is not an operation *on the open session* closes the session first
  let sessionOps := ["w", "sb", "ss", "sc", "si", "r", "rl", "rlc", "end", "seek", "pos"]
  let st : St := match ts with
    | op :: _ => if sessionOps.contains op then st0 else { st0 with sess := none }
    | [] => st0
  match ts with
  | ["dev2", x] =>
    ({ st with xdev := x == "1", disk := (st.disk.set 2 none).set 3 none }, "ok")
  | ["put", p, b] => match parsePath p, parseBytes b with
    | some p, some bs => let r := put st.disk p bs; ({ st with disk := r.2 }, b01 r.1)
    | _, _ => (st, "bad-op")
  | ["tput", p, b] => match parsePath p, parseBytes b with
    | some p, some bs => let r := tput st.disk p .write bs; ({ st with disk := r.2 }, b01 r.1)
    | _, _ => (st, "bad-op")
  | ["tapp", p, b] => match parsePath p, parseBytes b with
    | some p, some bs => let r := tput st.disk p .append bs; ({ st with disk := r.2 }, b01 r.1)
    | _, _ => (st, "bad-op")
  | ["rawput", p, b] => match parsePath p, parseBytes b with
    | some p, some bs => ({ st with disk := st.disk.set p (some bs) }, "ok")
    | _, _ => (st, "bad-op")
  | ["open", p, k, m] => match parsePath p, parseMode m with
    | some p, some m =>
      if k != "f" && k != "t" then (st, "bad-op") else
      let r := openH st.disk p (k == "t") m
      match r.1 with
      | none => ({ st with disk := r.2 }, "err open")
      | some h => ({ st with disk := r.2, sess := some h }, "ok")
    | _, _ => (st, "bad-op")
  | ["close"] => (st, "ok")
  | ["w", b] => match parseBytes b with
    | some bs => sessWrite st bs fun n h => if h.isText then b01 (decide (n ≥ bs.length)) else toString n
    | none => (st, "bad-op")
  | ["sb", b] => match parseBytes b with
    | some bs => sessWrite st bs fun _ _ => "ok"
    | none => (st, "bad-op")
  | ["ss", b] => match parseBytes b with
    | some bs => sessWrite st bs fun _ _ => "ok"
    | none => (st, "bad-op")
  | ["sc", b] => match parseBytes b with
    | some bs => sessWrite st (cstr bs) fun _ _ => "ok"
    | none => (st, "bad-op")
  | ["si", v] => match v.toInt? with
    | some i =>
      match st.sess with
      | some h =>
        let i32 : Int := (i + 2147483648) % 4294967296 - 2147483648
        let bs := if h.isText then decimal i32 else le32 (i32 % 4294967296).toNat
        sessWrite st bs fun _ _ => "ok"
      | none => (st, "err nosession")
    | none => (st, "bad-op")
  | ["r", k] => match k.toNat? with
    | some k => readSess st fun h => let r := hread h k; ({ st with sess := some r.2 }, showBytes r.1)
    | none => (st, "bad-op")
  | ["rl"] => readSess st fun h =>
      if !h.isText then (st, "err kind") else
      let r := readLine readLineChunk h.rs
      ({ st with sess := some { h with rs := r.2 } }, s!"{b01 r.1.2} {showBytes r.1.1} {b01 r.2.eof}")
  | ["rlc", b] => match unhex b with
    | some [delim] => readSess st fun h =>
      if !h.isText then (st, "err kind") else
      if hasNul h.all then (st, "err nul") else
      let r := readLineDelim delim h.rs
      ({ st with sess := some { h with rs := r.2 } }, s!"{showBytes r.1} {b01 r.2.eof}")
    | _ => (st, "bad-op")
  | ["end"] => readSess st fun h => (st, b01 h.rs.eof)
  | ["seek", k] => match k.toNat? with
    | some k => readSess st fun h => ({ st with sess := some (hseek h (k % (h.all.length + 1))) }, "ok")
    | none => (st, "bad-op")
  | ["pos"] => readSess st fun h => (st, toString (hpos h))
  | ["content", p] => match parsePath p with
    | some p => (st, showBytes (content st.disk p))
    | none => (st, "bad-op")
  | ["first", p, k] => match parsePath p, k.toNat? with
    | some p, some k => (st, showBytes (firstBytes st.disk p k))
    | _, _ => (st, "bad-op")
  | ["size", p] => match parsePath p with
    | some p => (st, toString (size st.disk p))
    | none => (st, "bad-op")
  | ["exists", p] => match parsePath p with
    | some p => (st, b01 (st.disk p).isSome)
    | none => (st, "bad-op")
  | ["raw", p] => match parsePath p with
    | some p => (st, rawStr st.disk p)
    | none => (st, "bad-op")
  | ["text", p] => match parsePath p with
    | some p => (st, textStr st.disk p)
    | none => (st, "bad-op")
  | ["lines", p] => match parsePath p with
    | some p => (st, linesStr st.disk p)
    | none => (st, "bad-op")
  | ["copy", p, q] => match parsePath p, parsePath q with
    | some p, some q => let r := copy st.disk p q; ({ st with disk := r.2 }, b01 r.1)
    | _, _ => (st, "bad-op")
  | ["copyd", p, dd] => match parsePath p, dd.toNat? with
    | some p, some dd =>
      if dd != 1 && dd != 2 then (st, "bad-op") else
      let r := copy st.disk p (intoDir p (dd - 1)); ({ st with disk := r.2 }, b01 r.1)
    | _, _ => (st, "bad-op")
  | ["move", p, q] => match parsePath p, parsePath q with
    | some p, some q => let r := move st.disk p q (cross st p q); ({ st with disk := r.2 }, b01 r.1)
    | _, _ => (st, "bad-op")
  | ["moved", p, dd] => match parsePath p, dd.toNat? with
    | some p, some dd =>
      if dd != 1 && dd != 2 then (st, "bad-op") else
      let q := intoDir p (dd - 1)
      let r := move st.disk p q (cross st p q); ({ st with disk := r.2 }, b01 r.1)
    | _, _ => (st, "bad-op")
  | ["rm", p] => match parsePath p with
    | some p => let r := remove st.disk p; ({ st with disk := r.2 }, b01 r.1)
    | none => (st, "bad-op")
  -- self-contained operations (scratch file 1a / 1b / 2a), judged by the python reference as well
  | ["xlines", b] => match parseBytes b with
    | some bs => let d := st.disk.set 0 (some bs); ({ st with disk := d }, linesStr d 0)
    | none => (st, "bad-op")
  | ["xrl", b] => match parseBytes b with
    | some bs =>
      let d := st.disk.set 0 (some bs)
      match (openH d 0 true .read).1 with
      | some h => ({ st with disk := d }, showLines (rlAll h))
      | none => ({ st with disk := d }, "err open")
    | none => (st, "bad-op")
  | ["xtext", b] => match parseBytes b with
    | some bs => let d := st.disk.set 0 (some bs); ({ st with disk := d }, textStr d 0)
    | none => (st, "bad-op")
  | ["xput", api, b] => match parseBytes b with
    | some bs =>
      match applyApi (st.disk.set 0 none) api bs with
      | some d => ({ st with disk := d }, threeViews d)
      | none => (st, "bad-op")
    | none => (st, "bad-op")
  | ["xseq", api1, b1, api2, b2] => match parseBytes b1, parseBytes b2 with
    | some bs1, some bs2 =>
      match (applyApi (st.disk.set 0 none) api1 bs1).bind fun d => applyApi d api2 bs2 with
      | some d => ({ st with disk := d }, threeViews d)
      | none => (st, "bad-op")
    | _, _ => (st, "bad-op")
  | ["xcopy", b] => match parseBytes b with
    | some bs =>
      let d := (st.disk.set 0 (some bs)).set 1 none
      let r := copy d 0 1
      ({ st with disk := r.2 }, s!"{b01 r.1} {rawStr r.2 1}")
    | none => (st, "bad-op")
  | ["xmove", x, b] => match parseBytes b with
    | some bs =>
      let st := { st with xdev := x == "1", disk := (st.disk.set 2 none).set 3 none }
      let d := st.disk.set 0 (some bs)
      let r := move d 0 2 (cross st 0 2)
      ({ st with disk := r.2 }, s!"{b01 r.1} {rawStr r.2 2} src={b01 (r.2 0).isSome}")
    | none => (st, "bad-op")
  | _ => (st, "bad-op")

end Driver.C17

def main : IO Unit := Driver.loop Driver.C17.init Driver.C17.step
