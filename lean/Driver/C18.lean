import Driver.Common
import AslModel.Ini
import AslModel.Csv
/-! Model driver for C18 (IniFile histories on one path, TabularDataFile write / read back). -/
open Driver AslModel

namespace Driver.C18
open AslModel.Ini (Ini Bytes)
open AslModel.Csv (Cell RCell)

structure St where
  file : Option Bytes := none
  ini : Option Ini := none

def hexList (sep : String) (l : List Bytes) : String := sep.intercalate (l.map hex)

/-- `ok`, `sectionNames()`, `values()` -/
def dump (i : Ini) : String :=
  let vs := Ini.values i
  s!"ok={if i.ok then 1 else 0} secs={hexList "," (Ini.sectionNames i)} vals=" ++
    ",".intercalate (vs.map fun kv => hex kv.1 ++ "=" ++ hex kv.2)

/-- the non-empty entries of `values()` (what `operator[]` can tell apart from "absent") -/
def dumpNonEmpty (i : Ini) : String :=
  "vals=" ++ ",".intercalate (((Ini.values i).filter fun kv => !kv.2.isEmpty).map fun kv => hex kv.1 ++ "=" ++ hex kv.2)

def fileText (f : Option Bytes) : String :=
  match f with
  | some t => "file " ++ hex t
  | none => "nofile"

def parseFile (s : String) : Option (Option Bytes) :=
  if s = "none" then some none else (unhex s).map some

/-- `write()` on the open object: new object state and new file content -/
def doWrite (st : St) (i : Ini) : Option (Ini × Option Bytes) :=
  match Ini.write i with
  | none => none
  | some r => some (r.ini, match r.text with | some t => some t | none => st.file)

/-- destructor -/
def doClose (st : St) (i : Ini) : Option (Option Bytes) :=
  if i.shouldwrite then (doWrite st i).map (·.2) else some st.file

def pairs : List String → Option (List (Bytes × Bytes))
  | [] => some []
  | [_] => none
  | a :: b :: t => do
    let x ← unhex a
    let y ← unhex b
    let r ← pairs t
    pure ((x, y) :: r)

def parseCell (s : String) : Option Cell :=
  if s.startsWith "s:" then (unhex (s.drop 2).toString).map Cell.str
  else if s.startsWith "n:" then some (Cell.num (s.drop 2).toString.toUTF8.toList)
  else none

def rcell : RCell → String
  | .str s => "s" ++ hex s
  | .num d => "n" ++ hex (Csv.fmt15 d)
  | .int v => "i" ++ toString v

/-- the `readAs` string: `n`, `s`, `i`, `h`; any other character is a column that is dropped -/
def parseTypes (s : String) : Option (List Csv.ColType) :=
  if s = "-" then some [] else
  s.toList.mapM fun c =>
    if c = 'n' then some Csv.ColType.num else if c = 's' then some .str else if c = 'i' then some .int
    else if c = 'h' then some .hex else some .skip

def dumpTable (t : Csv.Table) : String :=
  s!"cols={hexList "," t.columns} rows=" ++ ";".intercalate (t.rows.map fun r => ",".intercalate (r.map rcell))

structure ItemAcc where
  items : List Csv.WItem := []
  /-- cells of the array literal being read -/
  cur : Option (List Cell) := none
  /-- the last array `Var` made (re-sent by `=`) -/
  last : Option (List Cell) := none
  /-- lengths of the array `Var`s, in order of creation (the caller's arrays stay as they were) -/
  lens : List Nat := []

/-- items: `s:<hex>` / `n:<text>` cells, `[` cells `]` one array `Var`, `=` the previous array `Var` again -/
def parseItems : List String → ItemAcc → Option ItemAcc
  | [], a => if a.cur.isSome then none else some a
  | "[" :: t, a => if a.cur.isSome then none else parseItems t { a with cur := some [] }
  | "]" :: t, a =>
    match a.cur with
    | some cs => parseItems t { a with cur := none, last := some cs, items := a.items ++ [.arr cs], lens := a.lens ++ [cs.length] }
    | none => none
  | "=" :: t, a =>
    match a.cur, a.last with
    | none, some cs => parseItems t { a with items := a.items ++ [.arr cs] }
    | _, _ => none
  | s :: t, a =>
    match parseCell s with
    | some c =>
      match a.cur with
      | some cs => parseItems t { a with cur := some (cs ++ [c]) }
      | none => parseItems t { a with items := a.items ++ [.cell c] }
    | none => none

/-- `<ncols> <name>*ncols <item>*` -/
def tableArgs (ts : List String) : Option (List Bytes × List Csv.WItem × List Nat) :=
  match ts with
  | n :: rest =>
    match n.toNat? with
    | some k =>
      if rest.length < k then none else do
        let cols ← (rest.take k).mapM unhex
        let a ← parseItems (rest.drop k) {}
        pure (cols, a.items, a.lens)
    | none => none
  | [] => none

def lensText (lens : List Nat) : String :=
  if lens.isEmpty then "" else " lens=" ++ ",".intercalate (lens.map toString)

def step (st : St) (ts : List String) : St × String :=
  match ts with
  | ["load", f, sw] =>
    match parseFile f with
    | some file =>
      let i := Ini.openFile file (sw == "1")
      ({ file := file, ini := some i }, dump i)
    | none => (st, "bad-op")
  | ["reopen", sw] =>
    match st.ini with
    | some _ => (st, "err open")
    | none =>
      let i := Ini.openFile st.file (sw == "1")
      ({ st with ini := some i }, dump i)
  | ["set", n, v] =>
    match st.ini, unhex n, unhex v with
    | some i, some n, some v => ({ st with ini := some (Ini.set i n v) }, "ok")
    | none, some _, some _ => (st, "err closed")
    | _, _, _ => (st, "bad-op")
  | ["put", n, v] =>
    match st.ini, unhex n, unhex v with
    | some i, some n, some v => ({ st with ini := some (Ini.put i n v) }, "ok")
    | none, some _, some _ => (st, "err closed")
    | _, _, _ => (st, "bad-op")
  | ["get", n] =>
    match st.ini, unhex n with
    | some i, some n => (st, s!"{if Ini.has i n then 1 else 0} {hex (Ini.get i n)}")
    | none, some _ => (st, "err closed")
    | _, _ => (st, "bad-op")
  | ["vals"] =>
    match st.ini with
    | some i => (st, dump i)
    | none => (st, "err closed")
  | ["write"] =>
    match st.ini with
    | some i =>
      match doWrite st i with
      | some (i', f) => ({ file := f, ini := some i' }, fileText f)
      | none => (st, "oob")
    | none => (st, "err closed")
  | ["close"] =>
    match st.ini with
    | some i =>
      match doClose st i with
      | some f => ({ file := f, ini := none }, fileText f)
      | none => ({ st with ini := none }, "oob")
    | none => (st, "err closed")
  | ["fresh"] => (st, dump (Ini.openFile st.file false))
  | "inirt" :: mode :: f :: ps =>
    match parseFile f, pairs ps with
    | some file, some sets =>
      let i := sets.foldl (fun i nv => Ini.set i nv.1 nv.2) (Ini.openFile file true)
      let s0 : St := { file := file, ini := none }
      -- mode w: explicit write() then destructor; mode c: destructor only
      let r : Option (Option Bytes) :=
        if mode.startsWith "w" then
          match doWrite s0 i with
          | some (i', f') => doClose { s0 with file := f' } i'
          | none => none
        else doClose s0 i
      match r with
      | some f' => ({ file := f', ini := none }, dumpNonEmpty (Ini.openFile f' false))
      | none => (s0, "oob")
    | _, _ => (st, "bad-op")
  | "inidir" :: sw :: ps =>
    match pairs ps with
    | some sets =>
      let i0 := Ini.readUnreadable (sw == "1")
      let i1 := sets.foldl (fun i nv => Ini.set i nv.1 nv.2) i0
      -- the destructor runs `write` (in bounds or not is the model's answer); it cannot open a directory for
      -- writing, so nothing on disk changes
      let fin := if i1.shouldwrite then (match Ini.write i1 with | some _ => "dir" | none => "oob") else "dir"
      (st, dump i0 ++ " | " ++ dump i1 ++ " | " ++ fin)
    | none => (st, "bad-op")
  | "tabw" :: args =>
    match tableArgs args with
    | some (cols, items, lens) => (st, hex (Csv.writeItemsG 44 46 cols items) ++ lensText lens)
    | none => (st, "bad-op")
  | "tabrt" :: args =>
    match tableArgs args with
    | some (cols, items, _) => (st, dumpTable (Csv.readTable (Csv.writeItemsG 44 46 cols items)))
    | none => (st, "bad-op")
  | "tabrtx" :: args =>
    match tableArgs args with
    | some (cols, items, _) => (st, dumpTable (Csv.readTable (Csv.writeItemsG 44 46 cols items)))
    | none => (st, "bad-op")
  | "tabws" :: sep :: dec :: args =>
    match tableArgs args, sep.toNat?, dec.toNat? with
    | some (cols, items, lens), some s, some d =>
      (st, hex (Csv.writeItemsG (UInt8.ofNat s) (UInt8.ofNat d) cols items) ++ lensText lens)
    | _, _, _ => (st, "bad-op")
  | "tabrts" :: sep :: dec :: args =>
    match tableArgs args, sep.toNat?, dec.toNat? with
    | some (cols, items, _), some s, some d =>
      (st, dumpTable (Csv.readTable (Csv.writeItemsG (UInt8.ofNat s) (UInt8.ofNat d) cols items)))
    | _, _, _ => (st, "bad-op")
  | "tabrtt" :: ty :: sep :: dec :: args =>
    match parseTypes ty, tableArgs args, sep.toNat?, dec.toNat? with
    | some types, some (cols, items, _), some s, some d =>
      (st, dumpTable (Csv.readTableT types (Csv.writeItemsG (UInt8.ofNat s) (UInt8.ofNat d) cols items)))
    | _, _, _, _ => (st, "bad-op")
  | ["tabreadt", ty, h] =>
    match parseTypes ty, unhex h with
    | some types, some t => (st, dumpTable (Csv.readTableT types t))
    | _, _ => (st, "bad-op")
  | ["tabread", h] =>
    match unhex h with
    | some t => (st, dumpTable (Csv.readTable t))
    | none => (st, "bad-op")
  | ["atof", h] =>
    match unhex h with
    | some t => (st, hex (Csv.fmt15 (Csv.atofDec t)))
    | none => (st, "bad-op")
  | _ => (st, "bad-op")

end Driver.C18

def main : IO Unit := Driver.loop ({} : Driver.C18.St) Driver.C18.step
