import Driver.Common
import AslModel.Date
/-! Model driver for C19 (Date). Ops: see harness/c19.cpp (same lines, same output). -/
open Driver AslModel AslModel.Date

namespace Driver.C19

def decBytes (v : Int) : Bytes := (toString v).toUTF8.toList

def str (b : Bytes) : String := String.ofList (b.map fun c => Char.ofNat c.toNat)

def fmtOf (k : Nat) : Option Fmt :=
  match k with
  | 0 => some .long | 1 => some .short | 2 => some .dateOnly | 3 => some .http | 4 => some .full | _ => none

def timeStr : Option Int → String
  | none => "nan"
  | some t => toString t

def resStr : ParseResult → String
  | none => "oob"
  | some r => timeStr r

def fieldsStr (f : Fields) : String :=
  s!"{f.year} {f.month} {f.day} {f.hours} {f.minutes} {f.seconds} {f.weekDay}"

/-- everything observable about one instant (ms); `inst` prints it, `scan`/`secs` hash it -/
def instLine (t : Int) : String :=
  let f := calcF t
  let mk := constructF f
  -- `toUTCString k t = fmtFields k (calcF t) (t % 1000).toNat` by definition; the fields are computed once
  let ms := (t % 1000).toNat
  let l := fmtFields .long f ms
  let s := fmtFields .short f ms
  let d := fmtFields .dateOnly f ms
  let h := fmtFields .http f ms
  let fu := fmtFields .full f ms
  s!"f={fieldsStr f} mk={timeStr mk} L={str l} S={str s} D={str d} H={str h} F={str fu} rt={resStr (parse l)} {resStr (parse s)} {resStr (parse h)} {resStr (parse fu)}"

def fnv (h : UInt64) (s : String) : UInt64 :=
  s.toUTF8.foldl (fun h b => (h ^^^ b.toUInt64) * 1099511628211) h

def msOfDay (day : Int) : Int := (day * 7919) % 1000

/-- hash over the instants `(day*86400 + sod)*1000 + msOfDay day`, `day = d0 .. d0+n-1` -/
def scanHash (d0 : Int) (n : Nat) (sod : Int) (st : Int) : UInt64 := Id.run do
  let mut h : UInt64 := 14695981039346656037
  for i in [0:n] do
    let day := d0 + st * i
    h := fnv h (instLine ((day * 86400 + sod) * 1000 + msOfDay day))
  return h

/-- hash over the seconds `s0 .. s0+n-1` of `day` -/
def secsHash (day : Int) (s0 : Int) (n : Nat) : UInt64 := Id.run do
  let mut h : UInt64 := 14695981039346656037
  for i in [0:n] do
    h := fnv h (instLine ((day * 86400 + s0 + i) * 1000))
  return h

def dayInRange (d : Int) : Bool := -719162 ≤ d && d ≤ 2932896

def step (_ : Unit) (ts : List String) : Unit × String :=
  let r : String := match ts with
    | ["split", a] => match a.toInt? with
      | some t => if inRange t then fieldsStr (calcF t) else "range"
      | none => "bad-op"
    | ["make", y, m, d, h, mi, s] =>
      match y.toInt?, m.toInt?, d.toInt?, h.toInt?, mi.toInt?, s.toInt? with
      | some y, some m, some d, some h, some mi, some s => timeStr (construct y m d h mi s)
      | _, _, _, _, _, _ => "bad-op"
    | ["fmt", k, a] => match k.toNat? >>= fmtOf, a.toInt? with
      | some k, some t => if inRange t then hex (toUTCString k t) else "range"
      | _, _ => "bad-op"
    | ["rt", k, a] => match k.toNat? >>= fmtOf, a.toInt? with
      | some k, some t => if inRange t then resStr (parse (toUTCString k t)) else "range"
      | _, _ => "bad-op"
    | ["parse", h] => match unhex h with
      | some b => resStr (parse b)
      | none => "bad-op"
    | ["parsefmt", h, f] => match unhex h, unhex f with
      | some b, some fm => resStr (parseFmt b fm)
      | _, _ => "bad-op"
    | ["inst", a] => match a.toInt? with
      | some t => if inRange t then instLine t ++ " or=ok" else "range"
      | none => "bad-op"
    | ["scan", a, n, s, st] => match a.toInt?, n.toNat?, s.toInt?, st.toInt? with
      | some d0, some n, some sod, some st =>
        if 1 ≤ st && st ≤ 1000 && -719162 ≤ d0 && d0 + st * ((n : Int) - 1) ≤ 2932896 && n ≤ 100000 && 0 ≤ sod && sod < 86400
        then s!"ok {scanHash d0 n sod st}" else "range"
      | _, _, _, _ => "bad-op"
    | ["oscan", a, n, s, st] => match a.toInt?, n.toNat?, s.toInt?, st.toInt? with
      | some d0, some n, some sod, some st =>
        if 1 ≤ st && st ≤ 1000 && -719162 ≤ d0 && d0 + st * ((n : Int) - 1) ≤ 2932896 && n ≤ 100000 && 0 ≤ sod && sod < 86400
        then "ok" else "range"
      | _, _, _, _ => "bad-op"
    | ["osecs", a, s, n] => match a.toInt?, s.toInt?, n.toNat? with
      | some day, some s0, some n => if dayInRange day && 0 ≤ s0 && s0 + n ≤ 86400 then "ok" else "range"
      | _, _, _ => "bad-op"
    | ["secs", a, s, n] => match a.toInt?, s.toInt?, n.toNat? with
      | some day, some s0, some n =>
        if dayInRange day && 0 ≤ s0 && s0 + n ≤ 86400 then s!"ok {secsHash day s0 n}" else "range"
      | _, _, _ => "bad-op"
    | _ => "bad-op"
  ((), r)

end Driver.C19

def main : IO Unit := Driver.loop () Driver.C19.step
