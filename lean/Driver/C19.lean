import Driver.Common
import AslModel.Date
/-! Model driver for C19 (Date). Ops: see harness/c19.cpp (same lines, same output). -/
open Driver AslModel AslModel.Date

namespace Driver.C19

def decBytes (v : Int) : Bytes := (toString v).toUTF8.toList

def str (b : Bytes) : String := String.ofList (b.map fun c => Char.ofNat c.toNat)

def fmtOf (k : Nat) : Option Fmt :=
  match k with
  | 0 => some .long | 1 => some .short | 2 => some .dateOnly | 3 => some .http | 4 => some .full | _ => none

def timeStr : Option Int → String
  | none => "nan"
  | some t => toString t

def resStr : ParseResult → String
  | none => "oob"
  | some r => timeStr r

def fieldsStr (f : Fields) : String :=
  s!"{f.year} {f.month} {f.day} {f.hours} {f.minutes} {f.seconds} {f.weekDay}"

/-- everything observable about one instant (microseconds); `instu`/`inst` print it, `scan`/`secs` hash it -/
def instLineU (u : Int) : String :=
  let f := calcU u
  let mk := constructF f
  -- `toUTCStringU k u = fmtFields k (calcU u) (roundMs u % 1000).toNat` by definition; the fields are computed once
  let ms := (roundMs u % 1000).toNat
  let l := fmtFields .long f ms
  let s := fmtFields .short f ms
  let d := fmtFields .dateOnly f ms
  let h := fmtFields .http f ms
  let fu := fmtFields .full f ms
  s!"f={fieldsStr f} mk={timeStr mk} L={str l} S={str s} D={str d} H={str h} F={str fu} rt={resStr (parse l)} {resStr (parse s)} {resStr (parse h)} {resStr (parse fu)}"

def fnv (h : UInt64) (s : String) : UInt64 :=
  s.toUTF8.foldl (fun h b => (h ^^^ b.toUInt64) * 1099511628211) h

def instLine (t : Int) : String := instLineU (t * 1000)

/-- microsecond offset of the scanned instant of a day: mode 0 = the exact second, 1 = a day-dependent whole
millisecond, 2 = 100..900 µs *before* the second (never the 500 µs tie) -/
def usOfDay (day : Int) (mode : Nat) : Int :=
  match mode with
  | 0 => 0
  | 1 => (day * 7919) % 1000 * 1000
  | _ => - ([100, 200, 300, 700, 800, 900].getD ((day * 7919) % 6).toNat 100)

/-- hash over the instants `(day*86400 + sod)*10^6 + usOfDay day mode`, `day = d0, d0+st, ..` (instants that round
outside years 1..9999 are skipped) -/
def scanHash (d0 : Int) (n : Nat) (sod : Int) (st : Int) (mode : Nat) : UInt64 := Id.run do
  let mut h : UInt64 := 14695981039346656037
  for i in [0:n] do
    let day := d0 + st * i
    let u := (day * 86400 + sod) * 1000000 + usOfDay day mode
    if inRange (roundMs u) then
      h := fnv h (instLineU u)
  return h

/-- hash over the seconds `s0 .. s0+n-1` of `day` -/
def secsHash (day : Int) (s0 : Int) (n : Nat) : UInt64 := Id.run do
  let mut h : UInt64 := 14695981039346656037
  for i in [0:n] do
    h := fnv h (instLine ((day * 86400 + s0 + i) * 1000))
  return h

def dayInRange (d : Int) : Bool := -719162 ≤ d && d ≤ 2932896

def scanOp (oracleOnly : Bool) (a n s st md : String) : String :=
  match a.toInt?, n.toNat?, s.toInt?, st.toInt?, md.toNat? with
  | some d0, some n, some sod, some st, some md =>
    if 1 ≤ st && st ≤ 1000 && -719162 ≤ d0 && d0 + st * ((n : Int) - 1) ≤ 2932896 && n ≤ 100000 && 0 ≤ sod && sod < 86400 && md ≤ 2
    then (if oracleOnly then "ok" else s!"ok {scanHash d0 n sod st md}") else "range"
  | _, _, _, _, _ => "bad-op"

def step (_ : Unit) (ts : List String) : Unit × String :=
  let r : String := match ts with
    | ["split", a] => match a.toInt? with
      | some t => if inRange t then fieldsStr (calcF t) else "range"
      | none => "bad-op"
    | ["make", y, m, d, h, mi, s] =>
      match y.toInt?, m.toInt?, d.toInt?, h.toInt?, mi.toInt?, s.toInt? with
      | some y, some m, some d, some h, some mi, some s => timeStr (construct y m d h mi s)
      | _, _, _, _, _, _ => "bad-op"
    | ["fmt", k, a] => match k.toNat? >>= fmtOf, a.toInt? with
      | some k, some t => if inRange t then hex (toUTCString k t) else "range"
      | _, _ => "bad-op"
    | ["rt", k, a] => match k.toNat? >>= fmtOf, a.toInt? with
      | some k, some t => if inRange t then resStr (parse (toUTCString k t)) else "range"
      | _, _ => "bad-op"
    | ["parse", h] => match unhex h with
      | some b => resStr (parse b)
      | none => "bad-op"
    | ["parsefmt", h, f] => match unhex h, unhex f with
      | some b, some fm => resStr (parseFmt b fm)
      | _, _ => "bad-op"
    | ["inst", a] => match a.toInt? with
      | some t => if inRange t then instLine t ++ " or=ok" else "range"
      | none => "bad-op"
    | ["instu", a] => match a.toInt? with
      | some u => if inRange (roundMs u) then instLineU u ++ " or=ok" else "range"
      | none => "bad-op"
    | ["tieu", a] => match a.toInt? with
      | some u => if inRange (u / 1000) && inRange (u / 1000 + 1) then "ok" else "range"
      | none => "bad-op"
    | ["rtp", h] => match unhex h with
      | some b => match parse b with
        | none => "oob"
        | some none => "nan"
        | some (some t) => if -62135596800000 < t && t < 253402300799999 then "ok" else "range"
      | none => "bad-op"
    | ["dbl", a] => match a.toInt? with
      | some ms =>
        if inRange ms then
          let d := toDouble ms
          let c := normD 64 d.1 d.2
          s!"{c.1} {c.2} {roundMsD d} {fieldsStr (calcD ms)} {str (toUTCStringD .full ms)}"
        else "range"
      | none => "bad-op"
    | ["addsec", a, b] => match a.toInt?, b.toInt? with
      | some ms, some sec =>
        if inRange ms && inRange (ms + 1000 * sec) then
          let d := addSecD (toDouble ms) sec
          let c := normD 64 d.1 d.2
          s!"{c.1} {c.2} {roundMsD d} {fieldsStr (calcF (roundMsD d))} {str (toUTCString .full (roundMsD d))}"
        else "range"
      | _, _ => "bad-op"
    | ["diff", a, b] => match a.toInt?, b.toInt? with
      | some m1, some m2 =>
        if inRange m1 && inRange m2 then
          let d := diffD (toDouble m1) (toDouble m2)
          let c := normD 64 d.1 d.2
          s!"{c.1} {c.2} {roundMsD d}"
        else "range"
      | _, _ => "bad-op"
    | ["cmp", a, b] => match a.toInt?, b.toInt? with
      | some m1, some m2 =>
        if inRange m1 && inRange m2 then
          let lt := ltD (toDouble m1) (toDouble m2)
          let gt := ltD (toDouble m2) (toDouble m1)
          s!"lt={if lt then 1 else 0} le={if gt then 0 else 1} gt={if gt then 1 else 0}"
        else "range"
      | _, _ => "bad-op"
    | ["splitu", a] => match a.toInt? with
      | some u => if inRange (roundMs u) then fieldsStr (calcU u) else "range"
      | none => "bad-op"
    | ["fmtu", k, a] => match k.toNat? >>= fmtOf, a.toInt? with
      | some k, some u => if inRange (roundMs u) then hex (toUTCStringU k u) else "range"
      | _, _ => "bad-op"
    | ["scan", a, n, s, st] => scanOp false a n s st "1"
    | ["scan", a, n, s, st, md] => scanOp false a n s st md
    | ["oscan", a, n, s, st] => scanOp true a n s st "1"
    | ["oscan", a, n, s, st, md] => scanOp true a n s st md
    | ["osecs", a, s, n] => match a.toInt?, s.toInt?, n.toNat? with
      | some day, some s0, some n => if dayInRange day && 0 ≤ s0 && s0 + n ≤ 86400 then "ok" else "range"
      | _, _, _ => "bad-op"
    | ["secs", a, s, n] => match a.toInt?, s.toInt?, n.toNat? with
      | some day, some s0, some n =>
        if dayInRange day && 0 ≤ s0 && s0 + n ≤ 86400 then s!"ok {secsHash day s0 n}" else "range"
      | _, _, _ => "bad-op"
    | _ => "bad-op"
  ((), r)

end Driver.C19

def main : IO Unit := Driver.loop () Driver.C19.step
