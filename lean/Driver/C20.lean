import Driver.Common
import AslModel.Fld
import AslModel.Solve
import Gen.Matrix4Gen
import Gen.Matrix3Gen
import Gen.QuatGen
import Gen.Vec3Gen
import Gen.EulerGen
import Gen.AxisAngleGen
/-! Model driver for C20: the generated closed forms and the `solve_` model evaluated over the prime field 2^61-1. -/
open Driver AslModel

namespace Driver.C20

abbrev F := Fp.fld
abbrev C := Fp.cmp
abbrev T := Fp.trig

def nums (ts : List String) : Option (Array Nat) :=
  (ts.mapM fun (s : String) => s.toNat?.map (· % Fp.P)).map List.toArray

def matOf (n : Nat) (v : Array Nat) (off : Nat := 0) : Nat → Nat → Nat :=
  fun i j => v.getD (off + n * i + j) 0

def show2 (r c : Nat) (m : Nat → Nat → Nat) : String :=
  " ".intercalate ((List.range r).flatMap fun i => (List.range c).map fun j => toString (m i j))

def quatOf (v : Array Nat) (off : Nat := 0) : Quat Nat := ⟨v.getD off 0, v.getD (off + 1) 0, v.getD (off + 2) 0, v.getD (off + 3) 0⟩
def showQ (q : Quat Nat) : String := s!"{q.w} {q.x} {q.y} {q.z}"
def v3Of (v : Array Nat) (off : Nat) : V3 Nat := ⟨v.getD off 0, v.getD (off + 1) 0, v.getD (off + 2) 0⟩
def showV3 (p : V3 Nat) : String := s!"{p.x} {p.y} {p.z}"

def pick : (Nat → Nat) → Nat → Nat → Nat := Solve.pivotSearch F C

def dense (r c : Nat) (v : Array Nat) (off : Nat) : Solve.Mat Nat :=
  let g := fun i j => v.getD (off + c * i + j) 0
  ⟨r, c, Solve.look (Solve.tab r c g) g⟩

def showMat (m : Solve.Mat Nat) : String :=
  let body := show2 m.rows m.cols m.e
  if body.isEmpty then s!"{m.rows} {m.cols}" else s!"{m.rows} {m.cols} {body}"

def isHex16 (s : String) : Bool :=
  s.length == 16 && s.all fun c => c.isDigit || ('a' ≤ c && c ≤ 'f') || ('A' ≤ c && c ≤ 'F')

def validOrder (s : String) : Bool :=
  match s.toList with
  | [a, b, c] => "XYZ".contains a && "XYZ".contains b && "XYZ".contains c && a != b && b != c
  | [a, b, c, d] => "XYZ".contains a && "XYZ".contains b && "XYZ".contains c && a != b && b != c && d == '*'
  | _ => false

/-- numeric (float/double) clauses: the model of these ops is "the stated residual bound holds", i.e. `ok`;
only the well-formedness of the line is decided here, exactly as in the harness -/
def stepF (op : String) (args : List String) : String :=
  let hexOk (l : List String) (n : Nat) : Bool := l.length == n && l.all isHex16
  if op == "f4inv" then (if hexOk args 16 then "ok" else "bad-op")
  else if op == "f3inv" then (if hexOk args 9 then "ok" else "bad-op")
  else if op == "frot" then (if hexOk args 4 then "ok" else "bad-op")
  else if op == "faxis" then (if hexOk args 3 then "ok" else "bad-op")
  else if op == "feuler" then
    match args with
    | o :: rest => if validOrder o && hexOk rest 3 then "ok" else "bad-op"
    | _ => "bad-op"
  else if op == "fsolve" then
    match args with
    | r :: c :: m :: rest =>
      match r.toNat?, c.toNat?, m.toNat? with
      | some r, some c, some m =>
        if r < 1 || c < 1 || m < 1 || r > 64 || c > r || m > 16 then "bad-op"
        else if hexOk rest (r * c + r * m) then "ok" else "bad-op"
      | _, _, _ => "bad-op"
    | _ => "bad-op"
  else "bad-op"

def step (_ : Unit) (ts : List String) : Unit × String :=
  let r : String := match ts with
    | op :: args =>
      if op.startsWith "f" then stepF op args else
      match nums args with
      | none => "bad-op"
      | some v =>
        let n := v.size
        if op == "m4det" && n == 16 then toString (Gen.M4.det F (matOf 4 v))
        else if op == "m4inv" && n == 16 then show2 4 4 (Gen.M4.inverse F (matOf 4 v))
        else if op == "m4invchk" && n == 16 then show2 4 4 (Gen.M4.mul F (matOf 4 v) (Gen.M4.inverse F (matOf 4 v)))
        else if op == "m4mul" && n == 32 then show2 4 4 (Gen.M4.mul F (matOf 4 v) (matOf 4 v 16))
        else if op == "m4tr" && n == 16 then show2 4 4 (Gen.M4.transposed F (matOf 4 v))
        else if op == "m4v4" && n == 20 then
          let p := Gen.M4.mulVec4 F (matOf 4 v) ⟨v.getD 16 0, v.getD 17 0, v.getD 18 0, v.getD 19 0⟩
          s!"{p.x} {p.y} {p.z} {p.w}"
        else if op == "m4v3" && n == 19 then showV3 (Gen.M4.mulVec3 F (matOf 4 v) (v3Of v 16))
        else if op == "m4mod" && n == 19 then showV3 (Gen.M4.modVec3 F (matOf 4 v) (v3Of v 16))
        else if op == "m4rot" && n == 16 then showQ (Gen.M4.rotation F C (matOf 4 v))
        else if op == "m3det" && n == 9 then toString (Gen.M3.det F (matOf 3 v))
        else if op == "m3inv" && n == 9 then show2 3 3 (Gen.M3.inverse F (matOf 3 v))
        else if op == "m3invchk" && n == 9 then show2 3 3 (Gen.M3.mul F (matOf 3 v) (Gen.M3.inverse F (matOf 3 v)))
        else if op == "m3mul" && n == 18 then show2 3 3 (Gen.M3.mul F (matOf 3 v) (matOf 3 v 9))
        else if op == "m3tr" && n == 9 then show2 3 3 (Gen.M3.transposed F (matOf 3 v))
        else if op == "m3v3" && n == 12 then showV3 (Gen.M3.mulVec3 F (matOf 3 v) (v3Of v 9))
        else if op == "v3cross" && n == 6 then showV3 (Gen.V3.cross F (v3Of v 0) (v3Of v 3))
        else if op == "v3dot" && n == 6 then toString (Gen.V3.dot F (v3Of v 0) (v3Of v 3))
        else if op == "v3lin" && n == 7 then
          showV3 (Gen.V3.sub F (Gen.V3.add F (v3Of v 0) (Gen.V3.smul F (v3Of v 3) (v.getD 6 0))) (v3Of v 3))
        else if op == "v3len2" && n == 3 then toString (Gen.V3.length2 F (v3Of v 0))
        else if op == "qfaa" && n == 4 then showQ (Gen.AA.fromAxisAngle F C T (v3Of v 0) (v.getD 3 0))
        else if op == "qfaau" && n == 4 then showQ (Gen.AA.fromAxisAngleU F T (v3Of v 0) (v.getD 3 0))
        else if op == "qfrv" && n == 3 then showQ (Gen.AA.fromRotVec F C T (v3Of v 0))
        else if op == "qangle" && n == 4 then toString (Gen.AA.angle F C T (quatOf v))
        else if op == "qaxang" && n == 4 then showV3 (Gen.AA.axisAngle F C T (quatOf v))
        else if op == "qaart" && n == 4 then show2 4 4 (Gen.Q.matrix F (Gen.AA.fromRotVec F C T (Gen.AA.axisAngle F C T (quatOf v))))
        else if op == "m4rotaa" && n == 4 then show2 4 4 (Gen.AA.rotateAA F C T (v3Of v 0) (v.getD 3 0))
        else if op == "m4rotv" && n == 3 then show2 4 4 (Gen.AA.rotateVec F C T (v3Of v 0))
        else if op == "m4axang" && n == 16 then showV3 (Gen.AA.matAxisAngle F C T (matOf 4 v))
        else if op == "m4rote" && n == 6 then
          show2 4 4 (Gen.M4.rotateE F T (v3Of v 0) (v.getD 3 0 % 3) (v.getD 4 0 % 3) (v.getD 5 0 % 3))
        else if op == "m4euler" && n == 19 then
          let a0 := v.getD 16 0 % 3
          let a1 := (a0 + 1 + v.getD 17 0 % 2) % 3
          showV3 (Gen.M4.eulerAngles F C T 7 (matOf 4 v) a0 a1 (v.getD 18 0 % 3))
        else if op == "qmat" && n == 4 then show2 4 4 (Gen.Q.matrix F (quatOf v))
        else if op == "qmul" && n == 8 then showQ (Gen.Q.mul F (quatOf v) (quatOf v 4))
        else if op == "qconj" && n == 4 then showQ (Gen.Q.conj F (quatOf v))
        else if op == "qinv" && n == 4 then showQ (Gen.Q.inverse F (quatOf v))
        else if op == "qlen2" && n == 4 then toString (Gen.Q.length2 F (quatOf v))
        else if op == "qdot" && n == 8 then toString (Gen.Q.dot F (quatOf v) (quatOf v 4))
        else if op == "qrotrt" && n == 4 then
          show2 4 4 (Gen.Q.matrix F (Gen.M4.rotation F C (Gen.Q.matrix F (quatOf v))))
        else if op == "solve" && n ≥ 3 then
          let r := v.getD 0 0; let c := v.getD 1 0; let m := v.getD 2 0
          if r > 64 || c > 64 || m > 64 || n != 3 + r * c + r * m then "bad-op"
          else showMat (Solve.solve F pick (dense r c v 3) (dense r m v (3 + r * c)))
        else if op == "minv" && n ≥ 1 then
          let r := v.getD 0 0
          if r > 64 || n != 1 + r * r then "bad-op"
          else showMat (Solve.inverse F pick (dense r r v 1))
        else if op == "mmul" && n ≥ 3 then
          let r := v.getD 0 0; let c := v.getD 1 0; let m := v.getD 2 0
          if r > 64 || c > 64 || m > 64 || n != 3 + r * c + c * m then "bad-op"
          else showMat (Solve.mul F (dense r c v 3) (dense c m v (3 + r * c)))
        else if op == "mtmul" && n ≥ 3 then
          let r := v.getD 0 0; let c := v.getD 1 0; let m := v.getD 2 0
          if r > 64 || c > 64 || m > 64 || n != 3 + r * c + r * m then "bad-op"
          else showMat (Solve.tmul F (dense r c v 3) (dense r m v (3 + r * c)))
        else "bad-op"
    | [] => "bad-op"
  ((), r)

end Driver.C20

def main : IO Unit := Driver.loop () Driver.C20.step
