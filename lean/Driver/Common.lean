/-! Line-protocol plumbing shared by all model drivers (core Lean only). -/
namespace Driver

def hexVal (c : Char) : Option Nat :=
  if '0' ≤ c ∧ c ≤ '9' then some (c.toNat - '0'.toNat)
  else if 'a' ≤ c ∧ c ≤ 'f' then some (c.toNat - 'a'.toNat + 10)
  else if 'A' ≤ c ∧ c ≤ 'F' then some (c.toNat - 'A'.toNat + 10)
  else none

def unhexAux : List Char → Option (List UInt8)
  | [] => some []
  | a :: b :: t => do
      let x ← hexVal a
      let y ← hexVal b
      let r ← unhexAux t
      pure (UInt8.ofNat (x * 16 + y) :: r)
  | [_] => none

/-- `-` encodes the empty byte string -/
def unhex (s : String) : Option (List UInt8) :=
  if s = "-" then some [] else unhexAux s.toList

def hexDigit (n : Nat) : Char :=
  if n < 10 then Char.ofNat (n + '0'.toNat) else Char.ofNat (n - 10 + 'a'.toNat)

def hex (bs : List UInt8) : String :=
  if bs.isEmpty then "-" else
  String.ofList (bs.flatMap fun b => [hexDigit (b.toNat / 16), hexDigit (b.toNat % 16)])

def toks (line : String) : List String :=
  (line.trimAscii.toString.splitOn " ").filter (· ≠ "")

partial def loopAux {σ : Type} (init : σ) (step : σ → List String → σ × String)
    (hin hout : IO.FS.Stream) (st : σ) : IO Unit := do
  let line ← hin.getLine
  if line.isEmpty then
    hout.flush
    return ()
  match toks line with
  | "case" :: _ =>
    hout.putStrLn "case"
    loopAux init step hin hout init
  | [] =>
    hout.putStrLn "bad-op"
    loopAux init step hin hout st
  | ts =>
    let (st', out) := step st ts
    hout.putStrLn out
    loopAux init step hin hout st'

def loop {σ : Type} (init : σ) (step : σ → List String → σ × String) : IO Unit := do
  let hin ← IO.getStdin
  let hout ← IO.getStdout
  loopAux init step hin hout init

end Driver
