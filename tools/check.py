#!/usr/bin/env python3
"""Single entry point of the aslze/asl verification machinery.

  python3 tools/check.py --setup                 build Lean project + drivers + library once
  python3 tools/check.py C15 --tier quick        decide one property on /repo's current working tree
  python3 tools/check.py C15 --tier thorough
  python3 tools/check.py C15 --replay replays/x.json

Exit 0: property held on everything explored (theorems checked, axioms clean, correspondence held).
Exit 1: a line `VIOLATION property=<id> replay=<path>[ no-failing-input-found]` was printed.
Exit 2: the machinery itself could not run (e.g. /repo does not compile).
"""
import argparse
import importlib
import json
import os
import random
import sys
import time
import traceback

# generators must depend on VERIF_SEED only: python randomises str/bytes hashes per process (set iteration order)
if os.environ.get("PYTHONHASHSEED") != "0":
    os.environ["PYTHONHASHSEED"] = "0"
    os.execv(sys.executable, [sys.executable] + sys.argv)

sys.path.insert(0, os.path.dirname(os.path.abspath(__file__)))
from lib import core  # noqa: E402
from lib.core import log  # noqa: E402
from lib import engine  # noqa: E402

ALL = ["C%02d" % i for i in range(1, 21)]


def load(pid):
    return importlib.import_module("props." + pid.lower())


def available():
    out = []
    for p in ALL:
        if os.path.exists(os.path.join(core.ROOT, "tools", "props", p.lower() + ".py")):
            out.append(p)
    return out


def setup():
    """warm the caches (Lean project, model drivers, sanitizer build of the library).  Never decides anything: a module
    that does not build from the definitions regenerated from /repo's current tree (a broken proof obligation) or a
    library that does not compile is reported by the check of the property concerned, so setup only warns about it."""
    t0 = time.time()
    try:
        engine.regen_all(available())
    except Exception as e:
        print("setup: warning: regeneration failed (%r); the checks concerned will report it" % (e,))
    rc, out = core.lake(["build", "AslModel", "Gen", "AslProofs", "AslProps"] + ["asl_" + load(p).DRIVER for p in available()])
    if rc != 0:
        print(out[-3000:])
        print("setup: warning: lake build reported failures; the checks of the properties concerned will report them")
    try:
        core.build_lib("asan")
    except core.BuildError as e:
        print(str(e)[-3000:])
        print("setup: warning: the library does not build from /repo's working tree; every check will report it")
    log("[setup] done in %.0fs" % (time.time() - t0))
    return 0


def main():
    ap = argparse.ArgumentParser()
    ap.add_argument("prop", nargs="?")
    ap.add_argument("--setup", action="store_true")
    ap.add_argument("--tier", default=os.environ.get("VERIF_TIER", "quick"), choices=["quick", "thorough"])
    ap.add_argument("--replay")
    ap.add_argument("--seed", type=int, default=None)
    a = ap.parse_args()
    if a.setup:
        sys.exit(setup())
    if not a.prop:
        ap.error("property id required")
    pid = a.prop.upper()
    seed = a.seed if a.seed is not None else int(os.environ.get("VERIF_SEED", "1"))
    plugin = load(pid)
    try:
        if a.replay:
            rc = engine.replay(plugin, pid, a.replay)
        else:
            rc = engine.check(plugin, pid, a.tier, seed)
    except core.BuildError as e:
        print("ERROR: cannot build from /repo's working tree:\n" + str(e))
        rc = 2
    except Exception:
        traceback.print_exc()
        rc = 2
    sys.exit(rc)


if __name__ == "__main__":
    main()
