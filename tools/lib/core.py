"""Shared machinery for the aslze/asl Lean-4 verification checks.

Everything here is driven from tools/check.py.  Paths are derived from this
file's location so the same code runs from /verif or from a `vp run` snapshot.
"""
import fcntl
import glob
import hashlib
import json
import os
import re
import shutil
import subprocess
import sys
import time

ROOT = os.path.dirname(os.path.dirname(os.path.dirname(os.path.abspath(__file__))))
REPO = os.environ.get("ASL_REPO", "/repo")
LEAN = os.path.join(ROOT, "lean")
BUILD = os.path.join(ROOT, ".build")
# runs against a scratch copy of the repository (ASL_REPO=...; mutation experiments) must not overwrite the real evidence
_SCRATCH = os.path.realpath(REPO) != "/repo"
EVID = os.path.join(ROOT, "evidence") if not _SCRATCH else os.path.join("/tmp", "verif-scratch", "evidence")
REPLAYS = os.path.join(ROOT, "replays") if not _SCRATCH else os.path.join("/tmp", "verif-scratch", "replays")
NCPU = os.cpu_count() or 4

ALLOWED_AXIOMS = {"propext", "Classical.choice", "Quot.sound"}

SAN_FLAGS = [
    "-fsanitize=address",
    "-fsanitize=bounds,null,alignment,object-size,pointer-overflow,vptr,return,unreachable",
    "-fno-sanitize-recover=all",
    "-fno-omit-frame-pointer",
]
BASE_FLAGS = ["-std=c++11", "-O1", "-g", "-DASL_VERIF", "-DASL_STATIC", "-w"]
# the library's own build (CMakeLists.txt: -O3), hooks off, no sanitizer: what users run
PROD_FLAGS = ["-std=c++11", "-O3", "-DASL_STATIC", "-w"]


def log(*a):
    print(*a, file=sys.stderr, flush=True)


class Lock:
    def __init__(self, name):
        os.makedirs(BUILD, exist_ok=True)
        self.path = os.path.join(BUILD, name + ".lock")

    def __enter__(self):
        self.f = open(self.path, "w")
        fcntl.flock(self.f, fcntl.LOCK_EX)
        return self

    def __exit__(self, *a):
        fcntl.flock(self.f, fcntl.LOCK_UN)
        self.f.close()


def sha_files(paths, extra=""):
    h = hashlib.sha256()
    h.update(extra.encode())
    for p in sorted(paths):
        h.update(p.encode())
        with open(p, "rb") as f:
            h.update(f.read())
    return h.hexdigest()[:16]


def repo_sources():
    fs = glob.glob(os.path.join(REPO, "include", "asl", "*.h")) + glob.glob(os.path.join(REPO, "src", "*.cpp"))
    return sorted(fs)


def tree_hash():
    return sha_files(repo_sources())


def _prune(prefix, keep):
    """keep only the newest `keep` build dirs with this prefix"""
    ds = sorted(glob.glob(os.path.join(BUILD, prefix + "-*")), key=os.path.getmtime)
    now = time.time()
    for d in ds[:-keep]:
        # never remove a build another concurrent check may be about to link against
        if now - os.path.getmtime(d) > 1800:
            shutil.rmtree(d, ignore_errors=True)


def build_lib(kind="asan"):
    """Build libasl from the current /repo working tree with hooks on.
    kind: asan | tsan | plain.  Returns (libdir, tree_hash).  Raises BuildError."""
    th = tree_hash()
    flags = list(BASE_FLAGS)
    if kind == "asan":
        flags += SAN_FLAGS
    elif kind == "tsan":
        flags += ["-fsanitize=thread", "-fno-omit-frame-pointer"]
    elif kind == "prod":
        flags = list(PROD_FLAGS)
    key = hashlib.sha256((th + " ".join(flags)).encode()).hexdigest()[:16]
    d = os.path.join(BUILD, "lib%s-%s" % (kind, key))
    lib = os.path.join(d, "libasl.a")
    with Lock("lib" + kind):
        if os.path.exists(lib):
            os.utime(d)
            return d, th
        shutil.rmtree(d, ignore_errors=True)
        os.makedirs(d)
        srcs = [s for s in glob.glob(os.path.join(REPO, "src", "*.cpp")) if not s.endswith("TlsSocket.cpp")]
        procs = []
        t0 = time.time()
        objs = []
        errs = []
        # simple parallel compile
        pending = list(srcs)
        running = []
        while pending or running:
            while pending and len(running) < NCPU:
                s = pending.pop()
                o = os.path.join(d, os.path.basename(s)[:-4] + ".o")
                objs.append(o)
                cmd = ["g++"] + flags + ["-I", os.path.join(REPO, "include"), "-c", s, "-o", o]
                running.append((s, subprocess.Popen(cmd, stdout=subprocess.PIPE, stderr=subprocess.STDOUT)))
            s, p = running.pop(0)
            out, _ = p.communicate()
            if p.returncode != 0:
                errs.append((s, out.decode(errors="replace")))
        if errs:
            shutil.rmtree(d, ignore_errors=True)
            raise BuildError("library does not compile: " + errs[0][0] + "\n" + errs[0][1][-3000:])
        subprocess.check_call(["ar", "rcs", lib] + objs)
        for o in objs:
            os.remove(o)
        log("[build] libasl (%s) built in %.1fs -> %s" % (kind, time.time() - t0, d))
        _prune("lib" + kind, 3)
    return d, th


class BuildError(Exception):
    pass


def build_harness(name, libdir, kind="asan", extra_srcs=(), extra_flags=()):
    """Compile harness/<name>.cpp against the freshly built library."""
    src = os.path.join(ROOT, "harness", name + ".cpp")
    deps = [src, os.path.join(ROOT, "harness", "common.h")] + [os.path.join(ROOT, "harness", e) for e in extra_srcs]
    deps += glob.glob(os.path.join(ROOT, "harness", "*.h"))
    flags = list(BASE_FLAGS)
    if kind == "asan":
        flags += SAN_FLAGS
    elif kind == "tsan":
        flags += ["-fsanitize=thread", "-fno-omit-frame-pointer"]
    elif kind == "prod":
        flags = list(PROD_FLAGS)
    flags += list(extra_flags)
    key = sha_files(set(deps), os.path.basename(libdir) + " ".join(flags))
    d = os.path.join(BUILD, "h%s-%s" % (name, key))
    exe = os.path.join(d, name)
    with Lock("h" + name):
        if os.path.exists(exe):
            os.utime(d)
            return exe
        shutil.rmtree(d, ignore_errors=True)
        os.makedirs(d)
        cmd = (["g++"] + flags + ["-I", os.path.join(REPO, "include"), "-I", os.path.join(ROOT, "harness"), src]
               + [os.path.join(ROOT, "harness", e) for e in extra_srcs if e.endswith(".cpp")]
               + [os.path.join(libdir, "libasl.a"), "-lpthread", "-ldl", "-o", exe])
        p = subprocess.run(cmd, stdout=subprocess.PIPE, stderr=subprocess.STDOUT)
        if p.returncode != 0:
            shutil.rmtree(d, ignore_errors=True)
            raise BuildError("harness %s does not compile against the current tree:\n%s" % (name, p.stdout.decode(errors="replace")[-4000:]))
        _prune("h" + name, 3)
    return exe


# ---------------------------------------------------------------- Lean side

def lake(args, timeout=1500):
    """lake under the project-wide lock; a build that runs away (time or memory) is killed with its children"""
    import signal
    import threading
    with Lock("lake"):
        p = subprocess.Popen(["lake"] + args, cwd=LEAN, stdout=subprocess.PIPE, stderr=subprocess.STDOUT, start_new_session=True)
        stop = threading.Event()
        killed = []

        def watchdog():
            t0 = time.time()
            while not stop.wait(5):
                over = time.time() - t0 > timeout
                try:
                    out = subprocess.run(["ps", "-o", "rss=", "-g", str(p.pid)], stdout=subprocess.PIPE).stdout.decode().split()
                    rss = sum(int(x) for x in out if x.isdigit())
                except Exception:
                    rss = 0
                if over or rss > 24 * 1024 * 1024:   # 24 GB resident
                    killed.append("timeout" if over else "memory (%d MB)" % (rss // 1024))
                    try:
                        os.killpg(p.pid, signal.SIGKILL)
                    except Exception:
                        pass
                    return
        th = threading.Thread(target=watchdog, daemon=True)
        th.start()
        out, _ = p.communicate()
        stop.set()
    txt = out.decode(errors="replace")
    if killed:
        return 1, txt + "\nerror: lake build killed by the watchdog: " + killed[0]
    return p.returncode, txt


def lake_env_lean(path, timeout=1800):
    # `lake env lean` only reads .olean files: no lock needed beyond build completion
    p = subprocess.run(["lake", "env", "lean", path], cwd=LEAN, stdout=subprocess.PIPE, stderr=subprocess.STDOUT, timeout=timeout)
    return p.returncode, p.stdout.decode(errors="replace")


def model_exe_for(driver):
    return os.path.join(LEAN, ".lake", "build", "bin", "asl_" + driver)


COMMENT_RE = re.compile(r"/-.*?-/", re.S)
LINE_COMMENT_RE = re.compile(r"--.*")
FORBIDDEN = re.compile(r"\b(sorry|admit|native_decide|bv_decide|implemented_by)\b|^\s*axiom\s|\bunsafe\s|maxHeartbeats\s+0\b", re.M)


def strip_comments(txt):
    txt = COMMENT_RE.sub("", txt)
    return LINE_COMMENT_RE.sub("", txt)


def scan_forbidden(files):
    hits = []
    for f in files:
        t = strip_comments(open(f).read())
        for m in FORBIDDEN.finditer(t):
            hits.append("%s: %s" % (os.path.relpath(f, ROOT), m.group(0).strip()))
    return hits


THEOREM_RE = re.compile(r"^\s*(?:@\[[^\]]*\]\s*)?(?:protected\s+|private\s+)?theorem\s+([A-Za-z_][\w.']*)", re.M)
NAMESPACE_RE = re.compile(r"^\s*namespace\s+([\w.]+)", re.M)


def theorems_in(path):
    """names of the theorems of a property file (qualified by its single top-level namespace, if any)"""
    t = strip_comments(open(path).read())
    ns = NAMESPACE_RE.search(t)
    pre = ns.group(1) + "." if ns else ""
    return [pre + n for n in THEOREM_RE.findall(t)]


def lean_imports_closure(path):
    """project-local .lean files reachable from `path` through imports"""
    seen = set()
    todo = [path]
    while todo:
        p = todo.pop()
        if p in seen or not os.path.exists(p):
            continue
        seen.add(p)
        for m in re.findall(r"^import\s+([\w.]+)", open(p).read(), re.M):
            q = os.path.join(LEAN, *m.split(".")) + ".lean"
            if os.path.exists(q):
                todo.append(q)
    return sorted(seen)


def audit_axioms(prop_id, theorems, module):
    """run #print axioms on every theorem; returns dict name -> set(axioms) or None if missing"""
    os.makedirs(os.path.join(LEAN, "Audit"), exist_ok=True)
    path = os.path.join(LEAN, "Audit", prop_id + ".lean")
    with open(path, "w") as f:
        f.write("import %s\n" % module)
        for t in theorems:
            f.write("#print axioms %s\n" % t)
    rc, out = lake_env_lean(path)
    res = {}
    # outputs: "'name' depends on axioms: [a, b]" or "'name' does not depend on any axioms"
    for m in re.finditer(r"'([^']+)' depends on axioms:\s*\[([^\]]*)\]", out, re.S):
        res[m.group(1)] = set(x.strip() for x in m.group(2).replace("\n", " ").split(",") if x.strip())
    for m in re.finditer(r"'([^']+)' does not depend on any axioms", out):
        res[m.group(1)] = set()
    return res, out, rc


# ---------------------------------------------------------------- running

def san_env():
    e = dict(os.environ)
    e["ASAN_OPTIONS"] = "detect_leaks=1:abort_on_error=0:exitcode=97:allocator_may_return_null=1:detect_stack_use_after_return=0:max_allocation_size_mb=2048"
    e["UBSAN_OPTIONS"] = "halt_on_error=1:print_stacktrace=1:exitcode=97"
    e["LSAN_OPTIONS"] = "exitcode=96"
    e["TSAN_OPTIONS"] = "exitcode=95:halt_on_error=0"
    return e


def crash_kind(stderr, rc):
    m = re.search(r"ERROR: AddressSanitizer: ([\w-]+)", stderr)
    if m:
        return "asan:" + m.group(1)
    m = re.search(r"ERROR: LeakSanitizer: detected memory leaks", stderr)
    if m:
        return "lsan:leak"
    m = re.search(r"runtime error: ([^\n]{0,80})", stderr)
    if m:
        return "ubsan:" + re.sub(r"[^\w]+", "-", m.group(1))[:50]
    if "WARNING: ThreadSanitizer" in stderr:
        return "tsan:race"
    if rc is None:
        return "hang"
    if rc < 0:
        return "signal:%d" % (-rc)
    return "exit:%d" % rc


def run_impl(exe, ops_lines, timeout=120, args=()):
    """run the harness on ops; returns (out_lines, crash or None, stderr)"""
    p = subprocess.Popen([exe] + list(args), stdin=subprocess.PIPE, stdout=subprocess.PIPE, stderr=subprocess.PIPE, env=san_env())
    data = ("\n".join(ops_lines) + "\n").encode()
    try:
        out, err = p.communicate(data, timeout=timeout)
        rc = p.returncode
    except subprocess.TimeoutExpired:
        p.kill()
        out, err = p.communicate()
        rc = None
    out_lines = out.decode(errors="replace").split("\n")
    if out_lines and out_lines[-1] == "":
        out_lines.pop()
    err = err.decode(errors="replace")
    crash = None
    if rc != 0:
        crash = crash_kind(err, rc)
    return out_lines, crash, err


def run_model(module, ops_lines, timeout=600):
    p = subprocess.run([model_exe_for(module)], input=("\n".join(ops_lines) + "\n").encode(),
                       stdout=subprocess.PIPE, stderr=subprocess.PIPE, timeout=timeout)
    out = p.stdout.decode(errors="replace").split("\n")
    if out and out[-1] == "":
        out.pop()
    if p.returncode != 0:
        raise RuntimeError("model driver failed: " + p.stderr.decode(errors="replace")[-2000:])
    return out


def hexs(b):
    if isinstance(b, str):
        b = b.encode("latin-1")
    return b.hex() if len(b) else "-"


def unhex(s):
    return b"" if s == "-" else bytes.fromhex(s)
