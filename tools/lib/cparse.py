"""Small helpers shared by the translators (tools/props/*.py `translate`)."""
import re

from .engine import TranslateError


def read(repo, rel):
    with open(repo + "/" + rel, encoding="latin-1") as f:
        return f.read()


def c_string_literal(lit):
    """bytes of a C string literal body (without the quotes)"""
    out = []
    i = 0
    while i < len(lit):
        c = lit[i]
        if c == "\\":
            i += 1
            e = lit[i]
            m = {"n": 10, "r": 13, "t": 9, "0": 0, "\\": 92, "'": 39, '"': 34, "f": 12, "b": 8, "v": 11, "a": 7}
            if e == "x":
                h = re.match(r"[0-9a-fA-F]+", lit[i + 1:]).group(0)
                out.append(int(h, 16) & 255)
                i += len(h)
            elif e in m:
                out.append(m[e])
            else:
                raise TranslateError("unknown escape \\" + e)
        else:
            out.append(ord(c))
        i += 1
    return out


def lean_u8_list(name, vals, per=16):
    rows = []
    for i in range(0, len(vals), per):
        rows.append("  " + ", ".join(str(v) for v in vals[i:i + per]))
    body = ",\n".join(rows)
    return "def %s : List UInt8 := [\n%s]\n" % (name, body)


def lean_nat_list(name, vals, per=16):
    rows = []
    for i in range(0, len(vals), per):
        rows.append("  " + ", ".join(str(v) for v in vals[i:i + per]))
    body = ",\n".join(rows)
    return "def %s : List Nat := [\n%s]\n" % (name, body)


def find_function(src, header_regex):
    """return the text of the brace-balanced body following the first match of header_regex"""
    m = re.search(header_regex, src)
    if not m:
        raise TranslateError("cannot locate " + header_regex)
    i = src.index("{", m.end() - 1) if src[m.end() - 1] != "{" else m.end() - 1
    depth = 0
    j = i
    while j < len(src):
        if src[j] == "{":
            depth += 1
        elif src[j] == "}":
            depth -= 1
            if depth == 0:
                return src[i:j + 1]
        j += 1
    raise TranslateError("unbalanced braces after " + header_regex)
