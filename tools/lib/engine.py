"""Generic check pipeline: G (regenerate) -> Lean build -> audit -> K (correspondence) -> verdict/evidence.

A property plugin (tools/props/cXX.py) provides:
  ID, PROPS_MODULE ("AslProps.C15"), DRIVER ("c15": lean exe asl_c15 + harness/c15.cpp), optional
  translate(repo) -> {relative Gen path: text}       (G; may raise TranslateError)
  gen(rng, tier) -> list of cases (each a list of op lines)
  nontrivial(case) -> bool
  TRUSTED, ASSUMPTIONS : lists of strings
  optional: oracle(case, impl_out, model_out, crash) -> (violated, clause)
            KNOWN = [ {key, desc, case:[lines]} ]     probes of known findings
            obligation_search(ctx, broken) -> optional failing input
            extra(ctx) -> list of Failure / stats      additional K passes (sockets, threads ...)
            HARNESS_KIND ("asan"), HARNESS_TIMEOUT
"""
import importlib
import json
import os
import random
import re
import subprocess
import time

from . import core
from .core import log


class TranslateError(Exception):
    pass


REF_COUNT = [0]   # lines judged by the plugin's independent reference in this run


class Failure:
    def __init__(self, kind, case, impl=None, model=None, crash=None, clause="", name="", stderr=""):
        self.kind = kind          # diverge | crash | obligation
        self.case = case          # list of op lines (the replay)
        self.impl = impl or []
        self.model = model or []
        self.crash = crash
        self.clause = clause
        self.name = name          # theorem / correspondence that no longer checks
        self.stderr = stderr
        self.has_input = True


def plugin_of(pid):
    return importlib.import_module("props." + pid.lower())


# ------------------------------------------------------------------ G

def regen(plugin):
    """regenerate this property's Gen/*.lean from /repo.  returns (ok, message)"""
    if not hasattr(plugin, "translate"):
        return True, ""
    os.makedirs(os.path.join(core.LEAN, "Gen"), exist_ok=True)
    try:
        files = plugin.translate(core.REPO)
    except TranslateError as e:
        # keep a buildable placeholder so that unrelated modules still compile
        for rel, text in getattr(plugin, "FALLBACK", {}).items():
            p = os.path.join(core.LEAN, rel)
            if not os.path.exists(p):
                with open(p, "w") as f:
                    f.write(text)
        return False, str(e)
    for rel, text in files.items():
        p = os.path.join(core.LEAN, rel)
        old = open(p).read() if os.path.exists(p) else None
        if old != text:
            with open(p, "w") as f:
                f.write(text)
    return True, ""


def regen_all(pids):
    with core.Lock("gen"):
        for pid in pids:
            pl = plugin_of(pid)
            ok, msg = regen(pl)
            if not ok:
                log("[gen] %s: %s" % (pid, msg))


# ------------------------------------------------------------------ K: line protocol

def flatten(cases):
    lines = []
    starts = []
    for i, c in enumerate(cases):
        starts.append(len(lines))
        lines.append("case %d" % i)
        lines.extend(c)
    return lines, starts


def case_of(starts, line_idx):
    import bisect
    return bisect.bisect_right(starts, line_idx) - 1


import threading
REF_LOCK = threading.RLock()


PROD = {"exe": None, "lines": 0, "fails": []}


def prod_compare(plugin, sub, lines, starts, impl):
    """the same op lines through the PRODUCTION build of the library (the repository's own -O3, hooks off, no sanitizer):
    it must answer exactly what the verification build answered (optimisation-dependent behaviour, code that only works
    because a hook call or a sanitizer changed it)"""
    exe = PROD["exe"]
    if exe is None or len(PROD["fails"]) >= 4:
        return
    flt = getattr(plugin, "PROD_CASE", None)
    if flt is not None:
        # only the cases that mean something without the hook points (free-running ops)
        keep = [k for k in range(len(sub)) if flt(sub[k])]
        if not keep:
            return
        impl2 = []
        for k in keep:
            e = starts[k + 1] if k + 1 < len(starts) else len(lines)
            impl2.extend(impl[starts[k]:e])
        sub = [sub[k] for k in keep]
        lines, starts = flatten(sub)
        impl = impl2
        if len(impl) != len(lines):
            return
    out, crash, err = core.run_impl(exe, lines, timeout=getattr(plugin, "HARNESS_TIMEOUT", 600))
    PROD["lines"] += min(len(out), len(lines))
    n = min(len(out), len(impl))
    k = None
    for i in range(n):
        if out[i] != impl[i]:
            k = case_of(starts, i)
            break
    if k is None and (crash is not None or len(out) < len(impl)):
        k = case_of(starts, min(len(out), len(lines) - 1))
    if k is None:
        return
    e = starts[k + 1] if k + 1 < len(starts) else len(lines)
    f = Failure("crash" if (crash and len(out) < e) else "diverge", sub[k], out[starts[k]:min(e, len(out))], impl[starts[k]:e],
                crash=("prod:" + crash) if (crash and len(out) < e) else None, stderr=(err or "")[-3000:],
                clause="the production build of the library (-O3, hooks off, no sanitizer) does not answer what the verification build "
                       "(which agrees with the model) answers on this input")
    f.name = "production-build pass K'(%s): harness/%s.cpp built with the library's own flags" % (plugin.ID, plugin.DRIVER)
    PROD["fails"].append(f)


def run_both(plugin, exe, cases, timeout):
    """returns list of Failure (unshrunk), number of cases fully validated"""
    fails = []
    validated = 0
    todo = list(range(len(cases)))
    budget = 6
    while todo and budget > 0:
        sub = [cases[i] for i in todo]
        lines, starts = flatten(sub)
        impl, crash, err = core.run_impl(exe, lines, timeout=timeout)
        model = core.run_model(plugin.DRIVER, lines, timeout=getattr(plugin, "MODEL_TIMEOUT", 3600))
        if len(model) != len(lines):
            raise RuntimeError("model driver produced %d lines for %d ops" % (len(model), len(lines)))
        n = min(len(impl), len(lines))
        bad_cases = set()
        i = 0
        ref = getattr(plugin, "reference", None)
        # batches are judged by parallel threads and a plugin's reference() may keep per-case state (the current
        # string, the stream's byte order ...): one batch at a time walks its lines, in order, under this lock
        REF_LOCK.acquire()
        try:
          while i < n:
              exp = None
              if ref is not None and impl[i] == model[i] and not lines[i].startswith("case"):
                  try:
                      exp = ref(lines[i])
                  except Exception:
                      exp = None
                  if exp is not None:
                      REF_COUNT[0] += 1
              if exp is not None and impl[i] != exp:
                  # model and implementation agree but an independent reference says both are wrong
                  k = case_of(starts, i)
                  if k not in bad_cases:
                      bad_cases.add(k)
                      e = starts[k + 1] if k + 1 < len(starts) else len(lines)
                      f = Failure("diverge", sub[k], impl[starts[k]:min(e, len(impl))], ["(reference) line %d: %s" % (i - starts[k], exp)],
                                  clause="independent reference (%s) disagrees with the implementation" % getattr(plugin, "REFERENCE_NAME", "python oracle"))
                      fails.append(f)
                      budget -= 1
                  i = starts[k + 1] if k + 1 < len(starts) else n
                  continue
              if impl[i] != model[i]:
                  k = case_of(starts, i)
                  if k not in bad_cases:
                      bad_cases.add(k)
                      e = starts[k + 1] if k + 1 < len(starts) else len(lines)
                      fails.append(Failure("diverge", sub[k], impl[starts[k]:min(e, len(impl))], model[starts[k]:e]))
                      budget -= 1
                  # skip to next case
                  i = starts[k + 1] if k + 1 < len(starts) else n
                  continue
              i += 1
        finally:
            REF_LOCK.release()
        if crash is None and len(impl) != len(lines):
            crash = "protocol:impl-printed-%d-lines-for-%d-ops" % (len(impl), len(lines))
        if crash is None:
            validated += len(sub) - len(bad_cases)
            if not bad_cases:
                try:
                    prod_compare(plugin, sub, lines, starts, impl)
                except Exception as e:
                    log("[prod] pass failed: %r" % e)
            break
        # crashed: which case?
        if len(impl) < len(lines):
            k = case_of(starts, len(impl))
            e = starts[k + 1] if k + 1 < len(starts) else len(lines)
            if k not in bad_cases:
                fails.append(Failure("crash", sub[k], impl[starts[k]:], model[starts[k]:e], crash=crash, stderr=err[-6000:]))
                budget -= 1
            validated += k - len([b for b in bad_cases if b < k])
            todo = todo[k + 1:]
        else:
            # failure reported at exit (leak, late abort): bisect to one case
            k = bisect_exit_failure(plugin, exe, sub, timeout)
            if k is None:
                fails.append(Failure("crash", [l for c in sub[:50] for l in (["case 0"] + c)][1:], crash=crash, stderr=err[-6000:]))
                break
            fails.append(Failure("crash", sub[k], crash=crash, stderr=err[-6000:]))
            budget -= 1
            todo = todo[:k] + todo[k + 1:]
    return fails, validated


def bisect_exit_failure(plugin, exe, cases, timeout):
    idx = list(range(len(cases)))
    def bad(ix):
        lines, _ = flatten([cases[i] for i in ix])
        impl, crash, err = core.run_impl(exe, lines, timeout=timeout)
        return crash is not None
    if not bad(idx):
        return None
    while len(idx) > 1:
        h = len(idx) // 2
        a, b = idx[:h], idx[h:]
        if bad(a):
            idx = a
        elif bad(b):
            idx = b
        else:
            return None
    return idx[0]


def fails_single(plugin, exe, case, timeout=30):
    """re-run one case on both sides; returns Failure or None"""
    lines, _ = flatten([case])
    impl, crash, err = core.run_impl(exe, lines, timeout=timeout)
    model = core.run_model(plugin.DRIVER, lines, timeout=getattr(plugin, "MODEL_TIMEOUT", 3600))
    if crash is not None:
        return Failure("crash", case, impl, model, crash=crash, stderr=err[-6000:])
    if impl != model:
        return Failure("diverge", case, impl, model)
    if hasattr(plugin, "reference"):
        for i, l in enumerate(lines):
            exp = None if l.startswith("case") else plugin.reference(l)
            if exp is not None and i < len(impl) and impl[i] != exp:
                return Failure("diverge", case, impl, ["(reference)"] + [exp], clause="independent reference disagrees with the implementation")
    return None


def shrink(plugin, exe, f, max_trials=150):
    """ddmin over op lines, keeping the failure kind"""
    case = list(f.case)
    best = f
    trials = 0
    keep_first = getattr(plugin, "SHRINK_KEEP_FIRST", 0)
    n = 2
    pure = getattr(plugin, "ORACLE_PURE", False) and hasattr(plugin, "oracle")
    def verdict(g):
        try:
            return bool(plugin.oracle(list(g.case), g.impl, g.model, g.crash)[0])
        except Exception:
            return False
    want = verdict(f) if pure else False
    def same(g):
        if g is None:
            return False
        if f.kind == "crash":
            return g.kind == "crash" and (g.crash or "").split(":")[0] == (f.crash or "").split(":")[0]
        if g.kind != "diverge":
            return False
        # a failure that breaks a clause of the property must keep breaking one while it is shrunk
        return verdict(g) if want else True
    while len(case) - keep_first >= 2 and trials < max_trials:
        body = case[keep_first:]
        chunk = max(1, len(body) // n)
        reduced = False
        for s in range(0, len(body), chunk):
            cand = case[:keep_first] + body[:s] + body[s + chunk:]
            if len(cand) == len(case):
                continue
            trials += 1
            try:
                g = fails_single(plugin, exe, cand)
            except Exception:
                g = None
            if same(g):
                case = cand
                best = g
                n = max(n - 1, 2)
                reduced = True
                break
            if trials >= max_trials:
                break
        if not reduced:
            if chunk == 1:
                break
            n = min(n * 2, len(body))
    # optional per-line simplification by the plugin
    if hasattr(plugin, "simplify_line"):
        progress = True
        while progress and trials < max_trials * 3:
            progress = False
            for i in range(len(case)):
                for cand_line in plugin.simplify_line(case[i]):
                    if trials >= max_trials * 3:
                        break
                    if cand_line == case[i]:
                        continue
                    cand = case[:i] + [cand_line] + case[i + 1:]
                    trials += 1
                    try:
                        g = fails_single(plugin, exe, cand)
                    except Exception:
                        g = None
                    if same(g):
                        case = cand
                        best = g
                        progress = True
                        break
    return best


# ------------------------------------------------------------------ verdict

def write_replay(pid, seed, k, f, tree, tier="quick"):
    os.makedirs(core.REPLAYS, exist_ok=True)
    path = os.path.join(core.REPLAYS, "%s-%s-%d-%d.json" % (pid, tier, seed, k))
    with open(path, "w") as fp:
        json.dump({
            "property": pid, "kind": f.kind, "lines": f.case, "impl": f.impl[:200], "model": f.model[:200],
            "crash": f.crash, "oracle": f.clause, "theorem_or_correspondence": f.name,
            "has_failing_input": f.has_input, "seed": seed, "tree_hash": tree,
            "stderr_tail": f.stderr[-3000:] if f.stderr else "",
        }, fp, indent=1)
    return path


def load_known(pid):
    """known_findings.txt: lines `known: property=C01 key=<k> <desc>` / `fixed: property=.. <commit> <desc>`"""
    path = os.path.join(core.ROOT, "known_findings.txt")
    known = {}
    if os.path.exists(path):
        for l in open(path):
            m = re.match(r"known:\s+property=(\w+)\s+key=(\S+)\s+(.*)", l.strip())
            if m and m.group(1) == pid:
                known[m.group(2)] = m.group(3)
    return known


def corpus_cases(pid):
    d = os.path.join(core.ROOT, "corpus", pid)
    out = []
    if os.path.isdir(d):
        for fn in sorted(os.listdir(d)):
            if fn.endswith(".ops"):
                lines = [l.rstrip("\n") for l in open(os.path.join(d, fn)) if l.strip() and not l.startswith("#")]
                # a corpus file may hold several cases separated by `case` lines
                cur = []
                for l in lines:
                    if l.startswith("case"):
                        if cur:
                            out.append(cur)
                        cur = []
                    else:
                        cur.append(l)
                if cur:
                    out.append(cur)
    return out


def lean_stage(plugin, pid, tier):
    """returns dict(obligations, discharged, broken:[(name,msg)], theorems, axioms, build_s)"""
    t0 = time.time()
    res = {"broken": [], "theorems": [], "axioms": {}, "checker": []}
    ok, msg = regen(plugin)
    if not ok:
        res["broken"].append(("translator:" + pid, msg))
    props_file = os.path.join(core.LEAN, *plugin.PROPS_MODULE.split(".")) + ".lean"
    theorems = core.theorems_in(props_file)
    res["theorems"] = theorems
    targets = [plugin.PROPS_MODULE, "asl_" + plugin.DRIVER]
    rc, out = core.lake(["build"] + targets)
    res["checker"].append("lake build " + " ".join(targets))
    res["build_log_tail"] = out[-4000:]
    failed_decls = set()
    if rc != 0:
        # which module / theorem failed?
        errs = re.findall(r"error: ([^\n]*)", out)
        names = re.findall(r"error: ([\w/.]+\.lean):(\d+):\d+", out)
        res["broken"].append(("lake build " + plugin.PROPS_MODULE, "\n".join(errs[:8])))
        # try to build the driver alone so that K can still search for a failing input
        rc2, out2 = core.lake(["build", "asl_" + plugin.DRIVER])
        res["driver_ok"] = rc2 == 0
        res["props_ok"] = False
    else:
        res["driver_ok"] = True
        res["props_ok"] = True
    # forbidden constructs anywhere under the property's import closure
    hits = core.scan_forbidden(core.lean_imports_closure(props_file))
    for h in hits:
        res["broken"].append(("forbidden-construct", h))
    discharged = 0
    if res["props_ok"]:
        ax, aout, arc = core.audit_axioms(pid, theorems, plugin.PROPS_MODULE)
        res["checker"].append("lake env lean Audit/%s.lean  (#print axioms)" % pid)
        res["axioms"] = {k: sorted(v) for k, v in ax.items()}
        for t in theorems:
            short = t
            a = ax.get(t)
            if a is None:
                res["broken"].append(("axiom-audit:" + t, "no #print axioms output"))
            elif not a <= core.ALLOWED_AXIOMS:
                res["broken"].append(("axiom-audit:" + t, "depends on " + ", ".join(sorted(a - core.ALLOWED_AXIOMS))))
            else:
                discharged += 1
        if tier == "thorough":
            p = subprocess.run(["lake", "env", "leanchecker", plugin.PROPS_MODULE], cwd=core.LEAN,
                               stdout=subprocess.PIPE, stderr=subprocess.STDOUT)
            res["checker"].append("lake env leanchecker " + plugin.PROPS_MODULE)
            res["leanchecker_rc"] = p.returncode
            if p.returncode != 0:
                res["broken"].append(("leanchecker", p.stdout.decode(errors="replace")[-1500:]))
    res["obligations"] = len(theorems) + (1 if hasattr(plugin, "translate") else 0)
    res["discharged"] = discharged + (1 if (hasattr(plugin, "translate") and ok) else 0)
    res["build_s"] = time.time() - t0
    return res


def check(plugin, pid, tier, seed):
    t0 = time.time()
    rng = random.Random(seed * 1000003 + int(pid[1:]))
    kind = getattr(plugin, "HARNESS_KIND", "asan")
    timeout = getattr(plugin, "HARNESS_TIMEOUT", 600 if tier == "quick" else 3600)
    known = load_known(pid)
    out_lines = []
    violations = []

    # ---- G + theorems + audit
    L = lean_stage(plugin, pid, tier)
    if not L["driver_ok"]:
        # the executable model itself no longer builds (translator hit an unknown construct)
        f = Failure("obligation", [], clause="model does not build from the regenerated definitions",
                    name="; ".join(n for n, _ in L["broken"]))
        f.has_input = False
        f.stderr = L.get("build_log_tail", "")
        violations.append(f)

    # ---- K
    libdir, tree = core.build_lib(kind)
    exe = core.build_harness(plugin.DRIVER, libdir, kind, getattr(plugin, "HARNESS_EXTRA", ()), getattr(plugin, "HARNESS_FLAGS", ()))
    stats = {"evaluations": 0, "distinct_nontrivial": 0, "validated": 0, "samples": [], "distribution": {}}
    PROD["exe"], PROD["lines"], PROD["fails"] = None, 0, []
    if getattr(plugin, "PROD_PASS", True) and kind == "asan":
        try:
            plib, _ = core.build_lib("prod")
            PROD["exe"] = core.build_harness(plugin.DRIVER, plib, "prod", getattr(plugin, "HARNESS_EXTRA", ()), getattr(plugin, "HARNESS_FLAGS", ()))
        except core.BuildError as e:
            stats["production_build_pass"] = "skipped: the harness needs the hooks (%s)" % str(e).strip().split("\n")[-1][:120]
    kfails = []
    known_hits = []
    if L["driver_ok"]:
        corp = corpus_cases(pid)
        cases = plugin.gen(rng, tier)
        allc = corp + cases
        stats["evaluations"] = len(allc)
        stats["corpus_cases"] = len(corp)
        seen = set()
        nt = 0
        for c in allc:
            key = "\n".join(c)
            if key in seen:
                continue
            seen.add(key)
            if plugin.nontrivial(c):
                nt += 1
        stats["distinct_nontrivial"] = nt
        stats["ops"] = sum(len(c) for c in allc)
        if hasattr(plugin, "distribution"):
            stats["distribution"] = plugin.distribution(allc)
        stats["samples"] = [c[:12] for c in (cases[:2] + cases[len(cases) // 2:len(cases) // 2 + 1])] if cases else [c[:12] for c in corp[:2]]
        # run in batches so a crash costs little and the 16 cores are used
        fails, validated = run_parallel(plugin, exe, allc, timeout)
        stats["validated"] = validated
        if PROD["exe"] is not None:
            stats["production_build_pass"] = "%d op lines answered identically by the -O3 / hooks-off build" % PROD["lines"] if not PROD["fails"] \
                else "%d divergences" % len(PROD["fails"])
        for f in fails:
            g = shrink(plugin, exe, f)
            g.name = "correspondence K(%s): harness/%s.cpp vs lean/Driver/%s.lean" % (pid, plugin.DRIVER, plugin.DRIVER.upper())
            if hasattr(plugin, "oracle"):
                viol, clause = plugin.oracle(g.case, g.impl, g.model, g.crash)
            else:
                viol, clause = True, ("memory error / abnormal termination: %s" % g.crash) if g.kind == "crash" else \
                    "implementation output differs from the model output, which the theorems prove equal to the reference semantics"
            g.clause = clause
            g.has_input = bool(viol)
            kfails.append(g)
        for g in PROD["fails"]:
            kfails.append(g)
        # known-finding probes
        for kf in getattr(plugin, "KNOWN", []):
            if kf["key"] not in known:
                continue
            g = fails_single(plugin, exe, kf["case"])
            if g is not None:
                known_hits.append(kf)
                out_lines.append("KNOWN-FINDING: property=%s %s" % (pid, known[kf["key"]]))
        if hasattr(plugin, "reference"):
            stats["reference_checked"] = REF_COUNT[0]
        if hasattr(plugin, "extra"):
            ex = plugin.extra({"exe": exe, "libdir": libdir, "tier": tier, "seed": seed, "rng": rng, "stats": stats,
                               "known": known, "out": out_lines, "tree": tree})
            kfails.extend(ex or [])

    # ---- broken obligations without a K failure: targeted search, then no-failing-input-found
    if L["broken"] and L["driver_ok"]:
        found = None
        if hasattr(plugin, "obligation_search"):
            try:
                found = plugin.obligation_search({"exe": exe, "rng": rng, "broken": L["broken"], "tier": tier})
            except Exception as e:  # search is best-effort
                log("[search] failed: %r" % e)
        if found is not None:
            found.name = "; ".join(n for n, _ in L["broken"])
            violations.append(found)
        elif not kfails:
            f = Failure("obligation", [], clause="proof obligation no longer checks; no concrete failing input found by the search",
                        name="; ".join("%s [%s]" % (n, m[:300]) for n, m in L["broken"]))
            f.has_input = False
            f.stderr = L.get("build_log_tail", "")
            violations.append(f)
        else:
            for g in kfails:
                g.name += " ; broken obligations: " + "; ".join(n for n, _ in L["broken"])
    violations.extend(kfails)

    # ---- report
    for l in out_lines:
        print(l)
    k = 0
    for f in violations:
        path = write_replay(pid, seed, k, f, tree, tier)
        k += 1
        suffix = "" if f.has_input else " no-failing-input-found"
        print("VIOLATION property=%s replay=%s%s" % (pid, path, suffix))
        log("  kind=%s crash=%s clause=%s" % (f.kind, f.crash, f.clause))
        log("  name=%s" % f.name[:600])
        if f.case:
            log("  case: " + " | ".join(f.case[:12]))
    wall = time.time() - t0
    ev = {
        "property_id": pid, "tier": tier, "seed": seed, "level": "proof",
        "coverage": {
            "obligations": L["obligations"], "discharged": L["discharged"],
            "checker_cmd": " && ".join(L["checker"]),
            "trusted_base": list(getattr(plugin, "TRUSTED", [])) + [
                "Lean 4.33.0 kernel; axioms allowed: propext, Classical.choice, Quot.sound (audited per theorem by #print axioms)",
                "tools/lib/engine.py + harness/%s.cpp + lean/Driver (correspondence check K)" % plugin.DRIVER],
            "theorems": L["theorems"], "axioms": L["axioms"],
            "broken_obligations": [n for n, _ in L["broken"]],
            "evaluations": max(stats["evaluations"], 1), "distinct_nontrivial": stats["distinct_nontrivial"],
            "rule": getattr(plugin, "RULE", ""),
            "traces_validated_against_impl": stats["validated"],
            "ops": stats.get("ops", 0), "corpus_cases": stats.get("corpus_cases", 0),
            "samples": stats["samples"] or ["(none)"], "distribution": stats["distribution"],
            "known_findings_reproduced": [kf["key"] for kf in known_hits],
            "tree_hash": tree, "lean_build_s": round(L["build_s"], 1),
            "leanchecker_rc": L.get("leanchecker_rc"),
        },
        "assumptions": list(getattr(plugin, "ASSUMPTIONS", [])),
        "wall_s": round(wall, 2), "violations": len(violations),
    }
    for kx, vx in stats.items():
        if kx not in ("evaluations", "distinct_nontrivial", "validated", "samples", "distribution", "ops", "corpus_cases"):
            ev["coverage"][kx] = vx
    if getattr(plugin, "EXHAUSTIVE", None) and tier in plugin.EXHAUSTIVE:
        ev["coverage"]["exhaustive_part"] = plugin.EXHAUSTIVE[tier]
    os.makedirs(core.EVID, exist_ok=True)
    # one evidence file per property: keep a measured summary of the latest run of the other tier next to this run
    try:
        with open(os.path.join(core.EVID, pid + ".json")) as fp:
            old = json.load(fp)
        oc = old.get("coverage", {})
        if old.get("tier") != tier:
            ev["coverage"]["latest_run_of_other_tier"] = {
                "tier": old.get("tier"), "seed": old.get("seed"), "wall_s": old.get("wall_s"), "violations": old.get("violations"),
                "finished_at": old.get("finished_at"), "tree_hash": oc.get("tree_hash"),
                "obligations": oc.get("obligations"), "discharged": oc.get("discharged"), "evaluations": oc.get("evaluations"),
                "distinct_nontrivial": oc.get("distinct_nontrivial"), "traces_validated_against_impl": oc.get("traces_validated_against_impl"),
                "ops": oc.get("ops"), "leanchecker_rc": oc.get("leanchecker_rc"), "exhaustive_part": oc.get("exhaustive_part")}
        elif "latest_run_of_other_tier" in oc:
            ev["coverage"]["latest_run_of_other_tier"] = oc["latest_run_of_other_tier"]
    except Exception:
        pass
    ev["finished_at"] = time.strftime("%Y-%m-%dT%H:%M:%SZ", time.gmtime())
    with open(os.path.join(core.EVID, pid + ".json"), "w") as fp:
        json.dump(ev, fp, indent=1)
    log("[%s] tier=%s seed=%d obligations=%d/%d K: %d cases (%d nontrivial, %d validated) violations=%d wall=%.1fs"
        % (pid, tier, seed, L["discharged"], L["obligations"], stats["evaluations"], stats["distinct_nontrivial"], stats["validated"], len(violations), wall))
    return 1 if violations else 0


def reference_pass(plugin, exe, cases, timeout, limit=200000):
    """independent property oracle (plugin.reference(line) -> expected output or None) judged on the
    implementation alone: this is what exhibits a failing input when model and code agree but both are wrong"""
    sel = []
    nlines = 0
    for c in cases:
        if nlines > limit:
            break
        sel.append(c)
        nlines += len(c)
    lines, starts = flatten(sel)
    impl, crash, err = core.run_impl(exe, lines, timeout=timeout)
    fails = []
    checked = 0
    for i, l in enumerate(lines[:len(impl)]):
        if l.startswith("case"):
            continue
        exp = plugin.reference(l)
        if exp is None:
            continue
        checked += 1
        if impl[i] != exp and len(fails) < 3:
            f = Failure("diverge", [l], ["case", impl[i]], ["case", exp],
                        clause="independent reference (%s) disagrees with the implementation" % getattr(plugin, "REFERENCE_NAME", "python oracle"))
            f.name = "reference oracle " + getattr(plugin, "REFERENCE_NAME", "")
            fails.append(f)
    return fails, checked


def run_parallel(plugin, exe, cases, timeout):
    """split the cases into batches run concurrently"""
    from concurrent.futures import ThreadPoolExecutor
    if not cases:
        return [], 0
    nb = max(1, min(core.NCPU, len(cases) // getattr(plugin, 'CASES_PER_BATCH', 20) or 1))
    if getattr(plugin, "SERIAL", False):
        nb = 1
    size = (len(cases) + nb - 1) // nb
    batches = [cases[i:i + size] for i in range(0, len(cases), size)]
    fails = []
    validated = 0
    with ThreadPoolExecutor(max_workers=nb) as ex:
        for fs, v in ex.map(lambda b: run_both(plugin, exe, b, timeout), batches):
            fails.extend(fs)
            validated += v
    if getattr(plugin, "ORACLE_PURE", False) and hasattr(plugin, "oracle"):
        def rank(f):
            try:
                return 0 if plugin.oracle(list(f.case), f.impl, f.model, f.crash)[0] else 1
            except Exception:
                return 1
        fails = sorted(fails[:64], key=rank)    # stable: property-breaking failures first
    # keep the reports varied: round-robin over (failure kind, first op of the case) instead of the first eight found
    buckets = {}
    order = []
    for f in fails:
        key = (f.kind, (f.crash or "").split(":")[0], f.case[0].split()[0] if f.case else "")
        if key not in buckets:
            buckets[key] = []
            order.append(key)
        buckets[key].append(f)
    picked = []
    while len(picked) < 8 and any(buckets[k] for k in order):
        for k in order:
            if buckets[k] and len(picked) < 8:
                picked.append(buckets[k].pop(0))
    return picked, validated


def replay(plugin, pid, path):
    r = json.load(open(path))
    kind = getattr(plugin, "HARNESS_KIND", "asan")
    libdir, tree = core.build_lib(kind)
    regen(plugin)
    rc, out = core.lake(["build", "asl_" + plugin.DRIVER])
    if rc != 0:
        print(out[-3000:])
        return 2
    exe = core.build_harness(plugin.DRIVER, libdir, kind, getattr(plugin, "HARNESS_EXTRA", ()), getattr(plugin, "HARNESS_FLAGS", ()))
    if not r.get("lines"):
        print("replay names a broken obligation, not an input: %s" % r.get("theorem_or_correspondence"))
        L = lean_stage(plugin, pid, "quick")
        if L["broken"]:
            print("VIOLATION property=%s replay=%s no-failing-input-found" % (pid, path))
            return 1
        return 0
    # failures that do not come from the line protocol of the sanitizer build
    if hasattr(plugin, "replay_case"):
        res = plugin.replay_case(r["lines"], {"exe": exe, "libdir": libdir})
        if res is not None:
            failed, text = res
            print(text)
            if failed:
                print("VIOLATION property=%s replay=%s" % (pid, path))
                return 1
            print("replay passes on the current tree")
            return 0
    if str(r.get("theorem_or_correspondence", "")).startswith("production-build pass"):
        # the divergence is between the production build and the verification build: run both
        plib, _ = core.build_lib("prod")
        pexe = core.build_harness(plugin.DRIVER, plib, "prod", getattr(plugin, "HARNESS_EXTRA", ()), getattr(plugin, "HARNESS_FLAGS", ()))
        lines = ["case 0"] + list(r["lines"])
        a, ca, _ = core.run_impl(exe, lines, timeout=getattr(plugin, "HARNESS_TIMEOUT", 600))
        b, cb, _ = core.run_impl(pexe, lines, timeout=getattr(plugin, "HARNESS_TIMEOUT", 600))
        print("verification build: " + " | ".join(a[:20]))
        print("production build  : " + " | ".join(b[:20]) + (" crash: " + cb if cb else ""))
        if a != b or cb:
            print("VIOLATION property=%s replay=%s" % (pid, path))
            return 1
        print("replay passes on the current tree")
        return 0
    g = fails_single(plugin, exe, r["lines"])
    if g is None:
        print("replay passes on the current tree")
        return 0
    print("impl : " + " | ".join(g.impl[:20]))
    print("model: " + " | ".join(g.model[:20]))
    if g.crash:
        print("crash: " + g.crash)
    print("VIOLATION property=%s replay=%s" % (pid, path))
    return 1
