#!/usr/bin/env python3
"""lake wrapper holding the project-wide build lock:  python3 tools/lk.py build AslProps.C02 asl_c02"""
import os, sys
sys.path.insert(0, os.path.dirname(os.path.abspath(__file__)))
from lib import core
rc, out = core.lake(sys.argv[1:])
print(out)
sys.exit(rc)
