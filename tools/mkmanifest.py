#!/usr/bin/env python3
"""Regenerate MANIFEST.json from the property plugins (tools/props/*.py)."""
import importlib, json, os, sys
sys.path.insert(0, os.path.dirname(os.path.abspath(__file__)))
from lib import core

ALL = ["C%02d" % i for i in range(1, 21)]
PENDING_REASON = "not yet claimed: the Lean model, theorems and correspondence harness for this property are still being built (see DESIGN.md section 3); no other technique is substituted"

checks = []
na = []
try:
    PREV = {c["property_id"] for c in json.load(open(os.path.join(core.ROOT, "MANIFEST.json"))).get("checks", [])}
except Exception:
    PREV = set()
for pid in ALL:
    path = os.path.join(core.ROOT, "tools", "props", pid.lower() + ".py")
    if not os.path.exists(path):
        na.append({"property_id": pid, "reason": PENDING_REASON})
        continue
    pl = importlib.import_module("props." + pid.lower())
    if getattr(pl, "CLAIMED", True) is False:
        na.append({"property_id": pid, "reason": getattr(pl, "NA_REASON", PENDING_REASON)})
        continue
    ev = os.path.join(core.ROOT, "evidence", pid + ".json")
    ready = all(hasattr(pl, a) for a in ("LEVEL_TEXT", "LEVEL_NOTE", "TECHNIQUE")) and os.path.exists(ev)
    if ready:
        try:
            ready = json.load(open(ev)).get("violations", 1) == 0
        except Exception:
            ready = False
    if not ready:
        # the last evidence file shows violations or is unreadable (a builder's check is running / was run on a broken
        # state): keep the entry already claimed, with refreshed texts, and say so; only a property never claimed stays pending
        if all(hasattr(pl, a) for a in ("LEVEL_TEXT", "LEVEL_NOTE", "TECHNIQUE")):
            print("warning: %s: last evidence is not clean (a check is running or was run on a broken state); its entry is kept" % pid)
        else:
            na.append({"property_id": pid, "reason": PENDING_REASON})
            continue
    checks.append({
        "property_id": pid,
        "quick_cmd": "python3 tools/check.py %s --tier quick" % pid,
        "thorough_cmd": "python3 tools/check.py %s --tier thorough" % pid,
        "evidence_file": "/verif/evidence/%s.json" % pid,
        "replay_cmd_template": "python3 tools/check.py %s --replay {path}" % pid,
        "engine": "lean4-proof+correspondence",
        "level_claimed": {"category": "proof", "text": pl.LEVEL_TEXT, "design_ref": "DESIGN.md section 3 (%s)" % pid},
        "level_note": pl.LEVEL_NOTE,
        "technique": pl.TECHNIQUE,
    })
hooks_commits = []
hp = os.path.join(core.ROOT, "hooks_commits.txt")
if os.path.exists(hp):
    hooks_commits = [l.split()[0] for l in open(hp) if l.strip() and not l.startswith("#")]
m = {
    "version": 1,
    "setup_cmd": "python3 tools/check.py --setup",
    "hooks": {
        "guard": "ASL_VERIF",
        "enable": "checks compile /repo/src/*.cpp and the harnesses with -DASL_VERIF (tools/lib/core.py BASE_FLAGS); with the guard off the sources are textually the upstream ones",
        "baseline_off_cmd": "cmake --build /repo/_build && ctest --test-dir /repo/_build -j8 --timeout 900",
        "source_commits": hooks_commits,
        "add_only": True,
    },
    "engines": [{
        "name": "lean4-proof+correspondence",
        "path": "tools/check.py",
        "serves_properties": [c["property_id"] for c in checks],
        "kind_free_text": "Lean 4 theorems about executable models (lean/AslModel, lean/AslProps), models tied to /repo on every run by regenerated definitions (lean/Gen, translators in tools/props) and by a differential correspondence check between the compiled Lean model drivers (lean/Driver) and ASan/UBSan-built harnesses over the real library (harness/)",
    }],
    "checks": checks,
    "not_applicable": na,
    "notes": "All checks share one pipeline (tools/lib/engine.py): regenerate Gen/*.lean from /repo, lake build the property's theorems, audit axioms with #print axioms, scan for sorry/admit/axiom/native_decide, rebuild libasl from /repo's working tree with -DASL_VERIF under ASan+UBSan, run the correspondence check, write evidence/<id>.json. Known findings: known_findings.txt.",
}
with open(os.path.join(core.ROOT, "MANIFEST.json"), "w") as f:
    json.dump(m, f, indent=1)
print("MANIFEST.json: %d checks, %d not_applicable" % (len(checks), len(na)))
