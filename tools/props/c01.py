"""C01 — Array, Stack and Queue behave as a sequence for every operation history: plugin for tools/check.py"""
import itertools

from lib.core import hexs

ID = "C01"
PROPS_MODULE = "AslProps.C01"
DRIVER = "c01"
SHRINK_KEEP_FIRST = 1          # every case starts with `<p> reset`
ORACLE_PURE = True             # oracle() replays the case on a fresh Ref, no side effects: the engine ranks and shrinks failures with it,
                               # so a failure that breaks a clause of the property keeps breaking one while it is minimised
NS = 6

RULE = ("case = one operation history (1..~600 ops) on six handle slots of Array/Stack/Queue of int, String or a counted "
        "element type with a heap payload: new/copy/assign/drop handles, append, insert at every position, self-referential "
        "insert/append (a << a[j], a.insert(k, a[j]), a.insert(k, b[j]) with b sharing the block, a.append(a), a.copy(a)), "
        "remove(i,n), removeOne, removeLast, resize up/down, reserve, clear, sort (both overloads), sortBy, slice(i) and slice(i,0), histories on Array<Node> with arguments stored inside an element of the same array (a = a[j].kids, append, copy), pointer variants Array(p,n)/copy(p,n)/append(p,n) incl. p inside the same array, remove with counts up to INT_MAX, operator-comma, range-for / foreach / Enumerator / slice_, slice, clone, dup, concat, "
        "reversed, filter, removeIf, copy, element writes, push/pop/popget/top, put/get; plus histories that take a block of capacity just below / at / above the 2048-byte large-block line of reserve() (built by Array(n), reserve, resize or a run of appends), share it between 2-4 handles, bring it to length 0 through one of them by every member that can (clear, resize(0), remove, removeIf, copy of nothing, pop(n), drains by removeLast/removeOne/pop/popget/get) and refill it through either; after every op the length, elements, "
        "rc() and cap() of all six handles (and the live-object counter) are compared; non-trivial = distinct history with a "
        "mid-array insert/remove and at least one capacity growth")
TRUSTED = ["harness/c01.cpp Counted element type (global live counter, heap payload, un-cleared pointer so that destroying a "
           "stale bitwise copy is a double free under ASan)",
           "tools/props/c01.py Ref: independent python reference (handles -> shared python lists) used as oracle"]
ASSUMPTIONS = ["malloc/realloc/free succeed and behave as allocate-copy-release (sizes stay far below INT_MAX)",
               "memmove/memcpy of whole elements = bitwise relocation of the objects (the element types used are trivially relocatable)",
               "sizeof(int)=4, sizeof(String)=24, sizeof(Counted)=8 (static_assert in the harness) select the malloc/realloc path in reserve()",
               "String copy/assignment/comparison behave as value semantics on byte strings (C03); String elements are NUL-free so that "
               "operator< (strcmp) is the strict total lexicographic order on them"]
TECHNIQUE = ("Lean 4 theorems (block-level refinement of the cell-level member functions, heap-level simulation to shared "
             "sequences, lifecycle invariant) + differential correspondence check under ASan/LSan with an independent python oracle")
LEVEL_TEXT = ("Proved in Lean 4 about the executable model the driver runs (AslModel/Array.lean: every member of Array written as the "
              "code's sequence of placement-construct / destroy / memmove / malloc-or-realloc steps on raw cells, blocks with header "
              "n/s/rc, handles as block ids, relocation on growth): (1) layerB_refines / layerB_self_reference / layerB_pointer_self_reference - for every block, "
              "capacity and in-range argument each member (reserve on both allocation paths, resize, insert incl. an element of the "
              "same array, remove incl. counts beyond the end (a statement over unbounded integers; remove_guard_no_wrap bridges it to the 32-bit test of the code, the int overflow repaired by 0854fc0 itself is seen by the K op remx under UBSan only), removeIf, append incl. append(a) and append(a.data()+j,k), copy incl. "
              "copy(a.data()+j,k)) touches only constructed cells inside the block, "
              "constructs and destroys each element exactly once (explicit live counter) and computes the list function of the "
              "reference semantics; (2) array_refines_every_run - for EVERY finite history of the 45 protocol operations as the driver "
              "runs it (an operation that would increase the capacity of a block whose rc > 1 is left out, by the same decidable guard "
              "in harness and model), with no hypothesis on the history, every call result and every handle's (elements, rc()) equal "
              "the reference semantics 'handles -> shared sequences' and no access leaves live storage (simulation with block-id "
              "renaming, rc = number of handles, no dangling handle); array_refines_seq_partial - the same for the unguarded run under "
              "the hypothesis that no such operation occurs; quicksort_total / quicksort_sorted_perm / quicksort_stack_depth / driver_orders_strict_total / "
              "sort_spec - the transcribed Hoare quicksort never indexes outside its sequence, terminates, nests at most log2(n) calls (code after dff9640), and sort()/sort(desc) "
              "return the sorted permutation for int, the counted type and String; quicksort_sorted_perm_ties / sortby_spec - the same for every strict weak order (ties allowed): sortBy(key, asc/desc) returns a permutation with non-decreasing / non-increasing keys for EVERY key function, the exact tied arrangement being the run function's (K compares the exact sequence, String keyed by length); (3) lifecycle - in every state the driver reaches "
              "live objects = total length of live blocks, rc = number of handles >= 1, and with the last handle gone no block and no "
              "object remains; clone_independent_history / clone_independent_model - a clone shows the cloned elements after ANY later "
              "history that does not write through the clone's own handle; stack_lifo, queue_fifo; (4) array_full_counterexample - "
              "without the guard the statement is false (a=[]; b=a; a<<0<<1<<2<<3). The model is tied to the current source on every "
              "run by the correspondence check (real Array/Stack/Queue of int, String and a counted heap-payload type under ASan/LSan; "
              "all six handles' elements, rc() and cap() compared after every operation) and, except for the Array<Node> histories, an "
              "independent python reference. The Array<Node> histories (prefix na; arguments stored inside an element of the same array) "
              "are NOT part of what is proved here: they are compared by K only, against a reference-level Lean model without theorems.")
LEVEL_NOTE = ("Recursive element type (struct Node { int v; Array<Node> kids; }: a = a[j].kids, a.append(a[j].kids), a.copy(a[j].kids), "
              "converting a = a[j].ints; repaired by 46697f8 / 8a65fa2 / 752cb8b): NOT in the proved model - these histories (prefix na) are compared by K only, against a "
              "reference-level Lean model with explicit reference counts (AslModel/ArrayNested.lean, no theorems; it describes the "
              "repaired order 'take the new block, then release', not the code's individual steps; the driver re-checks after every "
              "step that each count equals slots + element references, and there is no python oracle for these lines - the oracles are "
              "that model and ASan/LSan), and operations that may grow a block are left out whenever the block is shared at all. The "
              "proved counterpart of this K-only model is lean/AslModel/RcNest.lean with C12.nested_programs_safe (release cascade and "
              "acquire-before-release for handles stored inside objects, in general). Known finding shared-growth: operations that would increase the capacity of a block whose rc > 1 are excluded (left out "
              "by harness and model; the theorems are about exactly those runs). Not covered by model or harness: converting "
              "constructor (operator=(Array<K>) only in the Array<Node> histories), operator=(Var), map / map_ / with, initializer lists longer than 4 (the initializer-list constructor / operator= / append with 0..4 elements run as K ops newil / asgil / appil on the model steps of Array(p,n) / copy(p,n) / append(p,n), the same statements in the source), "
              "operator< of arrays, join, deprecated destroy()/ptr conversions, shuffle. sort is modelled on the element sequence "
              "(reads/assignments); its element temporaries (pivot copy T p = a[n/2] per pass, swap's T A = a) are kept by a ledger run "
              "function qsortListT (live, copies made, destroyed, peak): sort_temporaries_destroyed / sort_counted_lifecycle / sort_temporaries_bounded prove that it computes qsortList's sequence, that never more than log2(n)+1 temporaries are alive, "
              "that on return the instance counter is back where it started with every temporary destroyed, each value present as often as before, and that the block's live counter after sortB is the ledger's; "
              "the ledger is tied to the code by the K op sortc (counted type: number of copy constructions during the sort and the peak of live objects are compared exactly). For the "
              "rc++/rc-- pairs of temporaries inside clone()/concat(), which the model collapses, construct-once/destroy-once rests on LSan/K only. The history "
              "theorems are over six simultaneously live user handles (NS = 6, plus operation temporaries). Trusted: Lean kernel, "
              "harness, generator; malloc/realloc/memmove as allocate-copy-release and bitwise relocation; the element types are "
              "trivially relocatable. The growth policy (3, 2s, max(2s,m), malloc below / realloc from 2048 bytes) is transcribed in "
              "the model and compared through cap() after every operation; a harmless change of it is reported as VIOLATION ... "
              "no-failing-input-found (the oracle ignores capacities). New cells of Array<int> after resize are unspecified in C++; the "
              "harness writes them before reading. ASL_HAVE_MOVE is off in this build: the (leaking) move assignment "
              "Array::operator=(Array&&) is not compiled and not covered.")

# ---------------------------------------------------------------------------------------------- reference


def enc(t, v):
    return hexs(v) if t == "s" else str(v)


def dec(t, s):
    if t == "s":
        return b"" if s == "-" else bytes.fromhex(s)
    return int(s)


def code(t, v):
    if t == "s":
        h = 1
        for c in v:
            h = (h * 257 + c) % 1000003
        return h
    return v % 1000003


def key(t, v):
    return len(v) if t == "s" else v


ESZ = {"i": 4, "s": 24, "c": 8}


class Cell:
    __slots__ = ("l", "cap")

    def __init__(self, l):
        self.l = list(l)
        self.cap = max(len(self.l), 3)


class Ref:
    """reference semantics: a handle slot refers to a shared python list.  `cap` follows the documented growth
    policy only to predict the `skip` answers (operations excluded by the known finding shared-growth)."""

    def __init__(self, t):
        self.t = t
        self.H = [None] * NS
        self.stats = {"grow_reserve_malloc": 0, "grow_reserve_realloc": 0, "grow_insert_realloc": 0, "skipped_shared_growth": 0, "maxlen": 0, "maxrc": 0,
                      "mid_insert": 0, "mid_remove": 0, "self_ref": 0, "caps": set()}

    follow = None   # oracle mode: True/False = what the implementation answered for the guarded operation
    abstain = False  # reference mode: no opinion once a capacity-dependent decision was needed
    poisoned = False

    def rc(self, c):
        return sum(1 for x in self.H if x is c)

    def blocked(self, would_grow, shared):
        """is this growth-capable operation excluded (known finding shared-growth)?  In oracle mode the
        implementation's own decision is followed (capacity policy is not part of the property), but only
        where the exclusion can apply at all: the block must be shared."""
        if self.abstain:
            if shared:
                self.poisoned = True
            return would_grow and shared
        if self.follow is None:
            return would_grow and shared
        return shared and self.follow

    # capacity bookkeeping
    def reserve(self, c, m):
        if m > c.cap:
            if c.cap * ESZ[self.t] < 2048:
                self.stats["grow_reserve_malloc"] += 1
            else:
                self.stats["grow_reserve_realloc"] += 1
            c.cap = max(2 * c.cap, m)
            self.stats["caps"].add(c.cap)

    def grow1(self, c):
        if len(c.l) >= c.cap:
            self.stats["grow_insert_realloc"] += 1
            c.cap = 2 * c.cap
            self.stats["caps"].add(c.cap)

    def view(self):
        out = []
        for c in self.H:
            if c is None:
                out.append("-")
                continue
            n = len(c.l)
            if n <= 12:
                body = ",".join(enc(self.t, v) for v in c.l)
            else:
                h = 7
                for v in c.l:
                    h = (h * 131 + code(self.t, v)) % 1000000007
                body = "#%d" % h
            out.append("%d/%d/%s" % (n, self.rc(c), body))
        s = " ".join(out)
        s += " | K" + ",".join("-" if c is None else str(c.cap) for c in self.H)
        if self.t == "c":
            live = sum(len(c.l) for c in set(x for x in self.H if x is not None))
            s += " | L%d" % live
        return s

    def store(self, t, l):
        c = Cell(l)
        self.H[t] = c
        return c

    def do(self, toks, render=True):
        r = self.op(toks)
        for c in self.H:
            if c is not None:
                if len(c.l) > self.stats["maxlen"]:
                    self.stats["maxlen"] = len(c.l)
                k = self.rc(c)
                if k > self.stats["maxrc"]:
                    self.stats["maxrc"] = k
        if r == "skipg":
            self.stats["skipped_shared_growth"] += 1
            r = "skip"
        if not render:
            return r
        if r == "noopinion":
            return None
        return r + " | " + self.view()

    def op(self, t):
        T = self.t
        H = self.H
        op = t[0]
        a = [x for x in t[1:]]
        sl = lambda s: int(s) % NS
        if op == "new":
            self.store(sl(a[0]), [])
            return "ok"
        if op == "newn":
            self.store(sl(a[0]), [dec(T, a[2])] * int(a[1]))
            return "ok"
        if op == "ksort":
            self.store(sl(a[0]), sorted(range(int(a[1])), reverse=(a[2] == "1")))
            return "ok"
        if op in ("newp", "newil"):
            self.store(sl(a[0]), [dec(T, x) for x in a[1:]])
            return "ok"
        if op == "cp":
            h, g = sl(a[0]), sl(a[1])
            if H[g] is None:
                return "skip"
            H[h] = H[g]
            return "ok"
        if op == "asg":
            h, g = sl(a[0]), sl(a[1])
            if H[h] is None or H[g] is None:
                return "skip"
            H[h] = H[g]
            return "ok"
        if op in ("slice", "slicee", "clone", "concat", "rev", "filt"):
            tt, h = sl(a[0]), sl(a[1])
            if H[h] is None:
                return "skip"
            l = H[h].l
            n = len(l)
            if op == "slice":
                i1 = int(a[2]) % (n + 1)
                i2 = i1 + int(a[3]) % (n - i1 + 1)
                self.store(tt, l[i1:i2])
            elif op == "slicee":
                self.store(tt, l[int(a[2]) % (n + 1):])
            elif op == "clone":
                self.store(tt, l)
            elif op == "rev":
                self.store(tt, l[::-1])
            elif op == "filt":
                m = int(a[2]) + 1
                r = int(a[3]) % m
                c = self.store(tt, [])
                if n > c.cap:
                    c.cap = max(2 * c.cap, n)
                c.l = [v for v in l if key(T, v) % m == r]
            else:
                g = sl(a[2])
                if H[g] is None:
                    return "skip"
                l2 = list(H[g].l)
                c = self.store(tt, l)
                if len(l) + len(l2) > c.cap:
                    c.cap = max(2 * c.cap, len(l) + len(l2))
                c.l = c.l + l2
            return "ok"
        h = sl(a[0])
        c = H[h]
        if c is None:
            return "skip"
        l = c.l
        n = len(l)
        shared = self.rc(c) > 1
        if op == "drop":
            H[h] = None
            return "ok"
        if op in ("app", "push", "put"):
            if self.blocked(n >= c.cap, shared):
                return "skipg"
            self.grow1(c)
            l.append(dec(T, a[1]))
            return "ok"
        if op == "ins":
            if self.blocked(n >= c.cap, shared):
                return "skipg"
            self.grow1(c)
            k = int(a[1]) % (n + 1)
            if k < n:
                self.stats["mid_insert"] += 1
            l.insert(k, dec(T, a[2]))
            return "ok"
        if op == "appo":
            if n == 0:
                return "ok"
            if self.blocked(n >= c.cap, shared):
                return "skipg"
            self.grow1(c)
            self.stats["self_ref"] += 1
            l.append(l[int(a[1]) % n])
            return "ok"
        if op == "inso":
            if n == 0:
                return "ok"
            if self.blocked(n >= c.cap, shared):
                return "skipg"
            self.grow1(c)
            self.stats["self_ref"] += 1
            k = int(a[1]) % (n + 1)
            if k < n:
                self.stats["mid_insert"] += 1
            l.insert(k, l[int(a[2]) % n])
            return "ok"
        if op == "insx":
            g = sl(a[2])
            if H[g] is None or len(H[g].l) == 0:
                return "skip"
            if self.blocked(n >= c.cap, shared):
                return "skipg"
            self.grow1(c)
            if H[g] is c:
                self.stats["self_ref"] += 1
            k = int(a[1]) % (n + 1)
            if k < n:
                self.stats["mid_insert"] += 1
            l.insert(k, H[g].l[int(a[3]) % len(H[g].l)])
            return "ok"
        if op == "rem":
            i = int(a[1]) % (n + 1)
            k = int(a[2]) % (n - i + 1)
            if k > 0 and i + k < n:
                self.stats["mid_remove"] += 1
            del l[i:i + k]
            return "ok"
        if op == "remone":
            v = dec(T, a[1])
            j = int(a[2]) % (n + 1)
            for i in range(j, n):
                if l[i] == v:
                    if i + 1 < n:
                        self.stats["mid_remove"] += 1
                    del l[i]
                    return "b 1"
            return "b 0"
        if op == "reml":
            if n:
                l.pop()
            return "ok"
        if op == "rsz":
            m = int(a[1])
            if self.blocked(m > c.cap, shared):
                return "skipg"
            self.reserve(c, m)
            if m < n:
                del l[m:]
            else:
                l.extend([dec(T, a[2])] * (m - n))
            return "ok"
        if op == "res":
            m = int(a[1])
            if self.blocked(m > c.cap, shared):
                return "skipg"
            self.reserve(c, m)
            return "ok"
        if op == "clr":
            del l[:]
            return "ok"
        if op == "sort":
            l.sort()
            return "ok"
        if op == "sortd":
            l.sort(reverse=True)
            return "ok"
        if op == "sortc":
            # counted elements: the answer (copies made, peak) is the quicksort's own - no opinion on this line
            m = int(a[1]) % 4
            l.sort(reverse=(m in (1, 3)))
            return "noopinion"
        if op == "sortby":
            ks = [key(T, v) for v in l]
            if len(set(ks)) != len(ks):
                # ties between different elements: the result depends on the quicksort itself (not stable) - no opinion
                if any(l[i] != l[j] for i in range(n) for j in range(i + 1, n) if ks[i] == ks[j]):
                    self.poisoned = True
            l.sort(key=lambda v: key(T, v), reverse=(int(a[1]) == 0))
            return "ok"
        if op == "iter":
            return "ok"
        if op == "appown":
            j = int(a[1]) % (n + 1)
            k = int(a[2]) % (n - j + 1)
            if self.blocked(n + k > c.cap, shared):
                return "skipg"
            self.reserve(c, n + k)
            self.stats["self_ref"] += 1
            l.extend(l[j:j + k])
            return "ok"
        if op == "copyown":
            j = int(a[1]) % (n + 1)
            k = int(a[2]) % (n - j + 1)
            self.stats["self_ref"] += 1
            l[:] = l[j:j + k]
            return "ok"
        if op == "remx":
            i, k = int(a[1]), int(a[2])
            if i + k <= n:
                del l[i:i + k]
            return "ok"
        if op in ("copyp", "asgil"):
            xs = [dec(T, x) for x in a[1:]]
            if self.blocked(len(xs) > c.cap, shared):
                return "skipg"
            self.reserve(c, len(xs))
            l[:] = xs
            return "ok"
        if op in ("appp", "appil"):
            xs = [dec(T, x) for x in a[1:]]
            if self.blocked(n + len(xs) > c.cap, shared):
                return "skipg"
            self.reserve(c, n + len(xs))
            l.extend(xs)
            return "ok"
        if op == "dup":
            if shared:
                self.store(h, l)
            return "ok"
        if op == "remif":
            m = int(a[1]) + 1
            r = int(a[2]) % m
            l[:] = [v for v in l if not (key(T, v) % m == r)]
            return "ok"
        if op == "apnd":
            g = sl(a[1])
            if H[g] is None:
                return "skip"
            nb = len(H[g].l)
            if self.blocked(n + nb > c.cap, shared):
                return "skipg"
            self.reserve(c, n + nb)
            if H[g] is c:
                self.stats["self_ref"] += 1
            l.extend(list(H[g].l))
            return "ok"
        if op == "copy":
            g = sl(a[1])
            if H[g] is None:
                return "skip"
            nb = len(H[g].l)
            if self.blocked(nb > c.cap, shared):
                return "skipg"
            self.reserve(c, nb)
            if H[g] is c:
                self.stats["self_ref"] += 1
            l[:] = list(H[g].l)
            return "ok"
        if op == "set":
            if n:
                l[int(a[1]) % n] = dec(T, a[2])
            return "ok"
        if op == "get":
            if n == 0:
                return "skip"
            return "v " + enc(T, l[int(a[1]) % n])
        if op == "idx":
            v = dec(T, a[1])
            j = int(a[2]) % (n + 1)
            i = -1
            for q in range(j, n):
                if l[q] == v:
                    i = q
                    break
            return "idx %d %d" % (i, 1 if v in l else 0)
        if op == "last":
            if n == 0:
                return "skip"
            return "v " + enc(T, l[-1])
        if op == "eq":
            g = sl(a[1])
            if H[g] is None:
                return "skip"
            return "b 1" if l == H[g].l else "b 0"
        if op == "pop":
            if n == 0:
                return "skip"
            l.pop()
            return "ok"
        if op == "popn":
            k = int(a[1]) % (n + 1)
            if k:
                del l[n - k:]
            return "ok"
        if op == "popget":
            if n == 0:
                return "skip"
            return "v " + enc(T, l.pop())
        if op == "top":
            if n == 0:
                return "skip"
            return "v " + enc(T, l[n - 1 - int(a[1]) % n])
        if op == "qget":
            if n == 0:
                return "skip"
            if n > 1:
                self.stats["mid_remove"] += 1
            return "v " + enc(T, l.pop(0))
        return None


import threading

_TL = threading.local()   # the engine judges batches in parallel threads; each thread sees its cases in order


def _refs():
    if not hasattr(_TL, "refs"):
        _TL.refs = {}
    return _TL.refs


REFERENCE_NAME = "python reference: handle slots -> shared python lists, live objects = sum of lengths of reachable lists"


def reference(line):
    t = line.split()
    if len(t) < 2 or len(t[0]) != 2:
        return None
    p = t[0]
    if p[0] == "n":
        return None      # Array<Node>: the reference-level Lean model is the only oracle (see LEVEL_NOTE)
    REFS = _refs()
    if t[1] == "reset":
        REFS[p] = Ref(p[0])
        REFS[p].abstain = True
        return "ok"
    if p not in REFS or REFS[p].poisoned:
        return None
    try:
        r = REFS[p].do(t[1:])
    except Exception:
        REFS[p].poisoned = True
        return None
    # whether an operation that may grow a shared block is skipped depends on the capacity policy, which is not
    # part of the property: no opinion from there to the end of the case (the correspondence K still compares)
    return None if REFS[p].poisoned else r


# ---------------------------------------------------------------------------------------------- generator

STR_POOL = [b"", b"a", b"b", b"ab", b"ba", b"abc", b"zz", b"fifteen chars..", b"sixteen chars...", b"a string that lives on the heap 1",
            b"a string that lives on the heap 2", b"\xff\x80 high bytes beyond sso limit", b"~", b"0", b"Z"]


def rval(rng, t, big=False):
    if t == "s":
        return enc(t, rng.choice(STR_POOL))
    if big and rng.random() < 0.3:
        return str(rng.choice([2147483647, -2147483648, 1000003, -1000003, 65536]))
    return str(rng.randrange(-4, 12))


def occupied(ref):
    return [i for i in range(NS) if ref.H[i] is not None]


BOUNDARY = {"i": [3, 6, 12, 24, 48, 96, 192, 384, 511, 512, 513, 768, 1024], "s": [3, 6, 12, 24, 48, 85, 86, 96, 97, 172, 192],
            "c": [3, 6, 12, 24, 48, 96, 192, 255, 256, 257, 384, 512]}


MAYGROW = ("app", "push", "put", "ins", "appo", "inso", "insx", "rsz", "res", "apnd", "copy", "copyp", "appp", "appown", "asgil", "appil")


def gen_case(rng, t, cont, nops, profile, exclusive=False):
    """one history; the reference simulator supplies the current lengths so that arguments hit boundaries.
    exclusive: before an operation that may grow a block shared by several handles, the acting handle is made
    independent with dup() — such histories never meet the shared-growth exclusion, whatever the growth policy,
    so the python oracle has an opinion on every line."""
    p = t + cont
    ref = Ref(t)
    lines = [p + " reset"]

    def emit(s):
        tk = s.split()
        if exclusive and tk[0] in MAYGROW:
            c = ref.H[int(tk[1]) % NS]
            if c is not None and ref.rc(c) > 1:
                lines.append(p + " dup " + tk[1])
                ref.do(["dup", tk[1]], render=False)
        lines.append(p + " " + s)
        ref.do(tk, render=False)

    emit("new %d" % rng.randrange(NS))
    for _ in range(nops):
        occ = occupied(ref)
        if not occ or rng.random() < 0.03:
            emit("new %d" % rng.randrange(NS))
            continue
        h = rng.choice(occ) if rng.random() < 0.95 else rng.randrange(NS)
        g = rng.choice(occ) if rng.random() < 0.9 else rng.randrange(NS)
        c = ref.H[h]
        n = len(c.l) if c is not None else 0
        x = rng.random()
        # keep sizes inside the profile
        if profile == "small" and n > 40 and x < 0.5:
            emit(rng.choice(["rem %d %d %d" % (h, rng.randrange(n), rng.randrange(1, n)), "clr %d" % h, "popn %d %d" % (h, rng.randrange(n)) if cont == "k" else "rsz %d %d %s" % (h, rng.randrange(8), rval(rng, t))]))
            continue
        if profile == "large" and x < 0.06:
            b = rng.choice(BOUNDARY[t]) + rng.randrange(-1, 2)
            emit(rng.choice(["rsz %d %d %s" % (h, b, rval(rng, t)), "res %d %d" % (h, b), "newn %d %d %s" % (rng.randrange(NS), b, rval(rng, t))]))
            continue
        if profile == "large" and x < 0.12 and n > 0:
            # run of appends/inserts across the next capacity boundary
            k = min(max(c.cap - n + 2, 1), 40)
            for _ in range(k):
                hh = h
                emit(rng.choice(["app %d %s" % (hh, rval(rng, t)), "ins %d %d %s" % (hh, rng.randrange(n + 1), rval(rng, t)), "appo %d %d" % (hh, rng.randrange(1000))]))
            continue
        w = rng.random()
        if w < 0.18:
            emit("app %d %s" % (h, rval(rng, t, True)))
        elif w < 0.30:
            emit("ins %d %d %s" % (h, rng.choice([0, n, rng.randrange(n + 1), rng.randrange(1000)]), rval(rng, t)))
        elif w < 0.34:
            emit("appo %d %d" % (h, rng.randrange(1000)))
        elif w < 0.39:
            emit("inso %d %d %d" % (h, rng.randrange(1000), rng.randrange(1000)))
        elif w < 0.42:
            emit("insx %d %d %d %d" % (h, rng.randrange(1000), g, rng.randrange(1000)))
        elif w < 0.49:
            emit("rem %d %d %d" % (h, rng.randrange(n + 1), rng.choice([1, 1, 0, 2, 3, rng.randrange(n + 1)])))
        elif w < 0.51:
            emit("remone %d %s %d" % (h, enc(t, rng.choice(c.l)) if c is not None and n and rng.random() < 0.7 else rval(rng, t), rng.choice([0, 0, rng.randrange(n + 1)])))
        elif w < 0.53:
            emit("reml %d" % h)
        elif w < 0.57:
            emit("rsz %d %d %s" % (h, rng.choice([0, n + 1, n + 3, max(n - 1, 0), rng.randrange(2 * n + 4)]), rval(rng, t)))
        elif w < 0.60:
            emit("res %d %d" % (h, rng.choice([n, n + 1, (c.cap if c else 3) + 1, 2 * n + 1, rng.randrange(3 * n + 8)])))
        elif w < 0.61:
            emit("clr %d" % h)
        elif w < 0.635:
            if t == "c" and rng.random() < 0.6:
                emit("sortc %d %d" % (h, rng.randrange(4)))     # the same four sorts, also answering with the temporaries made
            else:
                emit(rng.choice(["sort %d", "sortd %d", "sortby %d 1", "sortby %d 0"]) % h)
        elif w < 0.64:
            k = rng.choice([0, 1, 2, 3, rng.randrange(9), (c.cap - n + 1) if c is not None else 4])
            vs = " ".join(rval(rng, t) for _ in range(max(k, 0)))
            o = rng.choice(["appp", "appp", "copyp", "newp", "iter", "appown", "appown", "copyown", "remx"])
            if o == "iter":
                emit("iter %d" % h)
            elif o in ("appown", "copyown"):
                emit("%s %d %d %d" % (o, h, rng.choice([0, 1, rng.randrange(n + 1)]), rng.choice([n, 1, 2, rng.randrange(n + 2)])))
            elif o == "remx":
                emit("remx %d %d %d" % (h, rng.choice([0, 1, n, n + 1, rng.randrange(n + 2)]),
                                        rng.choice([2147483647, 2147483646, n + 1, n, 1, rng.randrange(n + 3)])))
            elif rng.random() < 0.4:
                # the initializer-list members (braced lists of 0..4 elements)
                o2 = {"appp": "appil", "copyp": "asgil", "newp": "newil"}[o]
                emit(("%s %d %s" % (o2, h, " ".join(vs.split()[:4]))).strip())
            else:
                emit(("%s %d %s" % (o, h, vs)).strip())
        elif w < 0.67:
            if rng.random() < 0.25:
                emit("slicee %d %d %d" % (rng.randrange(NS), h, rng.randrange(n + 2)))
            else:
                emit("slice %d %d %d %d" % (rng.randrange(NS), h, rng.choice([0, 0, rng.randrange(n + 1)]), rng.choice([0, rng.randrange(n + 1)])))
        elif w < 0.70:
            emit("clone %d %d" % (rng.randrange(NS), h))
        elif w < 0.72:
            emit("dup %d" % h)
        elif w < 0.74:
            emit("concat %d %d %d" % (rng.randrange(NS), h, g))
        elif w < 0.75:
            emit("rev %d %d" % (rng.randrange(NS), h))
        elif w < 0.77:
            emit("filt %d %d %d %d" % (rng.randrange(NS), h, rng.randrange(4), rng.randrange(4)))
        elif w < 0.79:
            emit("remif %d %d %d" % (h, rng.randrange(4), rng.randrange(4)))
        elif w < 0.82:
            emit("apnd %d %d" % (h, g if rng.random() < 0.7 else h))
        elif w < 0.84:
            emit("copy %d %d" % (h, g))
        elif w < 0.87:
            emit("set %d %d %s" % (h, rng.randrange(n + 1), rval(rng, t, True)))
        elif w < 0.88:
            emit("get %d %d" % (h, rng.randrange(n + 1)))
        elif w < 0.90:
            emit("idx %d %s %d" % (h, enc(t, rng.choice(c.l)) if c is not None and n and rng.random() < 0.7 else rval(rng, t), rng.choice([0, rng.randrange(n + 1)])))
        elif w < 0.905:
            emit("last %d" % h)
        elif w < 0.92:
            emit("eq %d %d" % (h, g))
        elif w < 0.95:
            emit("cp %d %d" % (rng.randrange(NS), h))
        elif w < 0.965:
            emit("asg %d %d" % (h, g))
        elif w < 0.98:
            emit("drop %d" % h)
        else:
            emit("new %d" % rng.randrange(NS))
        if cont == "k" and rng.random() < 0.35:
            emit(rng.choice(["push %d %s" % (h, rval(rng, t)), "pop %d" % h, "popget %d" % h, "top %d %d" % (h, rng.randrange(5)), "popn %d %d" % (h, rng.randrange(4)), "push %d %s" % (h, rval(rng, t))]))
        if cont == "q" and rng.random() < 0.35:
            emit(rng.choice(["put %d %s" % (h, rval(rng, t)), "qget %d" % h, "put %d %s" % (h, rval(rng, t))]))
    # drop every handle at the end: storage released, live objects back to 0
    if rng.random() < 0.7:
        for i in range(NS):
            if ref.H[i] is not None:
                emit("drop %d" % i)
    return lines


ALPHABET = ["app 0 1", "ins 0 0 2", "inso 0 1 0", "rem 0 0 1", "cp 1 0", "clone 1 0", "apnd 0 1", "drop 0", "rsz 0 2 7"]
ALPHABET_S = ["app 0 61", "ins 0 0 6120737472696e672074686174206c69766573206f6e207468652068656170", "inso 0 1 0", "rem 0 0 1", "cp 1 0",
              "clone 1 0", "apnd 0 1", "drop 0", "rsz 0 2 37"]


def exhaustive_cases(maxlen, types):
    cases = []
    for t in types:
        p = t + "a"
        for L in range(1, maxlen + 1):
            for seq in itertools.product(ALPHABET_S if t == "s" else ALPHABET, repeat=L):
                cases.append([p + " reset", p + " new 0"] + [p + " " + s for s in seq])
    return cases


def gen_nested(rng, nops):
    """Array<Node> with Node { int v; Array<Node> kids; }: arguments stored inside an element of the same array"""
    lines = ["na reset", "na new 0"]
    for _ in range(nops):
        w = rng.random()
        h = rng.randrange(3) if rng.random() < 0.8 else rng.randrange(NS)
        j = rng.randrange(1000)
        if rng.random() < 0.06:
            # a member array of an element grows to several items and is then assigned / appended / copied to its owner
            jj = rng.choice([0, 0, 1, j])
            if rng.random() < 0.5:
                lines.append("na app %d %d" % (h, rng.randrange(-3, 40)))
            kind = rng.choice(["asgi", "asgi", "asgk", "apndk", "copyk"])
            for _ in range(rng.randrange(2, 7)):
                lines.append(("na iapp %d %d %d" if kind == "asgi" else "na kapp %d %d %d") % (h, jj, rng.randrange(-3, 40)))
            lines.append("na %s %d %d" % (kind, h, jj))
            continue
        if w < 0.22:
            lines.append("na app %d %d" % (h, rng.randrange(-3, 40)))
        elif w < 0.40:
            lines.append("na kapp %d %d %d" % (h, j, rng.randrange(-3, 40)))
        elif w < 0.46:
            lines.append("na iapp %d %d %d" % (h, rng.choice([0, 0, j]), rng.randrange(-3, 40)))
        elif w < 0.50:
            lines.append("na asgi %d %d" % (h, rng.choice([0, 0, j])))
        elif w < 0.60:
            lines.append("na apndk %d %d" % (h, j))
        elif w < 0.70:
            lines.append("na copyk %d %d" % (h, j))
        elif w < 0.78:
            lines.append("na asgk %d %d" % (h, j))
        elif w < 0.84:
            lines.append("na getk %d %d %d" % (rng.randrange(NS), h, j))
        elif w < 0.89:
            lines.append("na cp %d %d" % (rng.randrange(NS), h))
        elif w < 0.94:
            lines.append("na rem %d %d" % (h, j))
        elif w < 0.97:
            lines.append("na drop %d" % h)
        else:
            lines.append("na new %d" % h)
    if rng.random() < 0.7:
        lines += ["na drop %d" % i for i in range(NS)]
    return lines


LARGE_BYTES = 2048      # reserve() tells small blocks (malloc + copy) from large ones (realloc) at this many bytes of capacity


def gen_shared_empty(rng, t, cont):
    """the class 'a block of chosen capacity, held by several live handles, is brought to length 0 through one of
    them and then refilled': capacities on both sides of the 2048-byte line of reserve() (and well beyond it), built in
    every way a capacity comes about (Array(n), reserve, resize, a run of appends), lengths 1 .. capacity, 2-4 sharing
    handles plus an optional clone, EVERY member that can reach length 0 (clear, resize(0), remove(0,n), remove with a
    count beyond the end, removeIf of everything, copy of an empty array / empty pointer range / empty braced list,
    pop(n), and for short arrays a drain by removeLast / remove(0) / removeOne / pop / popget / get, also alternating
    between the handles), then mutations through the acting and through another handle (so that a handle that let go
    of the shared block is seen by the NEXT operation even when the emptying itself looked right).  Nothing here grows
    a shared block, so the python oracle has an opinion on every line."""
    p = t + cont
    ref = Ref(t)
    lines = [p + " reset"]

    def emit(s):
        lines.append(p + " " + s)
        ref.do(s.split(), render=False)

    thr = -(-LARGE_BYTES // ESZ[t])                      # first capacity (in elements) of a large block
    cap = rng.choice([thr - 1, thr, thr, thr + 1, thr + rng.randrange(2, thr), 2 * thr, 3 * thr + rng.randrange(40),
                      max(thr // 2, 24), rng.randrange(24, thr)])
    slots = list(range(NS))
    rng.shuffle(slots)
    h = slots[0]
    how = rng.choice(["newn", "res", "rsz", "apps", "resapps"])
    if how == "apps" and cap > thr + 1:
        cap = rng.choice([thr - 1, thr, thr + 1])        # a run of single appends: keep the history short
    if how == "newn":
        emit("newn %d %d %s" % (h, cap, rval(rng, t)))
    else:
        emit("new %d" % h)
        if how == "res":
            emit("res %d %d" % (h, cap))
        elif how == "rsz":
            emit("rsz %d %d %s" % (h, cap, rval(rng, t)))
        else:
            if how == "resapps":                         # last growth step taken by insert()'s own doubling
                emit("res %d %d" % (h, (cap + 1) // 2))
            guard = 0
            while ref.H[h].cap < cap and guard < 1400:
                guard += 1
                n = len(ref.H[h].l)
                if how == "resapps" and n < ref.H[h].cap - 1 and rng.random() < 0.9:
                    emit("rsz %d %d %s" % (h, ref.H[h].cap, rval(rng, t)))
                else:
                    emit("app %d %s" % (h, rval(rng, t)))
    c = ref.H[h]
    L = rng.choice([1, 1, 2, 3, rng.randrange(1, 7), rng.randrange(1, 13), c.cap, c.cap - 1, rng.randrange(1, c.cap + 1)])
    if L != len(c.l):
        emit("rsz %d %d %s" % (h, L, rval(rng, t)))
    for _ in range(rng.randrange(0, 4)):
        emit("set %d %d %s" % (h, rng.randrange(L), rval(rng, t, True)))
    share = [h]
    for g in slots[1:1 + rng.randrange(1, 4)]:
        if rng.random() < 0.3:
            emit("new %d" % g)
            emit("asg %d %d" % (g, rng.choice(share)))
        else:
            emit("cp %d %d" % (g, rng.choice(share)))
        share.append(g)
    free = [s for s in slots if s not in share]
    if rng.random() < 0.5:
        emit("clone %d %d" % (free.pop(), rng.choice(share)))
    for _ in range(rng.randrange(1, 4)):
        a = rng.choice(share)
        n = len(c.l)
        if n == 0:
            emit("app %d %s" % (a, rval(rng, t)))
            n = 1
        whole = ["clr %d" % a, "rsz %d 0 %s" % (a, rval(rng, t)), "rem %d 0 %d" % (a, n), "remif %d 0 0" % a,
                 "remx %d 0 %d" % (a, n), "copyown %d %d 0" % (a, rng.randrange(n + 1)), "copyp %d" % a, "asgil %d" % a, "EMPTYSRC"]
        if cont == "k":
            whole += ["popn %d %d" % (a, n)] * 3
        if n <= 6 and rng.random() < 0.6:
            one = ["reml %d", "rem %d 0 1", "REMONE"] + (["pop %d", "popget %d"] * 2 if cont == "k" else []) + (["qget %d"] * 4 if cont == "q" else [])
            while len(c.l) > 0:
                b = a if rng.random() < 0.7 else rng.choice(share)
                o = rng.choice(one)
                emit("remone %d %s 0" % (b, enc(t, c.l[0])) if o == "REMONE" else o % b)
        else:
            o = rng.choice(whole)
            if o == "EMPTYSRC":
                e = free[0] if free else None
                if e is None:
                    o = "clr %d" % a
                else:
                    emit("new %d" % e)
                    o = "copy %d %d" % (a, e)
            emit(o)
        # what the handles show after the block was emptied, and after each further change through either of them
        for _ in range(rng.randrange(1, 5)):
            b = a if rng.random() < 0.6 else rng.choice(share)
            n = len(c.l)
            w = rng.random()
            if w < 0.45 or n == 0:
                emit(("push %d %s" if cont == "k" and rng.random() < 0.6 else "put %d %s" if cont == "q" and rng.random() < 0.6 else "app %d %s") % (b, rval(rng, t, True)))
            elif w < 0.6:
                emit("ins %d %d %s" % (b, rng.randrange(n + 1), rval(rng, t)))
            elif w < 0.7:
                emit("rsz %d %d %s" % (b, rng.randrange(1, min(c.cap, 9) + 1), rval(rng, t)))
            elif w < 0.8:
                emit("set %d %d %s" % (b, rng.randrange(n), rval(rng, t)))
            elif w < 0.9:
                emit("eq %d %d" % (b, rng.choice(share)))
            else:
                emit("appil %d %s" % (b, " ".join(rval(rng, t) for _ in range(rng.randrange(1, 4)))))
    if rng.random() < 0.8:
        for i in range(NS):
            if ref.H[i] is not None:
                emit("drop %d" % i)
    return lines


def gen(rng, tier):
    cases = []
    quick = tier == "quick"
    nsmall, nmed, nlarge = (1000, 320, 90) if quick else (30000, 9000, 1200)
    kinds = ["ia", "sa", "ca", "ca", "sa", "ik", "sk", "ck", "iq", "sq", "cq"]
    # a block on either side of the large-block line, shared by several handles, emptied through one of them, refilled
    # (first: the engine ranks the first 64 failures by the oracle's verdict, these are the ones with several handles)
    for i in range(154 if quick else 2200):
        p = kinds[i % len(kinds)]
        cases.append(gen_shared_empty(rng, p[0], p[1]))
    for i in range(nsmall):
        p = kinds[i % len(kinds)]
        cases.append(gen_case(rng, p[0], p[1], rng.randrange(1, 40), "small", exclusive=(i % 2 == 0)))
    for i in range(nmed):
        p = kinds[i % len(kinds)]
        cases.append(gen_case(rng, p[0], p[1], rng.randrange(40, 160), "small", exclusive=(i % 2 == 0)))
    for i in range(nlarge):
        p = kinds[i % len(kinds)]
        cases.append(gen_case(rng, p[0], p[1], rng.randrange(60, 400), "large", exclusive=(i % 2 == 0)))
    for i in range(250 if quick else 6000):
        cases.append(gen_nested(rng, rng.randrange(3, 40)))
    # sort / sort(less) / sortBy on a median-killer permutation, run by the harness on a 24 KB thread stack: a recursion
    # as deep as the array is long (the code before dff9640) overflows it from about 600 elements on
    for mode in range(3):
        for _ in range(1 if quick else 4):
            cases.append(["ia reset", "ia ksort %d %d %d" % (rng.randrange(NS), rng.randrange(900, 1300), mode), "ia iter 0", "ia get %d 5" % rng.randrange(NS)])
    cases += exhaustive_cases(3 if quick else 5, ["c"] if quick else ["c", "s"])
    return cases


EXHAUSTIVE = {"quick": "all sequences of length <= 3 over the 9-op alphabet %s on Array<Counted>" % ALPHABET,
              "thorough": "all sequences of length <= 5 over the 9-op alphabet %s on Array<Counted> and Array<String>" % ALPHABET}

GROW = ("app", "ins", "appo", "inso", "insx", "push", "put", "apnd", "appp", "appil", "kapp")
MID = ("ins", "inso", "insx", "rem", "remone", "remif", "qget", "apndk", "copyk", "asgk", "asgi")


def nontrivial(case):
    ops = [l.split()[1] for l in case]
    return any(o in MID for o in ops) and (sum(1 for o in ops if o in GROW) >= 4 or any(o in ("rsz", "res", "newn") for o in ops))


def distribution(cases):
    ops = {}
    by_prefix = {}
    agg = {"grow_reserve_malloc": 0, "grow_reserve_realloc": 0, "grow_insert_realloc": 0, "skipped_shared_growth": 0,
           "mid_insert": 0, "mid_remove": 0, "self_ref": 0}
    maxlen = 0
    maxrc = 0
    caps = set()
    lens = {"1-10": 0, "11-50": 0, "51-150": 0, "151-400": 0, ">400": 0}
    for c in cases:
        n = len(c)
        lens["1-10" if n <= 10 else "11-50" if n <= 50 else "51-150" if n <= 150 else "151-400" if n <= 400 else ">400"] += 1
        ref = None
        for l in c:
            t = l.split()
            ops[t[1]] = ops.get(t[1], 0) + 1
            if t[1] == "reset":
                ref = Ref(t[0][0]) if t[0][0] != "n" else None
                by_prefix[t[0]] = by_prefix.get(t[0], 0) + 1
                continue
            if ref is not None:
                try:
                    ref.do(t[1:], render=False)
                except Exception:
                    pass
        if ref is not None:
            for k in agg:
                agg[k] += ref.stats[k]
            maxlen = max(maxlen, ref.stats["maxlen"])
            maxrc = max(maxrc, ref.stats["maxrc"])
            caps |= ref.stats["caps"]
    d = {"ops_by_kind": ops, "cases_by_element_and_container": by_prefix, "history_length": lens, "max_array_length": maxlen,
         "max_rc": maxrc, "distinct_capacities_reached": len(caps),
         "capacities_reached_sample": sorted(caps)[:12] + sorted(caps)[-24:]}
    d.update(agg)
    return d


KNOWN = [{"key": "shared-growth",
          "desc": "growing a block through one handle while another handle shares it leaves the other handle dangling",
          "case": ["ia reset", "ia new 0", "ia cp 1 0", "ia xapp 0 0", "ia xapp 0 1", "ia xapp 0 2", "ia xapp 0 3"]}]


def _strip_caps(line):
    """drop the ` | K...` section (capacities are not part of the property)"""
    parts = line.split(" | ")
    return " | ".join(x for x in parts if not x.startswith("K"))


def oracle(case, impl, model, crash):
    if case and case[0].startswith("n"):
        if crash:
            return True, "memory error / abnormal termination: %s" % crash
        return True, "Array<Node> history: implementation differs from the reference-level model"
    return _oracle_flat(case, impl, model, crash)


def _oracle_flat(case, impl, model, crash):
    """judge a divergence on the implementation alone: replay the history on the python reference following the
    implementation's own skip decisions (the growth policy is not part of the property)"""
    if crash:
        return True, "memory error / abnormal termination: %s" % crash
    lines = [l for l in case]
    out = [o for o in impl if o != "case"]
    if len(out) < len(lines):
        return True, "implementation stopped answering"
    ref = None
    for l, o in zip(lines, out):
        t = l.split()
        if t[1] == "reset":
            ref = Ref(t[0][0])
            continue
        if ref is None:
            return True, "history without reset"
        ref.follow = o.startswith("skip")
        try:
            exp = ref.do(t[1:])
        except Exception:
            exp = None
        if exp is None:
            continue
        exp = _strip_caps(exp)
        o = _strip_caps(o)
        if exp != o:
            return True, "sequence semantics violated at `%s`: implementation `%s`, reference `%s`" % (l, o[:200], exp[:200])
    mout = [o for o in model if o != "case"]
    for l, o, m in zip(lines, out, mout):
        if l.split()[1] == "sortc" and o.split(" | ")[0] != m.split(" | ")[0]:
            return False, ("the sort keeps the sequence semantics and the live count on this history, but at `%s` it makes a different number of "
                           "element temporaries (implementation `%s`, model ledger `%s`: copies made, peak alive); the ledger qsortListT no longer "
                           "matches the source, the correspondence K no longer validates the model" % (l, o.split(" | ")[0], m.split(" | ")[0]))
    return False, ("the implementation keeps the sequence semantics on this history but its capacity decisions differ from the "
                   "model's growth policy (a skip of the documented shared-growth class happened at a different operation); "
                   "the correspondence K no longer validates the model")
