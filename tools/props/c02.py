"""C02 — Map, Dic, HashMap, HashDic and Set behave as finite maps and sets: plugin for tools/check.py"""
import re

from lib import core, cparse
from lib.core import hexs
from lib.engine import TranslateError

ID = "C02"
PROPS_MODULE = "AslProps.C02"
DRIVER = "c02"
RULE = ("cases = operation histories (insert/overwrite/operator[]/find/has/get/remove/clear/clone/add(merge, also with itself)/==/set "
        "algebra/enumeration) over up to 4 containers of each of Map<int,int>, Dic<String>, HashMap<int,int>, HashDic<int>, Set<int>, "
        "Set<String>; key pools: small dense ints, ints congruent mod 256 / 2048 / table size, negative ints, strings with "
        "20-60 byte common prefixes, full-hash-colliding strings built from \"Ab\"/\"BA\" blocks, bytes >= 0x80, the empty "
        "string; exhaustive probe of every key and every gap of ordered maps of sizes 0..6; tables created with 1..64 buckets "
        "(and size hints 0 / -1) so growth thresholds are crossed early, plus histories crossing 225 and 1793 entries, also while a second "
        "handle to the same table exists (`share` = HashMap::operator=); pairs of containers with equal "
        "contents built in different orders / table sizes / with insert+remove noise, then ==; `raw` ops print the bucket count and "
        "the unsorted enumeration of hash containers on both sides; `cv` lines build a source map and run a converting constructor "
        "(int -> String keys 9/10/100, negatives, random 32-bit; double q/4 -> int keys that merge; same-key-type Map and Dic), a few "
        "malformed (odd token count, unknown variant); s << s (`addself`) at every growth threshold and on over-full sets (1..8 buckets, "
        "5..600 members inserted while a second handle suppressed growth, handle then dropped) with `raw`/`walk` before and after; "
        "non-trivial = distinct case with at least one mutation and one observation")
TRUSTED = ["tools/props/c02.py translate(): regex extraction of the hash-table constants (String hash multiplier, HashMap() size, "
           "rehash fill fraction / factor / slot limit, nextPoT shifts) and shape checks of hash(int), binOf, ASL_HMAP_SKIP from "
           "include/asl/HashMap.h into lean/Gen/HashMapGen.lean",
           "tools/props/c02.py: generator, oracle() and python dict/set reference simulation (extra pass)",
           "harness/c02.cpp: canonicalisation (dump: hash-map enumerations sorted by key; raw: bucket count + enumeration as is; "
           "ordered-map enumerations printed in order)"]
ASSUMPTIONS = ["String keys are NUL-free: String::compare is libc strcmp = lexicographic order on unsigned bytes (AslModel.Map.cmpBytes)",
               "hash(const String&) arithmetic `hashMul*h + p[i]` wraps modulo 2^32 and `char` is signed (AslModel.HashMap.hashBytes); "
               "compared with the code through the bucket placement shown by `raw`",
               "sizeof(AtomicCount) <= sizeof(void*), i.e. ASL_HMAP_SKIP == 2 (checked by the harness in every `raw` op)",
               "Array<T>::insert/remove/clone on an unshared array behave as list insert/erase/copy (C01)",
               "operator new/delete of chain nodes succeed; Map/Dic handles are unshared when mutated (shared Array growth is C01's known finding)"]
SHRINK_KEEP_FIRST = 0

# Known finding (recorded in known_findings.txt).  Excluded input class, decidable on the op list: an `asgfrom s k j`
# (`m[k] = m[j]`) on an ORDERED map (mi, ds) where k or j is absent at that point.  gen() emits ordered asgfrom only through
# asgfrom_present(), which keeps both keys present; hash containers get asgfrom with arbitrary keys (their nodes do not move).
KNOWN = [{"key": "index-assign-from-own-element",
          "desc": "Map<int,int> m; m[5]=55; m[7]=77; m[1] = m[5]; m[1] is 0 (Dic<String>: d[\"a\"] = d[\"b\"] gives \"\")",
          "case": ["mi set 0 5 55", "mi set 0 7 77", "mi asgfrom 0 1 5", "mi find 0 1", "mi dump 0",
                   "ds set 0 62 76616c7565206f662062", "ds set 0 63 76616c7565206f662063", "ds asgfrom 0 61 62", "ds find 0 61"]}]

FALLBACK = {"Gen/HashMapGen.lean": "/- placeholder written because the translator failed on the current source -/\n"
            "namespace Gen.HashMap\ndef hashMul : Int := 0\ndef defaultBuckets : Nat := 0\ndef growNum : Nat := 0\n"
            "def growDen : Nat := 0\ndef growFactor : Nat := 0\ndef maxSlots : Nat := 0\ndef skip : Nat := 0\n"
            "def potShifts : List Nat := []\nend Gen.HashMap\n"}


def _one(rx, src, what):
    m = re.findall(rx, src)
    if len(m) != 1:
        raise TranslateError("%s: expected exactly one match of /%s/ in include/asl/HashMap.h, found %d" % (what, rx, len(m)))
    return m[0]


def _consts(repo):
    src = cparse.read(repo, "include/asl/HashMap.h").replace("\r\n", "\n")
    # hash(int x) must be the identity
    body = cparse.find_function(src, r"inline\s+int\s+hash\s*\(\s*int\s+x\s*\)\s*\{")
    if re.sub(r"\s+", "", body) != "{returnx;}":
        raise TranslateError("hash(int) is no longer `return x;`: " + body.strip()[:80])
    # hash(const String&): h = MUL*h + p[i] over `const char* p`, from h = 0
    body = cparse.find_function(src, r"inline\s+int\s+hash\s*\(\s*const\s+String\s*&\s*s\s*\)\s*\{")
    flat = re.sub(r"\s+", "", body)
    m = re.fullmatch(r"\{inth=0,n=s\.length\(\);constchar\*p=s;for\(inti=0;i<n;i\+\+\)h=(\d+)\*h\+p\[i\];returnh;\}", flat)
    if not m:
        raise TranslateError("hash(const String&) has an unrecognised shape: " + flat[:120])
    mul = int(m.group(1))
    # ASL_HMAP_SKIP: two header slots when AtomicCount fits a pointer (checked at run time by the harness `raw` op)
    sk = _one(r"#define\s+ASL_HMAP_SKIP\s+(.*)", src, "ASL_HMAP_SKIP").strip()
    if re.sub(r"\s+", "", sk) != "(2+int((sizeof(AtomicCount)-1)/sizeof(void*)))":
        raise TranslateError("ASL_HMAP_SKIP has an unrecognised definition: " + sk)
    # nextPoT: n--; n |= n >> k; ... ; return n + 1;
    body = re.sub(r"\s+", "", cparse.find_function(src, r"inline\s+int\s+nextPoT\s*\(\s*int\s+n\s*\)\s*\{"))
    m = re.fullmatch(r"\{n--;((?:n\|=n>>\d+;)+)returnn\+1;\}", body)
    if not m:
        raise TranslateError("nextPoT has an unrecognised shape: " + body[:120])
    shifts = [int(x) for x in re.findall(r"n>>(\d+);", m.group(1))]
    dflt = int(_one(r"HashMap\s*\(\s*\)\s*:\s*a\s*\(\s*(\d+)\s*\+\s*ASL_HMAP_SKIP\s*\)", src, "HashMap() default size"))
    body = cparse.find_function(src, r"void\s+rehash\s*\(\s*\)\s*\{")
    flat = re.sub(r"\s+", "", body)
    m = re.search(r"if\(_n\(\)<a\.length\(\)\*(\d+)/(\d+)\|\|a\.length\(\)>(\d+)\|\|_rc\(\)>1\)return;", flat)
    if not m:
        raise TranslateError("rehash(): growth condition not recognised (expected `_n() < a.length()*N/D || a.length() > MAX || "
                             "_rc() > 1` -> return; the model never grows a table that other handles share)")
    ctor = re.sub(r"\s+", "", cparse.find_function(src, r"HashMap\s*\(\s*int\s+n\s*\)\s*\{"))
    if not ctor.startswith("{if(n<1)n=1;a.resize(nextPoT(n)+ASL_HMAP_SKIP);"):
        raise TranslateError("HashMap(int n): expected `if (n < 1) n = 1; a.resize(nextPoT(n)+ASL_HMAP_SKIP);` (AslModel.HashMap.ofSize): "
                             + ctor[:100])
    num, den, mx = int(m.group(1)), int(m.group(2)), int(m.group(3))
    m = re.search(r"Array<KeyValN\*>b\(\(a\.length\(\)-ASL_HMAP_SKIP\)\*(\d+)\+ASL_HMAP_SKIP\);", flat)
    if not m:
        raise TranslateError("rehash(): new table size not recognised")
    fac = int(m.group(1))
    if "intbin=(hash(p->key)&(b.length()-ASL_HMAP_SKIP-1))+ASL_HMAP_SKIP;" not in flat:
        raise TranslateError("rehash(): bucket computation for the new table not recognised")
    binof = re.sub(r"\s+", "", cparse.find_function(src, r"int\s+binOf\s*\(\s*const\s+K\s*&\s*key\s*\)\s*const\s*\{"))
    if binof != "{return(hash(key)&(a.length()-ASL_HMAP_SKIP-1))+ASL_HMAP_SKIP;}":
        raise TranslateError("binOf has an unrecognised shape: " + binof[:120])
    return {"mul": mul, "dflt": dflt, "num": num, "den": den, "fac": fac, "max": mx, "shifts": shifts}


def translate(repo):
    """G: the constants of the hash table (hash multiplier, default size, growth rule, nextPoT shifts) are re-read from
    include/asl/HashMap.h on every run; anything unrecognised is an error, never a default"""
    c = _consts(repo)
    mul, dflt, num, den, fac, mx, shifts = c["mul"], c["dflt"], c["num"], c["den"], c["fac"], c["max"], c["shifts"]
    txt = "/- GENERATED by tools/props/c02.py from include/asl/HashMap.h — do not edit -/\nnamespace Gen.HashMap\n\n"
    txt += "/-- multiplier of `hash(const String&)`: `h = hashMul*h + p[i]` -/\ndef hashMul : Int := %d\n" % mul
    txt += "/-- bucket count of `HashMap()` -/\ndef defaultBuckets : Nat := %d\n" % dflt
    txt += "/-- `rehash()` grows when `_n() >= a.length()*growNum/growDen` unless `a.length() > maxSlots`, by `growFactor` -/\n"
    txt += "def growNum : Nat := %d\ndef growDen : Nat := %d\ndef growFactor : Nat := %d\ndef maxSlots : Nat := %d\n" % (num, den, fac, mx)
    txt += "/-- `ASL_HMAP_SKIP` (header slots) when `sizeof(AtomicCount) <= sizeof(void*)` -/\ndef skip : Nat := 2\n"
    txt += "/-- the shifts of `nextPoT`: `n |= n >> k` in this order -/\ndef potShifts : List Nat := [%s]\n" % ", ".join(map(str, shifts))
    txt += "\nend Gen.HashMap\n"
    return {"Gen/HashMapGen.lean": txt}

ORDERED = ("mi", "ds")
HASHED = ("hi", "hs")
SETS = ("si", "ss")
INTKEY = ("mi", "hi", "si")


# ------------------------------------------------------------------ key pools

def collide_strings(rng, k):
    """2^k strings with identical asl hash: concatenations of the blocks "Ab" / "BA" (33*65+98 == 33*66+65)"""
    out = []
    for bits in range(1 << k):
        out.append(b"".join(b"Ab" if (bits >> i) & 1 else b"BA" for i in range(k)))
    rng.shuffle(out)
    return out


def asl_hash(b):
    """hash(const String&) of HashMap.h, re-implemented for the generator only (signed char, 32-bit wrap)"""
    h = 0
    for c in b:
        h = (33 * h + (c if c < 128 else c - 256)) & 0xffffffff
    return h


def int_pool(rng):
    """(class name, list of int keys)"""
    c = rng.randrange(8)
    if c == 0:
        return "dense", list(range(rng.randrange(1, 14)))
    if c == 1:
        base = rng.randrange(0, 256)
        return "mod256", [base + 256 * j for j in range(rng.randrange(2, 10))]
    if c == 2:
        base = rng.randrange(0, 2048)
        return "mod2048", [base + 2048 * j for j in range(rng.randrange(2, 10))]
    if c == 3:
        return "negative", [rng.randrange(-40, 8) for _ in range(rng.randrange(2, 12))] + [-2147483648, 2147483647, -1, -256, -257]
    if c == 4:
        # two or three chains + neighbours
        bs = [rng.randrange(0, 256) for _ in range(3)]
        return "chains3", [b + 256 * j for b in bs for j in range(rng.randrange(1, 5))]
    if c == 5:
        return "random32", [rng.randrange(-2 ** 31, 2 ** 31) for _ in range(rng.randrange(2, 16))]
    if c == 6:
        m = rng.choice([1, 2, 4, 8, 16, 64])
        base = rng.randrange(0, m)
        return "modsmall", [base + m * j for j in range(rng.randrange(2, 12))] + [rng.randrange(0, 4 * m) for _ in range(3)]
    return "mixed", list(range(4)) + [256, 512, 257, 2048, 4096, 2304, -256, 65536, 1 << 20]


def str_pool(rng):
    c = rng.randrange(7)
    if c == 0:
        pre = bytes(rng.choice(b"ab") for _ in range(rng.randrange(20, 60)))
        return "longprefix", [pre + bytes(rng.choice(b"abc") for _ in range(rng.randrange(0, 3))) for _ in range(rng.randrange(3, 12))] + [pre, pre[:-1]]
    if c == 1:
        return "AbBA", collide_strings(rng, rng.randrange(1, 4))[:10] + [b"Ab", b"BA", b"A", b"B"]
    if c == 2:
        return "highbytes", [bytes(rng.choice([0x7f, 0x80, 0xff, 0x01, 0x41]) for _ in range(rng.randrange(0, 4))) for _ in range(10)]
    if c == 3:
        return "short", [b"", b"a", b"b", b"aa", b"ab", b"ba", b"abc", b"abd", b"b\x80"]
    if c == 4:
        # different hashes, same bucket of a 256-slot table: search random short strings
        groups = {}
        for _ in range(1500):
            b = bytes(rng.choice(b"abcdeXYZ\x80\xfe") for _ in range(rng.randrange(1, 5)))
            groups.setdefault(asl_hash(b) & 255, set()).add(b)
        best = max(groups.values(), key=len)
        return "samebucket", sorted(best)[:12]
    if c == 5:
        return "random", [bytes(rng.randrange(1, 256) for _ in range(rng.randrange(0, 9))) for _ in range(rng.randrange(2, 14))]
    pre = b"prefix/" * rng.randrange(3, 9)
    return "pathlike", [pre + bytes([rng.choice(b"xyz")]) * rng.randrange(0, 3) for _ in range(8)] + collide_strings(rng, 2)


def kstr(kind, k):
    return str(k) if kind in INTKEY else hexs(k)


def vstr(kind, rng):
    if kind == "ds":
        return hexs(bytes(rng.choice(b"vw\x80") for _ in range(rng.randrange(0, 4))))
    return str(rng.choice([0, 1, 7, -3, rng.randrange(-1000, 1000)]))


def pool_for(kind, rng):
    return int_pool(rng) if kind in INTKEY else str_pool(rng)


# ------------------------------------------------------------------ histories

def dumps(kind, slots=(0, 1, 2, 3)):
    out = []
    for s in slots:
        out.append("%s dump %d" % (kind, s))
        if kind in ORDERED:
            out.append("%s keys %d" % (kind, s))
        else:
            out.append("%s raw %d" % (kind, s))
        out.append("%s walk %d" % (kind, s))
    return out


def history(rng, kind, nops, pool=None, news=True):
    cls, keys = pool if pool else pool_for(kind, rng)
    POOL_STATS[cls] = POOL_STATS.get(cls, 0) + 1
    ops = []
    K = lambda: kstr(kind, rng.choice(keys))
    S = lambda: rng.randrange(0, 2) if rng.random() < 0.8 else rng.randrange(0, 4)
    if kind not in ORDERED and news:
        for s in range(4):
            if rng.random() < 0.5:
                ops.append("%s new %d %d" % (kind, s, rng.choice([0, -1, 1, 1, 2, 3, 4, 5, 8, 9, 16, 17, 64, 100, 256, 300, 2048])))
    for _ in range(nops):
        r = rng.random()
        s = S()
        if kind in ORDERED:
            if r < 0.22: ops.append("%s set %d %s %s" % (kind, s, K(), vstr(kind, rng)))
            elif r < 0.36: ops.append("%s asg %d %s %s" % (kind, s, K(), vstr(kind, rng)))
            elif r < 0.41: ops.append("%s idx %d %s" % (kind, s, K()))
            elif r < 0.45: ops.append("%s cidx %d %s" % (kind, s, K()))
            elif r < 0.55: ops.append("%s find %d %s" % (kind, s, K()))
            elif r < 0.62: ops.append("%s has %d %s" % (kind, s, K()))
            elif r < 0.66: ops.append("%s get %d %s %s" % (kind, s, K(), vstr(kind, rng)))
            elif r < 0.80: ops.append("%s rem %d %s" % (kind, s, K()))
            elif r < 0.81: ops.append("%s clear %d" % (kind, s))
            elif r < 0.84: ops.append("%s clone %d %d" % (kind, s, S()))
            elif r < 0.87: ops.append("%s add %d %d" % (kind, s, S()))
            elif r < 0.88: ops.append("%s addself %d" % (kind, s))
            elif r < 0.93: ops.append("%s eq %d %d" % (kind, s, S()))
            elif r < 0.96: ops.append("%s dump %d" % (kind, s))
            elif r < 0.98: ops.append("%s keys %d" % (kind, s))
            else: ops.append("%s len %d" % (kind, s))
        elif kind in HASHED:
            if r < 0.20: ops.append("%s set %d %s %s" % (kind, s, K(), vstr(kind, rng)))
            elif r < 0.36: ops.append("%s asg %d %s %s" % (kind, s, K(), vstr(kind, rng)))
            elif r < 0.41: ops.append("%s idx %d %s" % (kind, s, K()))
            elif r < 0.45: ops.append("%s cidx %d %s" % (kind, s, K()))
            elif r < 0.55: ops.append("%s find %d %s" % (kind, s, K()))
            elif r < 0.62: ops.append("%s has %d %s" % (kind, s, K()))
            elif r < 0.64: ops.append("%s get %d %s %s" % (kind, s, K(), vstr(kind, rng)))
            elif r < 0.67: ops.append("%s asgfrom %d %s %s" % (kind, s, K(), K()))
            elif r < 0.83: ops.append("%s rem %d %s" % (kind, s, K()))
            elif r < 0.84: ops.append("%s clear %d" % (kind, s))
            elif r < 0.87: ops.append("%s clone %d %d" % (kind, s, S()))
            elif r < 0.89: ops.append("%s share %d %d" % (kind, s, S()))
            elif r < 0.895: ops.append("%s dup %d" % (kind, s))
            elif r < 0.94: ops.append("%s eq %d %d" % (kind, s, S()))
            elif r < 0.96: ops.append("%s dump %d" % (kind, s))
            elif r < 0.99: ops.append("%s raw %d" % (kind, s))
            else: ops.append("%s len %d" % (kind, s))
        else:
            if r < 0.30: ops.append("%s ins %d %s" % (kind, s, K()))
            elif r < 0.45: ops.append("%s rem %d %s" % (kind, s, K()))
            elif r < 0.55: ops.append("%s has %d %s" % (kind, s, K()))
            elif r < 0.56: ops.append("%s clear %d" % (kind, s))
            elif r < 0.58: ops.append("%s clone %d %d" % (kind, s, S()))
            elif r < 0.595: ops.append("%s share %d %d" % (kind, s, S()))
            elif r < 0.60: ops.append("%s dup %d" % (kind, s))
            elif r < 0.62: ops.append("%s from %d %s" % (kind, s, " ".join(K() for _ in range(rng.randrange(0, 6)))))
            elif r < 0.65: ops.append("%s addset %d %d" % (kind, s, S()))
            elif r < 0.67: ops.append("%s addself %d" % (kind, s))
            elif r < 0.73: ops.append("%s eq %d %d" % (kind, s, S()))
            elif r < 0.78: ops.append("%s cont %d %d" % (kind, s, S()))
            elif r < 0.82: ops.append("%s any %d %d" % (kind, s, S()))
            elif r < 0.86: ops.append("%s union %d %d %d" % (kind, rng.randrange(0, 4), S(), S()))
            elif r < 0.90: ops.append("%s inter %d %d %d" % (kind, rng.randrange(0, 4), S(), S()))
            elif r < 0.94: ops.append("%s diff %d %d %d" % (kind, rng.randrange(0, 4), S(), S()))
            elif r < 0.96: ops.append("%s dump %d" % (kind, s))
            elif r < 0.99: ops.append("%s raw %d" % (kind, s))
            else: ops.append("%s len %d" % (kind, s))
    return ops + dumps(kind)


def probe_ordered(kind, n, rng):
    """ordered map of size n (keys 10,20,..): probe every key and every gap with every lookup/mutation"""
    if kind == "mi":
        keys = [10 * (i + 1) for i in range(n)]
        probes = [5 + 5 * i for i in range(2 * n + 1)]
    else:
        pre = b"k" * 24
        keys = [pre + bytes([0x42 + 2 * i]) for i in range(n)]
        probes = [pre + bytes([0x41 + i]) for i in range(2 * n + 1)] + [pre, pre[:-1], b""]
    order = list(keys)
    rng.shuffle(order)
    build = ["%s set 0 %s %s" % (kind, kstr(kind, k), vstr(kind, rng)) for k in order]
    cases = []
    for p in probes:
        pk = kstr(kind, p)
        for op in ("find", "has", "cidx", "get", "idx", "rem", "set", "asg"):
            line = "%s %s 0 %s" % (kind, op, pk)
            if op in ("get", "set", "asg"):
                line += " " + vstr(kind, rng)
            cases.append(build + [line] + dumps(kind, (0,)))
    return cases


def equal_contents(rng, kind):
    """two containers with the same contents built in different orders / table sizes / with noise; then == both ways;
    then one perturbation and == again"""
    cls, keys = pool_for(kind, rng)
    POOL_STATS[cls] = POOL_STATS.get(cls, 0) + 1
    keys = list(dict.fromkeys(kstr(kind, k) for k in keys))
    vals = {k: vstr(kind, rng) for k in keys}
    ops = []
    if kind not in ORDERED:
        for s in (0, 1):
            if rng.random() < 0.7:
                ops.append("%s new %d %d" % (kind, s, rng.choice([0, 1, 2, 3, 4, 8, 16, 64, 256, 2048])))
    ins = "ins" if kind in SETS else rng.choice(["set", "asg"])
    def put(s, k):
        return "%s %s %d %s" % (kind, ins, s, k) + ("" if kind in SETS else " " + vals[k])
    for s in (0, 1):
        order = list(keys)
        rng.shuffle(order)
        noise = [k for k in keys if rng.random() < 0.4]
        seq = []
        for k in order:
            seq.append(put(s, k))
            if noise and rng.random() < 0.5:
                nk = noise.pop()
                # remove and re-insert later
                seq.append("%s rem %d %s" % (kind, s, nk))
                seq.append(put(s, nk))
        for nk in noise:
            seq.append("%s rem %d %s" % (kind, s, nk))
            seq.append(put(s, nk))
        ops += seq
    if kind not in ORDERED:
        ops += ["%s raw 0" % kind, "%s raw 1" % kind]
    ops += ["%s eq 0 1" % kind, "%s eq 1 0" % kind]
    if kind in SETS:
        ops += ["%s cont 0 1" % kind, "%s cont 1 0" % kind, "%s union 2 0 1" % kind, "%s inter 3 1 0" % kind,
                "%s eq 2 0" % kind, "%s eq 3 1" % kind, "%s diff 2 0 1" % kind]
    ops += ["%s clone 0 2" % kind, "%s eq 2 1" % kind, "%s eq 1 2" % kind]
    # perturb
    k = rng.choice(keys)
    r = rng.random()
    if r < 0.4:
        ops.append("%s rem 1 %s" % (kind, k))
    elif r < 0.7 and kind not in SETS:
        nv = str(int(vals[k]) + 1) if kind != "ds" else vals[k].replace("-", "") + "21"
        ops.append("%s set 1 %s %s" % (kind, k, nv))
    else:
        extra = "99991" if kind in INTKEY else hexs(b"zz-not-there")
        ops.append("%s %s 1 %s%s" % (kind, ins, extra, "" if kind in SETS else " " + vals[k]))
    ops += ["%s eq 0 1" % kind, "%s eq 1 0" % kind]
    return ops + dumps(kind)


def asgfrom_present(rng, kind):
    """`m[k] = m[j]` on an ORDERED map with both keys present (no insertion inside the expression).  The other
    class - k or j absent, so that one operator[] inserts while the reference returned by the other is live - is the
    known finding index-assign-from-own-element and is excluded, exactly: see KNOWN."""
    cls, keys = pool_for(kind, rng)
    keys = list(dict.fromkeys(kstr(kind, k) for k in keys))
    present = [k for k in keys if rng.random() < 0.7] or keys[:1]
    ops = ["%s set 0 %s %s" % (kind, k, vstr(kind, rng)) for k in present]
    for _ in range(rng.randrange(1, 8)):
        ops.append("%s asgfrom 0 %s %s" % (kind, rng.choice(present), rng.choice(present)))
        if rng.random() < 0.3:
            k = rng.choice(keys)
            ops.append("%s idx 0 %s" % (kind, k))
            if k not in present:
                present.append(k)
    return ops + dumps(kind, (0,))


def initasg_cases(rng):
    """Dic<String> d; ...; d = { {k1, d[j1]}, {k2, d[j2]}, ... } : initializer-list assignment whose values are references to
    the map's own values (8e6a06f).  With two or three pairs every j is present: a later `d[j]` that inserts would invalidate
    the earlier reference inside the caller's expression - that is the known finding index-assign-from-own-element again."""
    kind = "ds"
    cls, keys = pool_for(kind, rng)
    keys = list(dict.fromkeys(kstr(kind, k) for k in keys if 0 not in k))
    present = [k for k in keys if rng.random() < 0.7] or keys[:1]
    # values long enough to live on the heap (a freed value is then a sanitizer report, not a lucky read)
    ops = ["ds set 0 %s %s" % (k, hexs(bytes(rng.choice(b"vwxyz") for _ in range(rng.choice([0, 3, 20, 40])))))
           for k in present]
    for _ in range(rng.randrange(1, 4)):
        m = rng.randrange(1, 4)
        if m == 1:
            pr = [rng.choice(keys), rng.choice(keys)]
        else:
            pr = []
            for _ in range(m):
                pr += [rng.choice(keys), rng.choice(present)]
        ops.append("ds initasg 0 " + " ".join(pr))
        ops += ["ds dump 0", "ds keys 0"]
        # what the map holds now
        if m == 1:
            present = [pr[0]]
        else:
            present = list(dict.fromkeys(pr[0::2]))
        if rng.random() < 0.5:
            k = rng.choice(keys)
            ops.append("ds set 0 %s %s" % (k, vstr(kind, rng)))
            if k not in present:
                present.append(k)
    return ops + dumps(kind, (0,))


def growth(rng, kind, n, start=None, removes=0.1, shared=None):
    """n distinct insertions (crossing the growth thresholds), interleaved removals and lookups.
    shared=(i0, i1): slot 3 is a second handle to the same table while insertions i0..i1 happen (a copy of the
    handle exists while the fill thresholds are crossed), then slot 3 is rebound and growth may resume"""
    ops = []
    if start is not None:
        ops.append("%s new 0 %d" % (kind, start))
    ins = "ins" if kind in SETS else "asg"
    if kind in INTKEY:
        step = rng.choice([1, 3, 256, 2048, 7])
        keys = [rng.randrange(-50, 50) + step * i for i in range(n)]
    else:
        keys = [(b"key%d" % i) if i % 3 else b"AbBA" * (i // 3 % 5) + (b"%d" % i) for i in range(n)]
    live = []
    for i, k in enumerate(keys):
        ks = kstr(kind, k)
        if shared and i == shared[0]:
            ops.append("%s share 0 3" % kind)
        if shared and i == shared[1]:
            ops += ["%s len 3" % kind, "%s eq 0 3" % kind, "%s eq 3 0" % kind, "%s has 3 %s" % (kind, live[-1] if live else ks),
                    "%s dump 3" % kind, "%s raw 3" % kind, "%s raw 0" % kind,
                    ("%s new 3 4" if rng.random() < 0.5 else "%s dup 3") % kind, "%s raw 3" % kind]
        # insert through either handle while shared
        hs_ = 3 if shared and shared[0] <= i < shared[1] and rng.random() < 0.3 else 0
        ops.append("%s %s %d %s" % (kind, ins, hs_, ks) + ("" if kind in SETS else " %d" % i))
        live.append(ks)
        if rng.random() < removes:
            j = rng.randrange(len(live))
            ops.append("%s rem 0 %s" % (kind, live[j]))
            live[j] = live[-1]
            live.pop()
        if rng.random() < 0.05:
            ops.append("%s has 0 %s" % (kind, kstr(kind, rng.choice(keys))))
        if i in GROWTH_POINTS or rng.random() < 0.004:
            ops.append("%s len 0" % kind)
            ops.append("%s dump 0" % kind)
            ops.append("%s raw 0" % kind)
            if kind in HASHED and live:
                fresh = kstr(kind, 900000 + i if kind in INTKEY else b"fresh%d" % i)
                ops.append("%s asgfrom 0 %s %s" % (kind, fresh, rng.choice(live)))
                ops.append("%s find 0 %s" % (kind, fresh))
                live.append(fresh)
            if kind in SETS:
                # s << s exactly at / around the fill threshold: rehash() runs inside the enumeration of s itself
                ops.append("%s addself 0" % kind)
                ops.append("%s raw 0" % kind)
    ops.append("%s clone 0 1" % kind)
    ops.append("%s eq 0 1" % kind)
    ops.append("%s eq 1 0" % kind)
    # rebuild in another table in reverse order
    for ks in reversed(live[: min(len(live), 400)]):
        ops.append("%s %s 2 %s" % (kind, ins, ks) + ("" if kind in SETS else " 5"))
    if len(live) <= 400 and kind in SETS:
        ops.append("%s eq 0 2" % kind)
        ops.append("%s eq 2 0" % kind)
    for ks in live[: min(len(live), 300)]:
        ops.append("%s rem 0 %s" % (kind, ks))
    ops += ["%s dump 0" % kind, "%s dump 1" % kind, "%s len 2" % kind, "%s raw 0" % kind, "%s raw 1" % kind]
    return ops


# insertion indices around the fill thresholds of tables of 1, 8, 64, 256, 512, 2048, 4096 buckets
CV = ("i2s", "d2i", "i2l", "i2d", "s2s")


def cv_line(rng, var=None):
    """one `cv` line: a source map (pairs, set in the given order, keys repeated now and then) and the converting constructor.
    i2s / i2d: int keys whose decimal text sorts differently from their value (9, 10, 100, negatives); d2i: quarters q/4 that
    truncate to the same int; i2l / s2s: same key type (order kept)."""
    var = var or rng.choice(CV)
    n = rng.choice([0, 1, 2, 3, 3, 4, 5, 6, 8, 12])
    if var in ("i2s", "i2d"):
        c = rng.randrange(4)
        if c == 0:
            keys = [9, 10, 100, 11, 2, 20, 200, 1, 0, 99, 1000, 19, 101]
        elif c == 1:
            keys = [-1, -10, -9, 0, 5, 50, -5, -50, 49, -100, 7]
        elif c == 2:
            keys = [rng.randrange(-2 ** 31, 2 ** 31) for _ in range(8)] + [-2147483648, 2147483647]
        else:
            keys = list(range(rng.randrange(0, 120), rng.randrange(120, 140)))
        ks = [str(rng.choice(keys)) for _ in range(n)]
    elif var == "d2i":
        lo = rng.choice([-12, -40, 0, 4])
        ks = [str(rng.randrange(lo, lo + rng.choice([8, 16, 60]))) for _ in range(n)]
        if rng.random() < 0.1:
            ks = [str(rng.randrange(-2 ** 20, 2 ** 20)) for _ in range(n)]
    elif var == "i2l":
        ks = [str(rng.choice(int_pool(rng)[1])) for _ in range(n)]
    else:
        pool = str_pool(rng)[1]
        ks = [hexs(rng.choice(pool)) for _ in range(n)]
    toks = []
    for k in ks:
        toks += [k, str(rng.choice([0, 1, 7, -3, rng.randrange(-1000, 1000)]))]
    r = rng.random()
    if r < 0.03 and toks:
        toks = toks[:-1]            # malformed: a key without a value
    elif r < 0.05:
        var = rng.choice(["s2i", "I2S", "x"])   # malformed: unknown variant
    return " ".join(["cv", var] + toks)


def cv_cases(rng, n):
    out = [["cv i2s 9 90 10 100 100 1000", "cv d2i 5 1 7 2 14 3", "cv i2d 9 90 10 100 100 1000", "cv i2l 3 1 -2 5", "cv s2s 62 2 61 1 - 7",
            "cv i2s", "cv d2i", "cv d2i -5 1 -7 2 -1 4 1 5 3 6"]]
    for _ in range(n):
        out.append([cv_line(rng) for _ in range(rng.choice([1, 3, 6]))])
    return out


def sim_cv(t):
    """python reference of a `cv` line: dict built in ascending source-key order with the converted keys"""
    if len(t) < 2 or t[1] not in CV or (len(t) - 2) % 2:
        return "bad-op"
    var, args = t[1], t[2:]
    src = {}
    for i in range(0, len(args), 2):
        src[core.unhex(args[i]) if var == "s2s" else int(args[i])] = int(args[i + 1])
    if var in ("i2s", "i2d"):
        fk = lambda k: str(k).encode()
    elif var == "d2i":
        fk = lambda q: abs(q) // 4 * (1 if q >= 0 else -1)      # (int)(q / 4.0): toward zero
    else:
        fk = lambda k: k
    show = hexs if var in ("i2s", "i2d", "s2s") else str
    order = sorted(src)
    conv = {}
    for k in order:
        conv[fk(k)] = src[k]
    parts = [str(len(conv))] + ["%s:%d" % (show(k), conv[k]) for k in sorted(conv)] + ["|"]
    for k in order:
        parts += ["1", str(conv[fk(k)])]
    parts += ["|", "1", "|"]
    parts += ["1", "0", str(len(conv) - 1)] if order else ["-"]
    return " ".join(parts)


GROWTH_POINTS = frozenset([0, 1, 2, 6, 7, 8, 55, 56, 57, 58, 223, 224, 225, 226, 447, 448, 449, 450,
                           1791, 1792, 1793, 1794, 3584, 3585, 3586])
POOL_STATS = {}


def gen(rng, tier):
    q = tier == "quick"
    cases = []
    POOL_STATS.clear()
    # 1. exhaustive probes of ordered maps of sizes 0..6 (every branch of indexOf)
    for kind in ORDERED:
        for n in range(0, 7 if q else 10):
            cases += probe_ordered(kind, n, rng)
    # 2. random histories
    for kind in ORDERED + HASHED + SETS:
        for i in range(220 if q else 4000):
            cases.append(history(rng, kind, rng.choice([6, 12, 25, 50, 90])))
    # 3. equal contents, different construction
    for kind in ORDERED + HASHED + SETS:
        for i in range(120 if q else 2500):
            cases.append(equal_contents(rng, kind))
    for kind in ORDERED:
        for i in range(40 if q else 800):
            cases.append(asgfrom_present(rng, kind))
    for i in range(60 if q else 1200):
        cases.append(initasg_cases(rng))
    # 4. growth
    for kind in HASHED + SETS:
        for start in (None, 1, 3, 8, 64):
            for rep in range(1 if q else 6):
                cases.append(growth(rng, kind, rng.choice([60, 240, 300]), start, removes=rng.choice([0.0, 0.1, 0.3])))
    # 5. growth thresholds crossed while a second handle to the table exists (copy constructed / assigned handle)
    for kind in HASHED + SETS:
        for start, n, sh in ((None, 300, (10, 280)), (1, 80, (0, 70)), (8, 120, (5, 60)), (0, 40, (1, 30)), (64, 200, (50, 100))):
            for rep in range(1 if q else 4):
                a0 = sh[0] + rng.randrange(0, 3)
                cases.append(growth(rng, kind, n, start, removes=rng.choice([0.0, 0.05]), shared=(a0, sh[1] + rng.randrange(0, 5))))
    # 6. nextPoT itself (0, 1, negatives, every power of two and its neighbours up to 2^30, random; a few out of range
    #    or malformed) and explicit-Enumerator walks after histories with removes
    pots = [-4, -1, 0, 1, 2, 3] + [v for e in range(1, 31) for v in ((1 << e) - 1, 1 << e, (1 << e) + 1)]
    pots += [rng.randrange(1, 1 << rng.randrange(1, 31)) for _ in range(40 if q else 400)]
    pots += [(1 << 30) + 1, -5, 1 << 31]
    cases.append(["hi pot %d %d" % (rng.randrange(4), z) for z in pots] + ["hi pot 0", "hi set 0 1 1", "hi walk 0"])
    for kind in ORDERED + HASHED + SETS:
        for i in range(30 if q else 400):
            c = history(rng, kind, rng.choice([12, 25, 50]))
            c += ["%s walk %d" % (kind, s) for s in range(4)]
            cases.append(c)
    # 7. converting constructors Map<K,T>(const Map<K2,T2>&) / Dic(const Map<..>&) / Dic(const Dic<..>&): key conversions that
    #    reorder (int -> decimal text) or merge (double -> int) keys, and same-key-type conversions
    cases += cv_cases(rng, 150 if q else 3000)
    # 8. s << s on an OVER-FULL table (filled while a second handle suppressed growth, handle then dropped): the table grows
    #    several times INSIDE the one enumeration of s (HashMap.selfMerge; the case self_merge_interleaved_full leaves to K)
    for kind in SETS:
        for rep in range(6 if q else 60):
            nb, n = rng.choice([(1, 20), (1, 70), (2, 40), (8, 80), (4, 600), (1, 9), (2, 5)])
            ks = [kstr(kind, (rng.randrange(1, 64) * rng.choice([1, 8, 64, 512]) + j) if kind in INTKEY else b"k%d" % (j * rng.choice([1, 33]))) for j in range(n)]
            c = ["%s new 0 %d" % (kind, nb), "%s share 0 3" % kind] + ["%s ins 0 %s" % (kind, k) for k in ks]
            c += ["%s new 3 4" % kind, "%s raw 0" % kind, "%s addself 0" % kind, "%s raw 0" % kind, "%s len 0" % kind,
                  "%s has 0 %s" % (kind, ks[0]), "%s addself 0" % kind, "%s raw 0" % kind, "%s walk 0" % kind]
            cases.append(c)
    cases.append(growth(rng, "hi", 1900, None, removes=0.02))
    cases.append(growth(rng, "ss", 1850, 256, removes=0.0))
    if not q:
        for kind in HASHED + SETS:
            cases.append(growth(rng, kind, 1900, rng.choice([None, 2, 32]), removes=0.05))
        # a 1-bucket table crosses 2, 8, 57, 449 and 3585 entries (tables of 8 .. 32768 buckets)
        cases.append(growth(rng, "si", 3700, 1, removes=0.01))
        cases.append(growth(rng, "hs", 3700, 1, removes=0.0))
    return cases


MUT = ("dup", "initasg", "asgfrom", "share", "addself", "set", "asg", "idx", "rem", "ins", "from", "addset", "add", "clear", "union", "inter", "diff", "clone")
OBS = ("walk", "raw", "pot", "find", "has", "get", "cidx", "dump", "keys", "eq", "len", "cont", "any", "union", "inter", "diff", "idx")


def nontrivial(case):
    ops = [l.split()[1] for l in case if len(l.split()) > 1]
    if any(l.startswith("cv ") and len(l.split()) >= 6 for l in case):
        return True
    return any(o in MUT for o in ops) and any(o in OBS for o in ops)


class _Tbl:
    """bucket layout of one hash container, re-implemented for the STATISTICS of the evidence only (which chain
    position a removal hits, how often growth fires, == across table sizes); not used to judge anything"""
    C = None

    def __init__(self, nb=None):
        c = _Tbl.C
        self.nb = c["dflt"] if nb is None else nb
        self.b = {}
        self.n = 0

    @staticmethod
    def hash(k):
        if isinstance(k, int):
            return k & 0xffffffff
        h = 0
        for ch in k:
            h = (_Tbl.C["mul"] * h + (ch if ch < 128 else ch - 256)) & 0xffffffff
        return h

    def enum(self):
        return [k for i in sorted(self.b) for k in self.b[i]]

    def index(self, k, st, shared=False):
        c = _Tbl.C
        alen = self.nb + 2
        due = not (self.n < alen * c["num"] // c["den"] or alen > c["max"])
        if due and shared:
            st["growth_due_while_shared"] += 1
        if due and not shared:
            ks = self.enum()
            self.nb *= c["fac"]
            self.b = {}
            for x in ks:
                self.b.setdefault(self.hash(x) & (self.nb - 1), []).append(x)
            st["rehash_events"] += 1
            st["rehash_max_buckets"] = max(st["rehash_max_buckets"], self.nb)
        ch = self.b.setdefault(self.hash(k) & (self.nb - 1), [])
        if k not in ch:
            ch.append(k)
            self.n += 1
            st["max_chain"] = max(st["max_chain"], len(ch))

    def remove(self, k, st):
        i = self.hash(k) & (self.nb - 1)
        ch = self.b.get(i, [])
        if k not in ch:
            st["rem_absent"] += 1
            return
        p, L = ch.index(k), len(ch)
        st["rem_single" if L == 1 else "rem_head_with_tail" if p == 0 else "rem_last" if p == L - 1 else "rem_mid"] += 1
        ch.pop(p)
        if not ch:
            del self.b[i]
        self.n -= 1

    @staticmethod
    def nextpot(n):
        p = 1
        while p < n:
            p *= 2
        return p


def layout_stats(cases):
    try:
        _Tbl.C = _consts(core.REPO)
    except Exception:
        _Tbl.C = {"mul": 33, "dflt": 256, "num": 7, "den": 8, "fac": 8, "max": 280000}
    st = {k: 0 for k in ("rem_head_with_tail", "rem_mid", "rem_last", "rem_single", "rem_absent", "rehash_events",
                         "rehash_max_buckets", "max_chain", "eq_same_size", "eq_across_sizes", "self_merge", "share_ops",
                         "growth_due_while_shared", "new_with_size_below_1", "index_assign_from_own_element", "dup_in_place_while_shared",
                         "self_merge_at_growth_threshold", "raw_observations")}
    for c in cases:
        T = {kind: [_Tbl() for _ in range(4)] for kind in HASHED + SETS}
        for l in c:
            t = l.split()
            kind, op = t[0], t[1]
            if kind not in T:
                if op == "addself":
                    st["self_merge"] += 1
                continue
            sl = T[kind]
            s = int(t[2]) % 4
            a = sl[s]
            K = (lambda x: int(x)) if kind in INTKEY else (lambda x: core.unhex(x))
            sh = sum(1 for x in sl if x is a) > 1
            if op == "new":
                sl[s] = _Tbl(_Tbl.nextpot(max(1, int(t[3]))))
                if int(t[3]) < 1: st["new_with_size_below_1"] += 1
            elif op == "share":
                sl[int(t[3]) % 4] = a
                st["share_ops"] += 1
            elif op in ("set", "asg", "idx", "ins"): a.index(K(t[3]), st, sh)
            elif op == "asgfrom":
                st["index_assign_from_own_element"] += 1
                a.index(K(t[4]), st, sh); a.index(K(t[3]), st, sh)
            elif op == "rem": a.remove(K(t[3]), st)
            elif op == "clear": a.b = {}; a.n = 0
            elif op in ("clone", "dup"):
                nt = _Tbl(_Tbl.nextpot(a.nb))
                for k in a.enum(): nt.index(k, st)
                sl[int(t[3]) % 4 if op == "clone" else s] = nt
                if op == "dup" and sh: st["dup_in_place_while_shared"] += 1
            elif op == "eq":
                st["eq_same_size" if a.nb == sl[int(t[3]) % 4].nb else "eq_across_sizes"] += 1
            elif op == "from":
                nt = _Tbl()
                for x in t[3:]: nt.index(K(x), st)
                sl[s] = nt
            elif op == "addset":
                o = _Tbl()
                for k in sl[int(t[3]) % 4].enum(): o.index(k, st)
                for k in o.enum(): a.index(k, st, sh)
            elif op == "addself":
                st["self_merge"] += 1
                cc = _Tbl.C
                if a.n and not (a.n < (a.nb + 2) * cc["num"] // cc["den"] or a.nb + 2 > cc["max"]):
                    st["self_merge_at_growth_threshold"] += 1
                for k in a.enum(): a.index(k, st, sh)
            elif op in ("union", "inter", "diff"):
                x, y = sl[int(t[3]) % 4], sl[int(t[4]) % 4]
                ys = set(y.enum())
                nt = _Tbl()
                if op == "union":
                    for k in x.enum() + y.enum(): nt.index(k, st)
                else:
                    for k in x.enum():
                        if (k in ys) == (op == "inter"): nt.index(k, st)
                sl[s] = nt
            elif op in ("raw", "walk"): st["raw_observations"] += 1
    return st


def distribution(cases):
    d = {}
    sizes = {"<=10": 0, "11-50": 0, "51-200": 0, "201-1000": 0, ">1000": 0}
    for c in cases:
        n = len(c)
        sizes["<=10" if n <= 10 else "11-50" if n <= 50 else "51-200" if n <= 200 else "201-1000" if n <= 1000 else ">1000"] += 1
        for l in c:
            t = l.split()
            key = t[0] + "." + t[1]
            d[key] = d.get(key, 0) + 1
    return {"ops_by_kind": d, "case_lengths": sizes, "hash_layout": layout_stats(cases), "key_pool_classes": dict(POOL_STATS)}


# ------------------------------------------------------------------ independent reference: python dict / set



def _k(kind, t):
    return int(t) if kind in INTKEY else core.unhex(t)


def _ks(kind, k):
    return str(k) if kind in INTKEY else hexs(k)


def _sortkey(kind):
    return (lambda k: k) if kind in INTKEY else (lambda k: hexs(k))


def simulate(case):
    """expected implementation output of every line, from python dict/set semantics (the mathematical finite map/set)"""
    st = {kind: [dict() for _ in range(4)] for kind in ORDERED + HASHED + SETS}
    out = []
    for l in case:
        t = l.split()
        if t and t[0] == "cv":
            out.append(sim_cv(t))
            continue
        kind, op = t[0], t[1]
        sl = st[kind]
        s = int(t[2]) % 4
        a = sl[s]
        isint_v = kind != "ds"
        V = (lambda x: int(x)) if isint_v else (lambda x: core.unhex(x))
        VS = (lambda v: str(v)) if isint_v else (lambda v: hexs(v))
        dflt = 0 if isint_v else b""
        if kind in SETS:
            def dump(x):
                ks = sorted(x.keys(), key=_sortkey(kind))
                return " ".join([str(len(x)), "empty" if not x else "nonempty"] + [_ks(kind, k) for k in ks])
            if op == "new": sl[s] = {}; out.append("ok 0")
            elif op == "share": sl[int(t[3]) % 4] = a; out.append("ok %d" % len(a))
            elif op == "dup": sl[s] = dict(a); out.append("ok %d" % len(a))
            elif op == "ins": a[_k(kind, t[3])] = 1; out.append("ok %d" % len(a))
            elif op == "rem": a.pop(_k(kind, t[3]), None); out.append("ok %d" % len(a))
            elif op == "has": out.append("1" if _k(kind, t[3]) in a else "0")
            elif op == "clear": a.clear(); out.append("ok 0")
            elif op == "clone": sl[int(t[3]) % 4] = dict(a); out.append("ok %d" % len(a))
            elif op == "from": sl[s] = {_k(kind, x): 1 for x in t[3:]}; out.append("ok %d" % len(sl[s]))
            elif op == "addset": a.update(dict(sl[int(t[3]) % 4])); out.append("ok %d" % len(a))
            elif op == "addself": out.append("ok %d" % len(a))
            elif op in ("raw", "walk"): out.append(("raw", sorted(_ks(kind, k) for k in a)))
            elif op == "eq": out.append("1" if set(a) == set(sl[int(t[3]) % 4]) else "0")
            elif op == "cont": out.append("1" if set(sl[int(t[3]) % 4]) <= set(a) else "0")
            elif op == "any": out.append("1" if set(sl[int(t[3]) % 4]) & set(a) else "0")
            elif op in ("union", "inter", "diff"):
                x, y = set(sl[int(t[3]) % 4]), set(sl[int(t[4]) % 4])
                r = x | y if op == "union" else x & y if op == "inter" else x - y
                sl[s] = {k: 1 for k in r}
                out.append(dump(sl[s]))
            elif op == "len": out.append(str(len(a)))
            elif op == "dump": out.append(dump(a))
            else: out.append("bad-op")
            continue
        ordered = kind in ORDERED
        if op == "new": sl[s] = {}; out.append("ok 0")
        elif op == "share": sl[int(t[3]) % 4] = a; out.append("ok %d" % len(a))
        elif op == "dup": sl[s] = dict(a); out.append("ok %d" % len(a))
        elif op in ("set", "asg"): a[_k(kind, t[3])] = V(t[4]); out.append("ok %d" % len(a))
        elif op == "idx":
            k = _k(kind, t[3]); a.setdefault(k, dflt); out.append("%s %d" % (VS(a[k]), len(a)))
        elif op == "asgfrom":
            v = a.setdefault(_k(kind, t[4]), dflt); a[_k(kind, t[3])] = v; out.append("ok %d" % len(a))
        elif op == "initasg":
            prs = t[3:]
            vals = [(_k(kind, prs[i]), a.setdefault(_k(kind, prs[i + 1]), dflt)) for i in range(0, len(prs), 2)]
            a.clear(); a.update(vals); out.append("ok %d" % len(a))
        elif op == "cidx": out.append("%s %d" % (VS(a.get(_k(kind, t[3]), dflt)), len(a)))
        elif op == "find":
            k = _k(kind, t[3]); out.append("some " + VS(a[k]) if k in a else "none")
        elif op == "has": out.append("1" if _k(kind, t[3]) in a else "0")
        elif op == "get": out.append(VS(a.get(_k(kind, t[3]), V(t[4]))))
        elif op == "rem":
            k = _k(kind, t[3]); had = k in a; a.pop(k, None)
            out.append(("%d %d" % (1 if had else 0, len(a))) if ordered else "ok %d" % len(a))
        elif op == "clear": a.clear(); out.append("ok 0")
        elif op == "clone": sl[int(t[3]) % 4] = dict(a); out.append("ok %d" % len(a))
        elif op == "add": a.update(dict(sl[int(t[3]) % 4])); out.append("ok %d" % len(a))
        elif op == "addself": out.append("ok %d" % len(a))
        elif op in ("raw", "walk") and not ordered: out.append(("raw", sorted("%s:%s" % (_ks(kind, k), VS(a[k])) for k in a)))
        elif op == "pot" and not ordered:
            z = int(t[3]) if len(t) == 4 else -99
            out.append("bad-op" if z < -4 or z > 1 << 30 else str(0 if z < 1 else 1 << (z - 1).bit_length()))
        elif op == "eq": out.append("1" if a == sl[int(t[3]) % 4] else "0")
        elif op == "len": out.append(str(len(a)) + ((" empty" if not a else " nonempty") if ordered else ""))
        elif op == "keys": out.append(" ".join([str(len(a))] + [_ks(kind, k) for k in sorted(a)]))
        elif op == "dump" or (op == "walk" and ordered):
            ks = sorted(a) if ordered else sorted(a, key=_sortkey(kind))
            out.append(" ".join([str(len(a))] + ["%s:%s" % (_ks(kind, k), VS(a[k])) for k in ks]))
        else: out.append("bad-op")
    return out


def line_ok(got, exp):
    """exp is the exact expected text, or ("raw", sorted entries): the unsorted enumeration must be a permutation of the
    contents and the bucket count a power of two (the layout itself is the model's business, not the reference's)"""
    if isinstance(exp, tuple):
        t = got.split()
        if not t or not t[0].isdigit():
            return False
        nb = int(t[0])
        return nb >= 1 and nb & (nb - 1) == 0 and sorted(t[1:]) == exp[1]
    return got == exp


def outputs_ok(got, exp):
    return len(got) == len(exp) and all(line_ok(g, e) for g, e in zip(got, exp))


def show_exp(exp):
    return [e if not isinstance(e, tuple) else "<power-of-two> <any permutation of: %s>" % " ".join(e[1]) for e in exp]


def oracle(case, impl, model, crash):
    """judge a K divergence on the implementation alone.  Lines of `raw` ops expose internals (bucket count, enumeration
    order): if ONLY those differ between code and model, and the code's own output is still a correct finite map / set
    according to the python reference, no input violates the property — the model has stopped describing the code."""
    if crash:
        return True, "memory error / abnormal termination: %s" % crash
    got = impl[1:] if impl and impl[0] == "case" else impl
    try:
        exp = simulate(case)
    except Exception as e:  # a shrunk case the simulator cannot read: fall back to the strict verdict
        return True, "implementation output differs from the model output (reference simulation failed: %r)" % e
    if not outputs_ok(got, exp):
        return True, ("implementation output differs from the model output AND from the mathematical finite map / set "
                      "(python dict/set simulation of the same history)")
    return False, ("only the internal layout shown by `raw` (bucket count / enumeration order) differs between code and model; the "
                   "public behaviour is still that of a finite map: correspondence K no longer validates the model's hash, binOf, "
                   "growth rule or chain order")


def extra(ctx):
    """second, model-independent pass: the implementation against python dict/set semantics on the same histories
    (regenerated from the same seed); a disagreement is shrunk and reported with the full history as the replay"""
    import random
    from lib import engine
    exe = ctx["exe"]
    rng = random.Random(ctx["seed"] * 1000003 + 2)
    cases = engine.corpus_cases(ID) + gen(rng, ctx["tier"])
    lines, starts = engine.flatten(cases)
    fails = []
    checked = 0
    # run in a few batches (parallel not needed: the harness is fast)
    from concurrent.futures import ThreadPoolExecutor
    nb = max(1, min(core.NCPU, len(cases) // 50 or 1))
    size = (len(cases) + nb - 1) // nb
    batches = [cases[i:i + size] for i in range(0, len(cases), size)]

    def run(batch):
        ls, st = engine.flatten(batch)
        impl, crash, err = core.run_impl(exe, ls, timeout=600)
        bad = []
        n = 0
        for ci, c in enumerate(batch):
            exp = simulate(c)
            got = impl[st[ci] + 1: st[ci] + 1 + len(c)]
            n += min(len(got), len(exp))
            if not outputs_ok(got, exp):
                # a short `got` (crashed / truncated batch) is a failure too: never pass silently
                bad.append((c, got, exp))
                if len(got) != len(exp):
                    break
        return bad, n

    with ThreadPoolExecutor(max_workers=nb) as ex:
        for bad, n in ex.map(run, batches):
            checked += n
            for c, got, exp in bad:
                if len(fails) < 3:
                    fails.append((c, got, exp))
    ctx["stats"]["reference_checked"] = checked
    ctx["stats"]["reference"] = "python dict/set simulation of every history (tools/props/c02.py simulate)"
    out = []
    for c, got, exp in fails:
        def bad(cand):
            impl, crash, err = core.run_impl(exe, ["case 0"] + cand, timeout=60)
            return not outputs_ok(impl[1:], simulate(cand))
        if not bad(c):
            # the case passes alone: the batch was cut short before/inside it (crash elsewhere); report as it is
            f = engine.Failure("crash", c, got, ["case"] + show_exp(exp), crash="truncated-output",
                               clause="harness output for this history was truncated in its batch (%d of %d lines)" % (len(got), len(exp)),
                               name="reference oracle: python dict/set")
            out.append(f)
            continue
        c = ddmin(c, bad)
        impl, crash, err = core.run_impl(exe, ["case 0"] + c, timeout=60)
        f = engine.Failure("diverge" if crash is None else "crash", c, impl, ["case"] + show_exp(simulate(c)), crash=crash,
                           clause="implementation differs from the mathematical finite map / set (python dict/set simulation of the same history)",
                           name="reference oracle: python dict/set")
        out.append(f)
    return out


def ddmin(case, bad, max_trials=200):
    case = list(case)
    n = 2
    trials = 0
    while len(case) >= 2 and trials < max_trials:
        chunk = max(1, len(case) // n)
        reduced = False
        for s in range(0, len(case), chunk):
            cand = case[:s] + case[s + chunk:]
            if not cand:
                continue
            trials += 1
            if bad(cand):
                case = cand
                n = max(n - 1, 2)
                reduced = True
                break
            if trials >= max_trials:
                break
        if not reduced:
            if chunk == 1:
                break
            n = min(n * 2, len(case))
    return case


TECHNIQUE = ("Lean 4 theorems (binary-search loop invariant, representation invariants preserved by every operation, refinement "
             "to K -> Option V for an arbitrary hash function, obligations on constants regenerated from HashMap.h) + differential "
             "correspondence check incl. internal layout + python dict/set reference")
LEVEL_TEXT = ("Proved in Lean 4, for ALL inputs and histories, about the executable models the driver runs: (1) Map::indexOf, transcribed "
              "literally (do-while, first probe at n-1, encoded result), terminates, reads only inside the array and returns the index of the "
              "key or -(p)-1 with p the unique insertion point, on every strictly ascending array and every key, for any comparison that is "
              "a strict total order (compare<int> and strcmp-on-bytes are proved to be such); (2) every Map/Dic operation (set, operator[], "
              "m[k]=v, remove, clear, clone, add/merge also with itself, find/has/get) keeps the array strictly ascending and acts on the "
              "abstract map K->Option V as the finite-map operation, for every history (map_refines_finmap); keys()/enumeration strictly "
              "ascending, each key once, length() = number of distinct keys; == iff equal abstract maps; the converting constructors "
              "Map<K,T>(const Map<K2,T2>&), Dic<T>(const Map<K2,T2>&), Dic<T>(const Dic<T2>&) (Map.convert / Map.convertDic) give, for ANY key "
              "and value conversion (order-reversing, key-merging) and any source, a strictly ascending array that meets the binary-search "
              "spec, equals the fold of FinMap.set over the converted records, finds every converted source key and is == to every "
              "well-formed map of the same contents (map_convert_refines, dic_convert_refines, map_convert_eq_same_contents; K op `cv`: "
              "int -> decimal String keys, double k/4 -> int keys, same-key-type conversions; raw layout, has/get of every source key, "
              "== against the map built by insertion, remove); (3) HashMap/HashDic for an "
              "ARBITRARY hash function and any positive table size: the invariant (every key in bucket binOf(key), chains duplicate-free, "
              "count = number of entries) is preserved by operator[], set, remove (repaired d4d2172), clear, rehash and dup/clone, and holds "
              "for the table of every constructor argument incl. 0 and negative size hints (repaired 16300ca, hashmap_ofSize); the "
              "handle-level model the driver runs (AslModel.HashMap.Fam: objects = slots naming tables; member call, handle copy "
              "`object j = object i`, re-initialisation, clone()/dup()) refines a store of finite maps with the same aliasing for every "
              "history (handles_refine, handles_observe): what is done through one object is seen through exactly the objects naming the "
              "same map; "
              "find/has/get walking one chain equal a linear search of the whole enumeration; rehash preserves the abstract map; every "
              "history refines K->Option V (hashmap_refines_finmap); the enumeration lists each entry exactly once and tables with equal "
              "contents enumerate permutations of each other; operator== (repaired 12cf1de) iff equal abstract maps, whatever the insertion "
              "order, bucket sharing or growth (hashmap_eq_of_histories); (4) Set: every history of insert/remove/clear/clone/Set(Array)/"
              "<< (also s << s)/+/&/- keeps the table well-formed and has exactly the members of the same history on predicates "
              "(set_refines); contains/containsAny/array()/== are the set relations on membership; (5) the pre-fix remove and == violate the "
              "specification (counterexample theorems with concrete witnesses, replayed from corpus/C02); (6) capacity and enumeration: "
              "nextPoT is the least power of two >= n for every n <= 2^32 (nextPoT_every_size, nextPoT_int), the bucket count is 2^e, "
              "0 <= e <= 30, after every history (hashmap_size_pow2_every_history), length() <= (buckets+2)*7/8 unless capped for every "
              "unshared history (hashmap_load_bound_unshared), and the Enumerators of HashMap/HashDic/Set/Map/Dic, transcribed with "
              "checked reads, stay in bounds and visit every stored key exactly once in the modelled order after every history "
              "(hashmap_enumerator_every_history, set_enumerator_every_history, map_enumerator_every_history); (7) s << s as coded, the "
              "Enumerator alive across the rehash() of its own body: self_merge_interleaved_partial / _no_growth. G: the hash-table constants "
              "(String hash multiplier, default size, growth rule, nextPoT shifts) are regenerated from HashMap.h on every run and the "
              "obligations gen_constants_ok / nextPoT_is_next_power_of_two are re-proved. K: histories over 6 container types (colliding "
              "keys, growth across 225 and 1793 entries, tables from 1 bucket up, sizes 0..6 probed exhaustively) under ASan/LSan compare "
              "public observables AND, through `raw`/`walk`/`pot`, bucket count, exact enumeration order (foreach and explicit Enumerator) and nextPoT, so the model's hash functions, binOf, "
              "rehash rule and chain order are tied to the code on every run; an independent python dict/set simulation judges the "
              "implementation alone.")
LEVEL_NOTE = ("The loop/branch structure of the models is tied to the code by K only (no C++ -> Lean extraction); a code path no "
              "generated history reaches is tied to the model only by reading. The public (sorted) observations cannot depend on the hash "
              "function, growth rule or chain order (that is what hashmap_refines_finmap says), so those parts of the model are validated "
              "only by the `raw` observations (bucket count + enumeration order) and by G for the constants; a change there that keeps "
              "the container a correct finite map is reported as VIOLATION ... no-failing-input-found (model no longer describes the "
              "code), not as a failing input. HashMap has no merge member: merges are Map::add and Set::operator<<(Set) (both in the "
              "history theorems, including self-merge). nextPoT: proved least power of two >= n for EVERY n <= 2^32 (nextPoT_every_size; 0 and 1 give 1), on the C++ int "
              "0 for n < 1 and <= 2^30 for n <= 2^30 (nextPoT_int; above 2^30 the int overflows - not modelled, not generated); the table "
              "size is 2^e, 0 <= e <= 30, after every history incl. shared handles (hashmap_size_pow2_every_history) and "
              "length() <= (buckets+2)*7/8 or the table is at its cap after every history without shared handles "
              "(hashmap_load_bound_unshared; with shared handles growth is suppressed on purpose, so no bound); size hints "
              "below 1 are clamped to 1 by HashMap(int) since 16300ca (before: a 0-bucket table and an out-of-bounds read) and are "
              "generated (0, -1). Shared handles (HashMap c = m / operator=) are generated for the hash containers (ops `share`, in-place "
              "`dup`): in the MODEL one table object stands for a set of handles, so handles cannot split there by construction and "
              "handles_refine holds whatever the growth rule is; that the CODE's handles behave like that model (growth suppressed while "
              "_rc() > 1, c201e90; operator= taking the source first, f87e2b1; self-assignment, 91e0bf7; no node leaked or used after "
              "free) is established by K under ASan/LSan only, not by a theorem - reference counts, node ownership and destructors are "
              "not modelled beyond `rc` = number of handles. rehash_shared_noop / index_shared_keeps_size are definitional unfoldings of "
              "the model's `rc > 1` disjunct. Shared handles of the ORDERED Map/Dic are not generated: they share an Array, whose growth "
              "while shared is C01's known finding. Validated by K only: Array<T>::insert/remove/clone as "
              "list operations (C01), chain nodes' new/delete and the LeakSanitizer verdict, const operator[] default objects. The "
              "Enumerators are now modelled as coded (HashMap.walk: constructor skipping the header slots, operator bool, operator++ with "
              "the settle loop; Map.walk: index loop) with every array read checked, and proved to stay inside the table, never "
              "dereference null and yield exactly the enumeration / the sorted array after every history "
              "(hashmap_enumerator(_every_history), set_enumerator_every_history, map_enumerator_every_history, "
              "enumerator_needs_a_bucket); tied by K ops `raw`/`dump` (foreach macros) and `walk` (explicit Enumerator, Set::array()) as "
              "the exact sequence. Mutation DURING an enumeration: s << s is modelled as coded (HashMap.selfMerge: one Enumerator - array reference, index, end fixed at "
              "construction, node pointer as key - stays alive while its body (*this)[x]=1 may rehash the enumerated table; the driver's set "
              "`addself` runs it) and proved for every well-formed table within the intended load (self_merge_interleaved_partial: growth "
              "inside the enumeration included; in bounds, no null/dangling node, terminates, result = rehash() of the table, same members) "
              "and for every table not due to grow (self_merge_interleaved_no_growth); self_merge_interleaved_full (over-full tables, filled "
              "while a second handle suppressed growth, growing several times in one enumeration) is a def, validated by K only (generator "
              "group 8). The hypothesis `all values are 1` of these theorems is true of every Set by construction but is not itself a "
              "history theorem. Map::add(self) is still modelled as Map.add a a (K only). "
              "Equality/merge theorems for hash containers assume both tables "
              "use the same hash function (true for one key type). Known finding index-assign-from-own-element: `m[k] = m[j]` on an "
              "ordered Map/Dic with k or j absent reads the right-hand reference after the left-hand operator[] has shifted / "
              "reallocated the flat array (wrong value or use after free); not repairable inside operator[]; the generator excludes "
              "exactly that class (ordered `asgfrom` only with both keys present) and the KNOWN probe replays it on every run; hash "
              "containers get `m[k] = m[j]` with arbitrary keys, also at the growth thresholds (the model assumes g++'s right-operand-first "
              "evaluation, confirmed by `raw`). Dic::operator=(initializer_list) with values that are references to the map's own values "
              "(repaired 8e6a06f; before: cleared first, then read emptied / freed values) is generated for Dic<String> (op `initasg`) "
              "and is composed in the driver from Map.index (reading the values) and Map.add into an empty map: each step is covered by "
              "the per-operation refinement lemmas, the composition itself is not an MOp of map_refines_finmap and is validated by K; "
              "multi-pair lists keep every referenced key present for the same reason as above. String keys are NUL-free (strcmp vs memcmp disagree on embedded NUL). No "
              "statement is left partial; hashmap_remove_head_counterexample / hashmap_eq_order_counterexample are about transcriptions of "
              "the pre-fix code kept in AslProps/C02.lean (their premise - the model's enumeration order is the code's - is what `raw` "
              "checks).")
