"""C04 — asl::Var holds, copies, assigns and compares JSON-like values faithfully: plugin for tools/check.py

Three implementations run the same op lines: the real library (harness/c04.cpp, ASan/LSan), the Lean model
(lean/Driver/C04.lean over lean/AslModel/Var.lean, about which lean/AslProps/C04.lean proves the theorems) and the
python simulation below (`Sim`): Vars as python values, arrays/objects as python objects shared *by reference*
(python's own aliasing semantics are the abstract semantics of a Var), `copy.deepcopy`-style clone, reference counts
recomputed from scratch by counting references (not maintained incrementally).  `Sim` drives the generator (valid,
interesting paths) and is the independent oracle of the reference pass.
"""
import math
import struct
from fractions import Fraction

from lib.core import hexs, unhex

ID = "C04"
PROPS_MODULE = "AslProps.C04"
DRIVER = "c04"
HARNESS_FLAGS = ("-fsanitize=signed-integer-overflow",)   # inline Var.h arithmetic (removeAt(i, n): i + n) is compiled into the harness
SHRINK_KEEP_FIRST = 1          # every history starts with `reset` (tells the stateful python oracle that a new case begins)
NS = 8
RULE = ("cases = histories of 12..300 statements over 8 root Vars driven by a python shadow simulation (typed and Var-to-Var assignment "
        "incl. own elements/properties and ancestors, auto-creating paths, <<, resize, removeAt, remove, clear, extend, clone, copy, drop, "
        "p = (name of a property of q) with q = p or inside p, p = *q + off with q a string inside the container p holds (v = *v[0]), string keys on scalars and negative ones on arrays, "
        "p = *p + off on the Var's own string, removeAt counts up to INT_MAX, string keys applied to arrays, ULong literals up to 2^64, "
        "Var(Type) for every type, every Var constructed in 0xAB-poisoned storage, "
        "constructors incl. Var(long/unsigned long), Array<T>/initializer_list<T>/Dic<T>/Var::array({..}); source reference resolved before "
        "an auto-creating target in the same container) interleaved with queries (dump, ==, toString, conversions, is/has/contains/length, rc), plus literal sweeps over "
        "every string length 0..20/31/32/100 and numeric boundary, the INT/NUMBER/FLOAT x STRING/SSTRING equality lattice, FLOAT (C++ float) "
        "against INT/NUMBER at and around k*2^24..2^31 (ints a float cannot hold vs the float they round to and its ulp neighbours, both "
        "operand orders, as array elements, object values and contains() arguments; exact integer/Fraction oracle), growth across "
        "capacities 3,6,12,...,400 with and without a second handle, nesting depth up to 40; the templated container assignments "
        "p = Array<int|String|double> / p = Dic<int|String> (ops seta/setd) and p = text / Var::Type on a Var whose ARRAY/OBJ is SHARED "
        "(copied into a second root, stored in another container, reached as obj[k]; new value shorter/equal/longer than the old capacity), "
        "all holders read afterwards; every type tag x every converting accessor; non-trivial = distinct case of >= 5 lines "
        "with a mutation and an observation")

# ------------------------------------------------------------------ python simulation


class Arr:
    __slots__ = ("items", "cap")

    def __init__(self, n=0):
        self.items = [None] * n
        self.cap = max(n, 3)


class Obj:
    __slots__ = ("items", "cap")

    def __init__(self):
        self.items = {}
        self.cap = 3


class Skip(Exception):
    pass


def is_cont(v):
    return isinstance(v, (Arr, Obj))


def children(c):
    return c.items if isinstance(c, Arr) else [c.items[k] for k in sorted(c.items)]


def norm_dy(m, e):
    while e > 0 and m % 2 == 0:
        m //= 2
        e -= 1
    return (m, e)


def dy_of_float(d):
    if d != d:
        return "nan"
    if d == 0:
        return "0/0"
    fr = Fraction(d)
    m, den = fr.numerator, fr.denominator
    e = den.bit_length() - 1
    return "%d/%d" % (m, e)


def fval(v):
    """python float of a numeric value"""
    if v[0] == "i":
        return float(v[1])
    return math.ldexp(float(v[1]), -v[2])


def numeric(v):
    """exact value of INT/NUMBER/FLOAT or None"""
    if isinstance(v, tuple):
        if v[0] == "i":
            return Fraction(v[1])
        if v[0] in ("d", "f"):
            return Fraction(v[1], 2 ** v[2])
    return None


def to_f32(x):
    return struct.unpack("f", struct.pack("f", x))[0]


def f32_round_int(i):
    """the integer value of (float)i, round to nearest even on a 24-bit significand — integer arithmetic only"""
    a = abs(i)
    bl = a.bit_length()
    if bl <= 24:
        return i
    k = bl - 24
    q, r = a >> k, a & ((1 << k) - 1)
    half = 1 << (k - 1)
    if r > half or (r == half and (q & 1)):
        q += 1
    v = q << k
    return -v if i < 0 else v


def f32_neighbours(r):
    """r (a float-representable integer with |r| >= 2^24) and the floats one ulp below and above it"""
    a = abs(r)
    if a < 2 ** 24:
        return [r - 1, r, r + 1]
    ulp = 1 << (a.bit_length() - 24)
    lo = a - (ulp // 2 if a == 1 << (a.bit_length() - 1) else ulp)   # below a power of two the spacing halves
    sg = -1 if r < 0 else 1
    return [sg * lo, r, sg * (a + ulp)]


TYPES = {"NONE": 0, "NUL": 1, "NUMBER": 2, "BOOL": 3, "INT": 4, "SSTRING": 5, "FLOAT": 6, "STRING": 8, "ARRAY": 9, "OBJ": 10}


def type_of(v):
    if v is None:
        return 0
    if v == "Z":
        return 1
    if isinstance(v, Arr):
        return 9
    if isinstance(v, Obj):
        return 10
    return {"b": 3, "i": 4, "d": 2, "f": 6, "s": 8}[v[0]]


def is_t(v, t):
    ty = type_of(v)
    return ty == t or (t == 2 and ty in (4, 6)) or (ty == 8 and t in (5, 8))


def simple_dec(s):
    t = s[1:] if s[:1] == b"-" else s
    if not (1 <= len(t) <= 9) or not all(48 <= c <= 57 for c in t):
        return None
    return int(s)


def content(v):
    """abstract content: numbers by value, strings by bytes, containers element-wise"""
    n = numeric(v)
    if n is not None:
        return ("num", n)
    if isinstance(v, Arr):
        return ("arr", tuple(content(x) for x in v.items))
    if isinstance(v, Obj):
        return ("obj", tuple((k, content(v.items[k])) for k in sorted(v.items)))
    return v


def parse_path(s):
    ps = s.split("/")
    root = int(ps[0])
    if not (0 <= root < NS):
        raise ValueError
    steps = []
    for t in ps[1:]:
        if t[0] == "i":
            steps.append(("i", int(t[1:])))
        elif t[0] == "k":
            steps.append(("k", unhex(t[1:])))
        else:
            raise ValueError
    return root, steps


def path_str(root, steps):
    return "/".join([str(root)] + [("i%d" % s[1]) if s[0] == "i" else "k" + hexs(s[1]) for s in steps])


def key_index(k):
    """String::operator int() (myatoi): optional sign, digits up to the first other byte, modulo 2^32, as a 32-bit int"""
    i, neg = 0, False
    if k[:1] == b"-":
        neg, i = True, 1
    elif k[:1] == b"+":
        i = 1
    y = 0
    while i < len(k) and 48 <= k[i] <= 57:
        y = (10 * y + k[i] - 48) % 2 ** 32
        i += 1
    u = (-y) % 2 ** 32 if neg else y
    return u if u < 2 ** 31 else u - 2 ** 32


def type_value(ty):
    """Var(Var::Type): numbers and booleans start at zero / false (11663a3)"""
    return {0: None, 1: "Z", 2: ("d",) + norm_dy(0, 0), 3: ("b", False), 4: ("i", 0), 6: ("f",) + norm_dy(0, 0),
            5: ("s", b""), 8: ("s", b""), 9: Arr(), 10: Obj()}[ty]


def parse_lit(ts):
    k = ts[0]
    if k == "i" and len(ts) == 2:
        return ("i", int(ts[1]))
    if k == "u" and len(ts) == 2:
        u = int(ts[1])
        return ("i", u) if u < 2 ** 31 else ("d", u, 0)
    if k == "l" and len(ts) == 2:          # Long: (double)x, rounded to nearest-even beyond 2^53
        return ("d",) + norm_dy(int(float(int(ts[1]))), 0)
    if k == "L" and len(ts) == 2:          # C++ long: INT inside the int range, NUMBER outside (6c0507b)
        x = int(ts[1])
        return ("i", x) if -2 ** 31 <= x < 2 ** 31 else ("d",) + norm_dy(int(float(x)), 0)
    if k == "UL" and len(ts) == 2:
        x = int(ts[1])
        return ("i", x) if x < 2 ** 31 else ("d",) + norm_dy(int(float(x)), 0)
    if k == "Q" and len(ts) == 2:          # ULong: always NUMBER, (double)x (c047585 for the assignment)
        return ("d",) + norm_dy(int(float(int(ts[1]))), 0)
    if k in ("d", "f") and len(ts) == 3:
        return (k,) + norm_dy(int(ts[1]), int(ts[2]))
    if k == "b" and len(ts) == 2:
        return ("b", ts[1] == "1")
    if k in ("s", "c") and len(ts) == 2:
        return ("s", unhex(ts[1]))
    raise ValueError


class Sim:
    def __init__(self):
        self.slots = [None] * NS
        self.stats = {}

    def count(self, k):
        self.stats[k] = self.stats.get(k, 0) + 1

    # ---- reference counts from scratch
    def rc(self, c):
        n = 0
        seen = set()
        stack = []
        for v in self.slots:
            if is_cont(v):
                if v is c:
                    n += 1
                if id(v) not in seen:
                    seen.add(id(v))
                    stack.append(v)
        while stack:
            x = stack.pop()
            for v in children(x):
                if is_cont(v):
                    if v is c:
                        n += 1
                    if id(v) not in seen:
                        seen.add(id(v))
                        stack.append(v)
        return n

    def reaches(self, v, target):
        if not is_cont(v):
            return False
        if v is target:
            return True
        return any(self.reaches(x, target) for x in children(v))

    # ---- locations: ("slot", k) | ("arr", Arr, i) | ("obj", Obj, key)
    def read(self, loc):
        if loc[0] == "slot":
            return self.slots[loc[1]]
        return loc[1].items[loc[2]]

    def write(self, loc, v):
        if loc[0] == "slot":
            self.slots[loc[1]] = v
        else:
            loc[1].items[loc[2]] = v

    def grow_check(self, c, need, guard):
        """capacity policy of Array::reserve (need = wanted length)"""
        if need > c.cap:
            if guard and self.rc(c) > 1:
                raise Skip("skip-shared-growth")
            c.cap = max(2 * c.cap, need)

    def insert_check(self, c, guard):
        """Array::insert: realloc(2*s) when n == s"""
        if len(c.items) >= c.cap:
            if guard and self.rc(c) > 1:
                raise Skip("skip-shared-growth")
            c.cap = 2 * c.cap

    def resize(self, a, m, guard):
        self.grow_check(a, m, guard)
        n = len(a.items)
        if m > n:
            a.items.extend([None] * (m - n))
        else:
            del a.items[m:]

    def index_key(self, o, k, guard):
        if k not in o.items:
            self.insert_check(o, guard)
            o.items[k] = None
        return ("obj", o, k)

    @staticmethod
    def invalidates(v, s, src):
        """would v[s] move the element the source reference designates (known finding autocreate-invalidates-source)?"""
        if src is None or src[0] == "slot" or v is not src[1]:
            return False
        if isinstance(v, Arr):
            return s[0] == "i" and s[1] >= len(v.items) and s[1] + 1 > v.cap
        if isinstance(v, Obj):
            k = str(s[1]).encode() if s[0] == "i" else s[1]
            return k not in v.items and (len(v.items) >= v.cap or k < src[2])
        return False

    def step_mut(self, loc, s, guard, src=None):
        v = self.read(loc)
        if s[0] == "k" and isinstance(v, Arr):
            # operator[](const String&) on an ARRAY forwards to operator[]((int)key) (7407dbc)
            j = key_index(s[1])
            if j < 0:
                self.count("negative string key applied to an array")
                return loc          # an error message and `return *this` (095ba92)
            self.count("string key applied to an array")
            s = ("i", j)
        if guard and self.invalidates(v, s, src):
            raise Skip("skip-source-moved")
        if s[0] == "i":
            i = s[1]
            if isinstance(v, Arr):
                if i >= len(v.items):
                    self.resize(v, i + 1, guard)
                return ("arr", v, i)
            if isinstance(v, Obj):
                return self.index_key(v, str(i).encode(), guard)
            if v is None:
                a = Arr()
                self.write(loc, a)
                self.resize(a, i + 1, guard)
                return ("arr", a, i)
            return loc
        k = s[1]
        if v is None:
            o = Obj()
            self.write(loc, o)
            return self.index_key(o, k, guard)
        if isinstance(v, Obj):
            return self.index_key(v, k, guard)
        return loc                  # Var[String] on a scalar: an error message and `return *this`

    def resolve_mut(self, p, guard, src=None):
        loc = ("slot", p[0])
        for s in p[1]:
            loc = self.step_mut(loc, s, guard, src)
        return loc

    def source(self, q):
        """the source reference of a statement, evaluated before the target path: its location (None = static none)"""
        return self.cloc(q)

    def through(self, sl):
        """the value read through the source reference after the target path has been evaluated"""
        return None if sl is None else self.read(sl)

    def cget(self, p):
        v = self.slots[p[0]]
        for s in p[1]:
            if s[0] == "i":
                if isinstance(v, Arr) and s[1] < len(v.items):
                    v = v.items[s[1]]
                else:
                    if isinstance(v, Arr):
                        self.count("const index beyond the length")
                    v = None                 # the static none (8dbc483 for an index beyond the length)
            else:
                v = v.items.get(s[1]) if isinstance(v, Obj) else None
        return v

    def cloc(self, p):
        """the location a const path denotes (None = the static Var::none)"""
        loc = ("slot", p[0])
        v = self.slots[p[0]]
        for s in p[1]:
            if s[0] == "i" and isinstance(v, Arr) and s[1] < len(v.items):
                loc = ("arr", v, s[1])
                v = v.items[s[1]]
            elif s[0] == "k" and isinstance(v, Obj) and s[1] in v.items:
                loc = ("obj", v, s[1])
                v = v.items[s[1]]
            else:
                return None
        return loc

    @staticmethod
    def same_loc(a, b):
        if a is None or b is None or a[0] != b[0]:
            return False
        if a[0] == "slot":
            return a[1] == b[1]
        return a[1] is b[1] and a[2] == b[2]

    @staticmethod
    def parent_of(loc):
        return None if loc[0] == "slot" else loc[1]

    def append(self, loc, x, guard):
        v = self.read(loc)
        if isinstance(v, Arr):
            self.insert_check(v, guard)
            v.items.append(x)
        elif v is None:
            a = Arr()
            a.items.append(x)
            self.write(loc, a)

    def clone(self, v):
        if isinstance(v, Arr):
            a = Arr(len(v.items))
            a.items = [self.clone(x) for x in v.items]
            return a
        if isinstance(v, Obj):
            o = Obj()
            o.items = {k: self.clone(x) for k, x in v.items.items()}
            o.cap = max(len(o.items), 3)
            return o
        return v

    # ---- observers
    def dump(self, v):
        if v is None:
            return "N"
        if v == "Z":
            return "Z"
        if isinstance(v, Arr):
            return "[" + ",".join(self.dump(x) for x in v.items) + "]"
        if isinstance(v, Obj):
            return "{" + ",".join(hexs(k) + ":" + self.dump(v.items[k]) for k in sorted(v.items)) + "}"
        if v[0] == "b":
            return "B1" if v[1] else "B0"
        if v[0] == "i":
            return "I%d" % v[1]
        if v[0] == "d":
            return "D%d/%d" % (v[1], v[2])
        if v[0] == "f":
            return "F%d/%d" % (v[1], v[2])
        return "S" + hexs(v[1])

    def tostr(self, v):
        if v is None:
            return b"?"
        if v == "Z":
            return b"null"
        if isinstance(v, Arr):
            return b"[" + b",".join(self.sconv(x) for x in v.items) + b"]"
        if isinstance(v, Obj):
            return b"{" + b",".join(k + b"=" + self.sconv(v.items[k]) for k in sorted(v.items)) + b"}"
        if v[0] == "b":
            return b"true" if v[1] else b"false"
        if v[0] == "i":
            return b"%d" % v[1]
        if v[0] == "d":
            return ("%.15g" % fval(v)).encode()
        if v[0] == "f":
            return ("%.7g" % fval(v)).encode()
        return v[1]

    def sconv(self, v):
        if isinstance(v, tuple) and v[0] == "s":
            return v[1]
        return self.tostr(v)

    def to_bool(self, v):
        if v is None or v == "Z":
            return False
        if is_cont(v):
            return True
        if v[0] == "b":
            return v[1]
        if v[0] == "s":
            return len(v[1]) > 0
        return numeric(v) != 0

    def conv(self, v):
        n = numeric(v)
        if n is not None:
            t = int(n)      # truncation toward zero
            si = str(t) if -2 ** 31 <= t < 2 ** 31 else "u"
            sl = str(t) if -2 ** 63 <= t < 2 ** 63 else "u"
            # ULong (c047585): directly from 2^63 on, through Long (modulo 2^64) below
            sq = str(t % 2 ** 64) if -2 ** 63 <= t < 2 ** 64 else "u"
            if v[0] == "i":
                sq = str(t % 2 ** 64)
            sd = dy_of_float(float(n))
        elif isinstance(v, tuple) and v[0] == "s":
            d = simple_dec(v[1])
            si = "u" if d is None else str(d)
            sl = si
            sq = "u" if d is None else str(d % 2 ** 64)
            sd = "u" if d is None else dy_of_float(float(d))
        elif v == "Z":
            si, sl, sq, sd = "0", "0", "0", "nan"
        else:
            si, sl, sq, sd = "0", "0", "0", "0/0"
        return "i=%s L=%s Q=%s d=%s b=%s s=%s" % (si, sl, sq, sd, "1" if self.to_bool(v) else "0", hexs(self.sconv(v)))

    def replace_slot(self, k, v):
        self.slots[k] = v

    # ---- one protocol line
    def apply(self, line):
        t = line.split()
        guard = True
        if t[0].startswith("!"):
            guard = False
            t[0] = t[0][1:]
        op = t[0]
        try:
            return self.apply1(op, t, guard)
        except Skip as e:
            self.count(str(e))
            return str(e)

    def apply1(self, op, t, guard):
        n = len(t)
        if op == "reset" and n == 1:
            self.__init__()
            return "ok"
        if op == "set":
            p = parse_path(t[1])
            if t[2] == "t":
                ty = TYPES[t[3]]
                loc = self.resolve_mut(p, guard)
                self.write(loc, type_value(ty))
                return "ok"
            v = parse_lit(t[2:])
            loc = self.resolve_mut(p, guard)
            old = self.read(loc)
            if is_cont(old) and self.rc(old) > 1:
                self.count("type-changing assignment to a Var whose container is shared")
            self.write(loc, v)
            return "ok"
        if op in ("seta", "setd"):
            # p = Array<T> / p = Dic<T>: the target is REBOUND to a fresh container; Vars sharing the old one keep it
            p = parse_path(t[1])
            kind = t[2]
            if op == "seta":
                vals = []
                for x in t[3:]:
                    if kind == "i":
                        vals.append(("i", int(x)))
                    elif kind == "s":
                        vals.append(("s", unhex(x)))
                    else:
                        m, e = x.split(":")
                        vals.append(("d",) + norm_dy(int(m), int(e)))
                nv = Arr(len(vals))
                nv.items = vals
                nv.cap = 3 if len(vals) <= 3 else max(6, len(vals))
            else:
                nv = Obj()
                for x in t[3:]:
                    key, val = x.split("=")
                    nv.items[unhex(key)] = ("i", int(val)) if kind == "i" else ("s", unhex(val))
                nv.cap = 3 if len(nv.items) <= 3 else max(6, len(nv.items))
            loc = self.resolve_mut(p, guard)
            old = self.read(loc)
            if is_cont(old) and self.rc(old) > 1:
                self.count("container assignment (Array<T>/Dic<T>) to a Var whose container is shared")
            self.write(loc, nv)
            return "ok"
        if op == "setsub":
            p = parse_path(t[1])
            off = int(t[2])
            loc = self.resolve_mut(p, guard)
            v = self.read(loc)
            if not (isinstance(v, tuple) and v[0] == "s") or off > len(v[1]):
                return "badarg"
            self.count("assignment of a piece of the Var's own string")
            self.write(loc, ("s", v[1][off:]))
            return "ok"
        if op == "setkey":
            p, q = parse_path(t[1]), parse_path(t[2])
            i = int(t[3])
            sl = self.source(q)
            loc = self.resolve_mut(p, guard, sl)
            src = self.through(sl)
            if not isinstance(src, Obj) or i >= len(src.items):
                return "badarg"
            old = self.read(loc)
            if old is src or (is_cont(old) and self.reaches(old, src)):
                self.count("const String& assignment from a property name inside the target container")
            self.write(loc, ("s", sorted(src.items)[i]))
            return "ok"
        if op == "setcs":
            p, q = parse_path(t[1]), parse_path(t[2])
            off = int(t[3])
            sl = self.source(q)
            loc = self.resolve_mut(p, guard, sl)
            src = self.through(sl)
            if not (isinstance(src, tuple) and src[0] == "s") or off > len(src[1]):
                return "badarg"
            old = self.read(loc)
            if is_cont(old) and q[0] == p[0] and len(q[1]) > len(p[1]) and q[1][:len(p[1])] == p[1]:
                self.count("const char* assignment from a string inside the target container")
            self.write(loc, ("s", src[1][off:]))
            return "ok"
        if op == "setv":
            p, q = parse_path(t[1]), parse_path(t[2])
            sl = self.source(q)
            loc = self.resolve_mut(p, guard, sl)
            src = self.through(sl)
            par = self.parent_of(loc)
            if par is not None and self.reaches(src, par):
                raise Skip("cyclic")
            old = self.read(loc)
            if is_cont(old) and self.reaches(old, src) and is_cont(src):
                self.count("assignment of an own element/property (source inside the target)")
            if is_cont(old) and self.rc(old) > 1 and type_of(old) != type_of(src):
                self.count("type-changing assignment to a Var whose container is shared")
            self.write(loc, src)
            return "ok"
        if op == "app":
            p, q = parse_path(t[1]), parse_path(t[2])
            sl = self.source(q)
            loc = self.resolve_mut(p, guard, sl)
            src = self.through(sl)
            v = self.read(loc)
            par = self.parent_of(loc)
            if isinstance(v, Arr) and self.reaches(src, v):
                raise Skip("cyclic")
            if v is None and par is not None and self.reaches(src, par):
                raise Skip("cyclic")        # the new array is stored inside `par`
            if v is None and self.same_loc(sl, loc):
                raise Skip("cyclic")        # v << v on an undefined v
            if isinstance(v, Arr) and q[0] == p[0] and len(q[1]) == len(p[1]) + 1 and q[1][:-1] == p[1]:
                self.count("append of an own element")
            self.append(loc, src, guard)
            return "ok"
        if op == "appl":
            p = parse_path(t[1])
            v = parse_lit(t[2:])
            loc = self.resolve_mut(p, guard)
            self.append(loc, v, guard)
            return "ok"
        if op == "resize":
            p = parse_path(t[1])
            m = int(t[2])
            loc = self.resolve_mut(p, guard)
            v = self.read(loc)
            if isinstance(v, Arr):
                self.resize(v, m, guard)
            elif v is None:
                a = Arr()
                self.write(loc, a)
                self.resize(a, m, guard)
            return "ok"
        if op == "remat":
            p = parse_path(t[1])
            i, k = int(t[2]), int(t[3])
            loc = self.resolve_mut(p, guard)
            v = self.read(loc)
            if isinstance(v, Arr) and i >= 0 and k > 0 and i < len(v.items) and i + k <= len(v.items):
                del v.items[i:i + k]
            return "ok"
        if op == "rem":
            p = parse_path(t[1])
            key = unhex(t[2])
            loc = self.resolve_mut(p, guard)
            v = self.read(loc)
            if isinstance(v, Obj):
                v.items.pop(key, None)
            return "ok"
        if op == "clear":
            p = parse_path(t[1])
            loc = self.resolve_mut(p, guard)
            v = self.read(loc)
            if isinstance(v, Arr):
                del v.items[:]
            elif isinstance(v, Obj):
                v.items.clear()
            return "ok"
        if op == "ext":
            p, q = parse_path(t[1]), parse_path(t[2])
            sl = self.source(q)
            loc = self.resolve_mut(p, guard, sl)
            src = self.through(sl)
            v = self.read(loc)
            if isinstance(v, Obj) and isinstance(src, Obj):
                newkeys = 0
                for k in sorted(src.items):
                    x = src.items[k]
                    if x is not None:
                        if self.reaches(x, v):
                            raise Skip("cyclic")
                        if k not in v.items:
                            newkeys += 1
                if guard and self.rc(v) > 1 and len(v.items) + newkeys > v.cap:
                    raise Skip("skip-shared-growth")
                if self.reaches(v, src) and v is not src:
                    self.count("extend by an own property")
            if v is None:
                par = self.parent_of(loc)
                if par is not None and isinstance(src, Obj):
                    if src is par:
                        raise Skip("cyclic")        # the new object is a property of src itself
                    for k in sorted(src.items):
                        if src.items[k] is not None and self.reaches(src.items[k], par):
                            raise Skip("cyclic")    # the new object is stored inside `par`
                v = Obj()
                self.write(loc, v)
            if isinstance(v, Obj) and isinstance(src, Obj):
                for k, x in sorted(src.items.items()):
                    if x is not None:
                        if k not in v.items:
                            self.insert_check(v, False)
                        v.items[k] = x
            return "ok"
        if op == "clone":
            k = int(t[1])
            src = self.cget(parse_path(t[2]))
            self.slots[k] = self.clone(src)
            return "ok"
        if op == "copy":
            k = int(t[1])
            src = self.cget(parse_path(t[2]))
            self.slots[k] = src
            return "ok"
        if op == "drop":
            self.slots[int(t[1])] = None
            return "ok"
        if op == "ctor":
            k = int(t[1])
            if t[2] == "t":
                ty = TYPES[t[3]]
                self.slots[k] = type_value(ty)
                return "ok"
            if t[2] in ("arr", "list"):
                kind = t[3]
                vals = []
                for x in t[4:]:
                    if kind == "i":
                        vals.append(("i", int(x)))
                    elif kind == "s":
                        vals.append(("s", unhex(x)))
                    else:
                        m, e = x.split(":")
                        vals.append(("d",) + norm_dy(int(m), int(e)))
                a = Arr(len(vals))
                a.items = vals
                a.cap = 3 if len(vals) <= 3 else max(6, len(vals))
                self.slots[k] = a
                return "ok"
            if t[2] == "dic":
                kind = t[3]
                o = Obj()
                for x in t[4:]:
                    key, val = x.split("=")
                    o.items[unhex(key)] = ("i", int(val)) if kind == "i" else ("s", unhex(val))
                o.cap = 3 if len(o.items) <= 3 else max(6, len(o.items))
                self.slots[k] = o
                return "ok"
            if t[2] == "varr":
                vals = [self.cget(parse_path(x)) for x in t[3:]]
                a = Arr(len(vals))
                a.items = vals
                self.slots[k] = a
                return "ok"
            if t[2] == "kv":
                src = self.cget(parse_path(t[4]))
                o = Obj()
                o.items[unhex(t[3])] = src
                self.slots[k] = o
                return "ok"
            self.slots[k] = parse_lit(t[2:])
            return "ok"
        if op == "dumpall":
            return " ".join(self.dump(v) for v in self.slots)
        q = parse_path(t[1])
        if op in ("eq", "contains"):
            a = self.cget(q)
            b = self.cget(parse_path(t[2]))
            if op == "eq":
                r = content(a) == content(b)
                self.count("eq:" + ("equal" if r else "unequal"))
                return "11" if r else "00"
            if isinstance(a, Arr):
                cb = content(b)
                return "1" if any(content(x) == cb for x in a.items) else "0"
            return "0"
        v = self.cget(q)
        if op == "dump":
            return self.dump(v)
        if op == "tostr":
            return hexs(self.tostr(v))
        if op == "len":
            if is_cont(v):
                return str(len(v.items))
            if isinstance(v, tuple) and v[0] == "s":
                return str(len(v[1]))
            return "0"
        if op == "type":
            return str(type_of(v))
        if op == "is":
            return "1" if is_t(v, TYPES[t[2]]) else "0"
        if op == "has":
            return "1" if isinstance(v, Obj) and unhex(t[2]) in v.items else "0"
        if op == "hast":
            return "1" if isinstance(v, Obj) and unhex(t[2]) in v.items and is_t(v.items[unhex(t[2])], TYPES[t[3]]) else "0"
        if op == "get":
            return self.dump(v.items.get(unhex(t[2]))) if isinstance(v, Obj) else "N"
        if op == "conv":
            return self.conv(v)
        if op == "rc":
            return str(self.rc(v)) if is_cont(v) else "-"
        if op == "eqlit":
            k = t[2]
            nv = numeric(v)
            if k == "i":
                return "1" if nv is not None and nv == int(t[3]) else "0"
            if k == "d":
                return "1" if nv is not None and nv == Fraction(int(t[3]), 2 ** int(t[4])) else "0"
            if k == "f":
                o = Fraction(int(t[3]), 2 ** int(t[4]))
                if nv is None:
                    return "0"
                return "1" if nv == o else "0"      # exact, also for an INT (cda9080): 16777217 is not 16777216.0f
            if k == "b":
                return "1" if v == ("b", t[3] == "1") else "0"
            if k in ("s", "c"):
                return "1" if v == ("s", unhex(t[3])) else "0"
        raise ValueError("unknown op " + line_of(t))


def line_of(t):
    return " ".join(t)


import threading
_tls = threading.local()          # the engine judges batches in parallel threads: one simulation per thread
REFERENCE_NAME = ("python simulation with native reference semantics (lists/dicts shared by identity, recursive copy for clone, "
                  "Fraction arithmetic for numeric equality, % formatting for toString)")


def reference(line):
    """Stateful: lines arrive in order; every history starts with `reset`.  None for unguarded (`!`) known-finding probes."""
    if line.startswith("!"):
        return None
    sim = getattr(_tls, "sim", None)
    if sim is None:
        sim = _tls.sim = Sim()
    try:
        return sim.apply(line)
    except Exception:
        return None


# ------------------------------------------------------------------ generator

KEYS = [b"a", b"b", b"c", b"key", b"k2", b"0", b"1", b"2", b"", b"longer-key-name", b"zz", b"A", b"x/y", b"\xc3\xa9"]
INTS = [0, 1, -1, 2, 3, 7, 10, 100, 255, -128, 65536, 2 ** 31 - 1, -2 ** 31, 16777216, 16777217, 123456789]
TYPE_NAMES = ["NONE", "NUL", "ARRAY", "OBJ", "STRING", "SSTRING", "INT", "NUMBER", "FLOAT", "BOOL"]
# 32-bit ints that a float cannot hold, and their neighbours: 2^24 .. 2^31
BIG_INTS = sorted(set(
    [s_ * (2 ** k + d) for k in range(24, 31) for d in (-3, -2, -1, 0, 1, 2, 3, 5) for s_ in (1, -1)] +
    [2 ** 31 - 1, 2 ** 31 - 2, 2 ** 31 - 64, 2 ** 31 - 65, 2 ** 31 - 129, -2 ** 31 + 1, -2 ** 31, -2 ** 31 + 63, -2 ** 31 + 65,
     123456789, 123456792, 123456784, 16777217, 16777219, 33554433, 33554434, 33554435, 33554438, 99999999, 100000001,
     2147483583, 2147483584, 2147483520]))
BIG_INTS = [i for i in BIG_INTS if -2 ** 31 <= i < 2 ** 31]


def rbigint(rng):
    """a 32-bit int beyond float precision: a listed boundary value, or random with a random distance to its float rounding"""
    if rng.random() < 0.5:
        return rng.choice(BIG_INTS)
    i = rng.randrange(2 ** 24, 2 ** 31) * rng.choice((1, -1))
    if rng.random() < 0.5:
        r = f32_round_int(i)
        i = max(-2 ** 31, min(2 ** 31 - 1, r + rng.choice((-2, -1, 0, 1, 2))))
    return i


def rstring(rng):
    r = rng.random()
    if r < 0.55:
        n = rng.choice([5, 6, 7, 7, 7, 8, 8, 8, 9, 10])
    elif r < 0.9:
        n = rng.randrange(0, 21)
    else:
        n = rng.randrange(0, 60)
    r = rng.random()
    if r < 0.15 and n:
        # decimal text (atoi/atof conversions)
        s = ("%d" % rng.choice(INTS + [rng.randrange(-10 ** 9, 10 ** 9)])).encode()
        return s
    if r < 0.7:
        return bytes(rng.choice(b"abcdefghijklmnopqrstuvwxyzABC0123456789 _-.,=[]{}") for _ in range(n))
    return bytes(rng.randrange(1, 256) for _ in range(n))


def rdouble(rng):
    r = rng.random()
    if r < 0.08:
        i = rbigint(rng)                                    # a big int, or the float it rounds to, as a double
        return (i if rng.random() < 0.5 else f32_round_int(i), 0)
    if r < 0.35:
        return (rng.choice(INTS), 0)                        # integer valued: equal to an INT of the same value
    if r < 0.6:
        return (rng.randrange(-2000, 2000), rng.randrange(0, 5))
    if r < 0.8:
        return (rng.randrange(-2 ** 52, 2 ** 52), rng.randrange(0, 60))
    if r < 0.9:
        return (rng.randrange(-2 ** 53 + 1, 2 ** 53), 0)
    return (rng.randrange(1, 2 ** 53) | 1, rng.randrange(60, 1075))


def rfloat(rng):
    r = rng.random()
    if r < 0.2:
        # the float a big int rounds to, or a float one ulp away (always float-representable integers)
        return (rng.choice(f32_neighbours(f32_round_int(rbigint(rng)))), 0)
    if r < 0.4:
        return (rng.choice([i for i in INTS if abs(i) <= 2 ** 24]), 0)
    if r < 0.8:
        return (rng.randrange(-2 ** 24 + 1, 2 ** 24), rng.randrange(0, 30))
    return (rng.randrange(-2000, 2000), rng.randrange(0, 5))


def rlong(rng):
    """Long / long values over the whole 64-bit range: small, around +-2^53 (where (double)x starts to round), ties, +-2^63"""
    r = rng.random()
    if r < 0.3:
        return rng.choice([0, -1, 5, 2 ** 31 - 1, 2 ** 31, -2 ** 31, -2 ** 31 - 1, 2 ** 32 + 5, 1099511627781, -1099511627781, rng.choice(INTS)])
    if r < 0.6:
        return rng.choice([1, -1]) * rng.choice([2 ** 53 - 1, 2 ** 53, 2 ** 53 + 1, 2 ** 53 + 2, 2 ** 53 + 3, 2 ** 54 + 2, 2 ** 54 + 6, 2 ** 62, 2 ** 63 - 1,
                                                 2 ** 63 - 512, 2 ** 63 - 513, 2 ** 63 - 1024, 9007199254740993, 123456789012345678])
    if r < 0.65:
        return -2 ** 63
    if r < 0.85:
        return rng.randrange(-2 ** 63, 2 ** 63)
    return rng.randrange(-2 ** 53 + 1, 2 ** 53)


def rulong(rng):
    """ULong values: small, around 2^53, and m * 2^e up to 2^64 (a double holds them exactly), plus a few that (double) rounds"""
    r = rng.random()
    if r < 0.25:
        return rng.choice([0, 1, 7, 2 ** 31, 2 ** 32 + 5, 2 ** 53 - 1, 2 ** 53, 2 ** 53 + 2])
    if r < 0.55:
        return rng.choice([2 ** 63 - 1024, 2 ** 63, 2 ** 63 + 2048, 9223372036854777856, 2 ** 64 - 2048, 2 ** 64 - 4096, 3 * 2 ** 62, 2 ** 63 + 2 ** 40])
    if r < 0.8:
        e = rng.randrange(0, 12)
        return rng.randrange(2 ** 52, 2 ** 53) << e
    return rng.choice([2 ** 64 - 1, 2 ** 63 + 1, 2 ** 63 - 1, 2 ** 64 - 1025, 2 ** 53 + 1, 2 ** 53 + 3, rng.randrange(2 ** 53, 2 ** 64)])


def rlit(rng, kinds="iuldfbscLUQ"):
    k = rng.choice(kinds)
    if k == "i":
        r = rng.random()
        return "i %d" % (rng.choice(INTS) if r < 0.6 else rbigint(rng) if r < 0.8 else rng.randrange(-2 ** 31, 2 ** 31))
    if k == "u":
        return "u %d" % rng.choice([0, 1, 7, 2 ** 31 - 1, 2 ** 31, 2 ** 31 + 1, 2 ** 32 - 1, rng.randrange(0, 2 ** 32)])
    if k == "l":
        return "l %d" % rlong(rng)
    if k == "L":
        return "L %d" % (rlong(rng) if rng.random() < 0.7 else rng.randrange(-2 ** 33, 2 ** 33))
    if k == "U":
        return "UL %d" % (rulong(rng) if rng.random() < 0.6 else rng.choice([0, 7, 2 ** 31 - 1, 2 ** 31, 2 ** 32 - 1, 2 ** 32, 4294967303, rng.randrange(0, 2 ** 34)]))
    if k == "Q":
        return "Q %d" % rulong(rng)
    if k == "d":
        return "d %d %d" % rdouble(rng)
    if k == "f":
        return "f %d %d" % rfloat(rng)
    if k == "b":
        return "b %d" % rng.randrange(2)
    return "%s %s" % (k, hexs(rstring(rng)))


class Gen:
    def __init__(self, rng):
        self.rng = rng
        self.sim = Sim()
        self.lines = []

    def emit(self, line):
        self.lines.append(line)
        return self.sim.apply(line)

    def would(self, line):
        """outcome of `line` on a throw-away copy of the simulation state"""
        import copy
        s2 = copy.deepcopy(self.sim)
        try:
            return s2.apply(line)
        except Exception:
            return "error"

    def rand_path(self, deep=0.7, root=None):
        """a path to an existing Var"""
        rng = self.rng
        sim = self.sim
        if root is None:
            conts = [k for k in range(NS) if is_cont(sim.slots[k])]
            root = rng.choice(conts) if conts and rng.random() < 0.8 else rng.randrange(NS)
        steps = []
        v = sim.slots[root]
        while is_cont(v) and len(v.items) > 0 and rng.random() < deep and len(steps) < 7:
            if isinstance(v, Arr):
                i = rng.randrange(len(v.items))
                steps.append(("i", i))
                v = v.items[i]
            else:
                k = rng.choice(sorted(v.items))
                steps.append(("k", k))
                v = v.items[k]
        return root, steps, v

    def target_path(self):
        """an existing Var or one that the non-const operator[] will create"""
        rng = self.rng
        root, steps, v = self.rand_path()
        steps = list(steps)
        n = rng.choice([0, 0, 0, 1, 1, 2, 3])
        for _ in range(n):
            if len(steps) >= 7:
                break
            if isinstance(v, Arr):
                L = len(v.items)
                i = rng.choice([L, L, L + 1, L + 2, v.cap, v.cap + 1, 2 * v.cap, rng.randrange(0, L + 1)])
                if rng.random() < 0.12:
                    # v["7"]: operator[](const String&) on an array; the key goes through String::operator int()
                    d = b"%d" % i
                    steps.append(("k", rng.choice([d, d, d, b"+" + d, b"00" + d, d + b"x", d + b".9", b"name", b"", b"-1", b"-1", b"-2", b"-2147483648", b"-0", b" 1",
                                                   b"4294967296", b"4294967297", b"-4294967295"])))
                else:
                    steps.append(("i", i))
            elif isinstance(v, Obj):
                steps.append(("k", rng.choice(KEYS)) if rng.random() < 0.85 else ("i", rng.randrange(0, 4)))
            elif v is None:
                steps.append(("i", rng.choice([0, 0, 1, 2, 3, 4, 7])) if rng.random() < 0.5 else ("k", rng.choice(KEYS)))
            else:
                if rng.random() < 0.3:
                    # on a scalar both overloads `return *this` (the String one after an error message)
                    steps.append(("i", rng.randrange(0, 3)) if rng.random() < 0.6 else ("k", rng.choice(KEYS)))
                break
            v = None
        return path_str(root, steps)

    def source_path(self, want_cont=False):
        rng = self.rng
        for _ in range(6):
            root, steps, v = self.rand_path(deep=rng.choice([0.3, 0.6, 0.9]))
            if not want_cont or is_cont(v):
                break
        r = rng.random()
        if r < 0.04:
            steps = list(steps) + [("i", rng.randrange(0, 5)) if rng.random() < 0.5 else ("k", rng.choice(KEYS))]
        elif r < 0.07 and isinstance(v, Arr):
            # the const operator[](int) with an index beyond the length: the static none
            L = len(v.items)
            steps = list(steps) + [("i", rng.choice([L, L, L + 1, v.cap, v.cap + 1, 2 * v.cap + 5, 100000, 2147483647]))]
            if rng.random() < 0.3:
                steps.append(("i", 0) if rng.random() < 0.5 else ("k", rng.choice(KEYS)))
        return path_str(root, steps)

    def own_part(self):
        """(P, Q) with Q strictly below P: `v = v[0]`, `v = v["a"]["b"]`"""
        rng = self.rng
        for _ in range(8):
            root, steps, v = self.rand_path(deep=0.95)
            if len(steps) >= 1:
                cut = rng.randrange(0, len(steps))
                return path_str(root, steps[:cut]), path_str(root, steps)
        return None

    def sibling(self):
        """(P, Q): Q an existing element/property of a container, P a not yet existing element/property of the SAME
        container (`v[5] = v[0]`, `v["a"] = v["b"]`): the auto-creation may move what Q designates"""
        rng = self.rng
        for _ in range(8):
            root, steps, v = self.rand_path(deep=0.6)
            if is_cont(v) and len(v.items) > 0:
                if isinstance(v, Arr):
                    L = len(v.items)
                    q = ("i", rng.randrange(L))
                    pnew = ("i", rng.choice([L, L, L + 1, v.cap - 1, v.cap, v.cap + 1, 2 * v.cap]))
                    if pnew[1] < L:
                        pnew = ("i", L)
                else:
                    q = ("k", rng.choice(sorted(v.items)))
                    pnew = ("k", rng.choice(KEYS)) if rng.random() < 0.9 else ("i", rng.randrange(0, 4))
                extra = [rng.choice([("i", 0), ("k", b"a")])] if rng.random() < 0.2 else []
                return path_str(root, list(steps) + [pnew] + extra), path_str(root, list(steps) + [q])
        return None

    def mutate(self):
        rng = self.rng
        r = rng.random()
        if r < 0.03:
            pq = self.sibling()
            if pq is None:
                return
            line = "%s %s %s" % ((rng.choice(["setv", "setv", "app", "ext"]),) + pq)
            # half of them may fall into the known finding (refused as skip-source-moved): the guard itself is compared
            if rng.random() < 0.5 and self.would(line) == "skip-source-moved":
                return
            self.emit(line)
            return
        if r < 0.07 and r >= 0.06:
            # p = (name of the i-th property of q): mostly q is p itself or inside it
            for _ in range(8):
                root, steps, v = self.rand_path(deep=rng.choice([0.2, 0.6, 0.9]))
                if isinstance(v, Obj) and v.items:
                    break
            else:
                return
            if rng.random() < 0.75:
                target = path_str(root, steps[:rng.randrange(0, len(steps) + 1)])
            else:
                target = self.target_path()
            line = "setkey %s %s %d" % (target, path_str(root, steps), rng.randrange(0, len(v.items) + (1 if rng.random() < 0.05 else 0)))
            if rng.random() < 0.8 and self.would(line) in ("skip-shared-growth", "skip-source-moved"):
                return
            self.emit(line)
            return
        if r < 0.06 and r >= 0.045:
            # p = *q + off with q a string Var: mostly inside the container that p holds (v = *v[0], v = *v["k"]["j"])
            for _ in range(8):
                root, steps, v = self.rand_path(deep=0.95)
                if isinstance(v, tuple) and v[0] == "s":
                    break
            else:
                return
            L = len(v[1])
            if steps and rng.random() < 0.7:
                target = path_str(root, steps[:rng.randrange(0, len(steps))])
            else:
                target = self.target_path()
            line = "setcs %s %s %d" % (target, path_str(root, steps), rng.choice([0, 0, 0, 1, L, max(L - 7, 0), max(L - 8, 0), rng.randrange(0, L + 1)]))
            if rng.random() < 0.8 and self.would(line) in ("skip-shared-growth", "skip-source-moved"):
                return
            self.emit(line)
            return
        if r < 0.045:
            # p = *p + off: a piece of the Var's own string
            for _ in range(6):
                root, steps, v = self.rand_path(deep=0.9)
                if isinstance(v, tuple) and v[0] == "s":
                    break
            else:
                return
            L = len(v[1])
            self.emit("setsub %s %d" % (path_str(root, steps), rng.choice([0, 1, 1, 2, 3, L, max(L - 1, 0), max(L - 7, 0), max(L - 8, 0), rng.randrange(0, L + 1)]) if L else 0))
            return
        if r < 0.20:
            line = "set %s %s" % (self.target_path(), rlit(rng))
        elif r < 0.25:
            line = "set %s t %s" % (self.target_path(), rng.choice(TYPE_NAMES))
        elif r < 0.43:
            if rng.random() < 0.35:
                pq = self.own_part()
                if pq is None:
                    return
                line = "setv %s %s" % pq
            elif rng.random() < 0.1:
                # an ancestor into its own descendant: must be refused as cyclic
                pq = self.own_part()
                if pq is None:
                    return
                line = "setv %s %s" % (pq[1], pq[0])
            else:
                line = "setv %s %s" % (self.target_path(), self.source_path(want_cont=rng.random() < 0.6))
        elif r < 0.53:
            if rng.random() < 0.3:
                pq = self.own_part()
                if pq is None:
                    return
                line = "app %s %s" % pq
            else:
                line = "app %s %s" % (self.target_path(), self.source_path(want_cont=rng.random() < 0.4))
        elif r < 0.65:
            line = "appl %s %s" % (self.target_path(), rlit(rng))
        elif r < 0.70:
            root, steps, v = self.rand_path()
            L = len(v.items) if isinstance(v, Arr) else 0
            cap = v.cap if isinstance(v, Arr) else 3
            line = "resize %s %d" % (path_str(root, steps), rng.choice([0, 1, L, max(L - 1, 0), L + 1, cap, cap + 1, 2 * cap + 1, rng.randrange(0, 30)]))
        elif r < 0.75:
            root, steps, v = self.rand_path()
            L = len(v.items) if isinstance(v, Arr) else 0
            line = "remat %s %d %d" % (path_str(root, steps), rng.choice([-1, L]) if rng.random() < 0.05 else rng.randrange(0, L + 1), rng.choice([1, 1, 1, 2, 3, 0, L, -1, L + 1, L + 1, 2 ** 31 - 1, 2 ** 31 - 1, 2 ** 31 - 2, min(2 ** 31 - L, 2 ** 31 - 1), 2 ** 31 - 1 - L, 2 ** 30, -2 ** 31]))
        elif r < 0.79:
            root, steps, v = self.rand_path()
            ks = sorted(v.items) if isinstance(v, Obj) else []
            line = "rem %s %s" % (path_str(root, steps), hexs(rng.choice(ks) if ks and rng.random() < 0.8 else rng.choice(KEYS)))
        elif r < 0.81:
            root, steps, v = self.rand_path()
            line = "clear %s" % path_str(root, steps)
        elif r < 0.87:
            if rng.random() < 0.3:
                pq = self.own_part()
                if pq is None:
                    return
                line = "ext %s %s" % pq
            else:
                line = "ext %s %s" % (self.target_path(), self.source_path(want_cont=True))
        elif r < 0.91:
            line = "clone %d %s" % (rng.randrange(NS), self.source_path(want_cont=rng.random() < 0.8))
        elif r < 0.97:
            line = "copy %d %s" % (rng.randrange(NS), self.source_path(want_cont=rng.random() < 0.8))
        elif r < 0.975:
            line = "drop %d" % rng.randrange(NS)
        else:
            k = rng.randrange(NS)
            c = rng.random()
            if c < 0.1:
                kind = rng.choice("isd")
                n = rng.choice([0, 1, 2, 3, 4, 5, 6, 7, 13])
                vals = [rlit(rng, kind).split(None, 1)[1].replace(" ", ":") for _ in range(n)]
                if kind != "s" and 1 <= n <= 4 and rng.random() < 0.5:
                    line = "ctor %d list %s %s" % (k, kind, " ".join(vals))
                else:
                    line = ("ctor %d arr %s %s" % (k, kind, " ".join(vals))).rstrip()
            elif c < 0.2:
                kind = rng.choice("is")
                n = rng.choice([0, 1, 2, 3, 4, 5, 7, 9])
                ents = ["%s=%s" % (hexs(rng.choice(KEYS) if rng.random() < 0.7 else rstring(rng)).replace("-", "2d2d"), rlit(rng, kind).split()[1]) for _ in range(n)]
                line = ("ctor %d dic %s %s" % (k, kind, " ".join(ents))).rstrip()
            elif c < 0.3:
                n = rng.randrange(0, 5)
                line = ("ctor %d varr %s" % (k, " ".join(self.source_path() for _ in range(n)))).rstrip()
            elif c < 0.4:
                line = "ctor %d kv %s %s" % (k, hexs(rng.choice(KEYS)), self.source_path())
            elif c < 0.5:
                line = "ctor %d t %s" % (k, rng.choice(TYPE_NAMES))
            else:
                line = "ctor %d %s" % (k, rlit(rng))
        # most of the time avoid operations that the known-finding guard would refuse (they change nothing)
        if rng.random() < 0.8 and self.would(line) in ("skip-shared-growth", "skip-source-moved"):
            return
        self.emit(line)

    def query(self):
        rng = self.rng
        r = rng.random()
        if r < 0.30:
            self.emit("dump %s" % self.source_path())
        elif r < 0.42:
            self.emit("dumpall")
        elif r < 0.62:
            a, b = self.source_path(), self.source_path()
            self.emit("eq %s %s" % (a, b))
        elif r < 0.70:
            self.emit("tostr %s" % self.source_path())
        elif r < 0.75:
            self.emit("conv %s" % self.source_path())
        elif r < 0.79:
            self.emit("len %s" % self.source_path())
        elif r < 0.82:
            self.emit("type %s" % self.source_path())
        elif r < 0.85:
            self.emit("is %s %s" % (self.source_path(), rng.choice(list(TYPES))))
        elif r < 0.88:
            root, steps, v = self.rand_path()
            ks = sorted(v.items) if isinstance(v, Obj) else []
            k = rng.choice(ks) if ks and rng.random() < 0.7 else rng.choice(KEYS)
            self.emit(rng.choice(["has %s %s", "get %s %s"]) % (path_str(root, steps), hexs(k)))
            if rng.random() < 0.5:
                self.emit("hast %s %s %s" % (path_str(root, steps), hexs(k), rng.choice(list(TYPES))))
        elif r < 0.91:
            self.emit("contains %s %s" % (self.source_path(want_cont=True), self.source_path()))
        elif r < 0.95:
            self.emit("rc %s" % self.source_path(want_cont=True))
        else:
            self.emit("eqlit %s %s" % (self.source_path(), rlit(rng, "iidfbsc")))

    def equal_pairs(self):
        """comparisons that are likely to be *equal*: clone/copy against the original, rebuilt numeric twins"""
        rng = self.rng
        root, steps, v = self.rand_path(deep=0.4)
        p = path_str(root, steps)
        k = rng.randrange(NS)
        if k == root:
            return
        self.emit("%s %d %s" % (rng.choice(["clone", "copy"]), k, p))
        self.emit("eq %d %s" % (k, p))
        if rng.random() < 0.5:
            self.emit("tostr %d" % k)

    def history(self, nops):
        rng = self.rng
        self.emit("reset")
        while len(self.lines) < nops:
            r = rng.random()
            if r < 0.62:
                self.mutate()
            elif r < 0.95:
                self.query()
            else:
                self.equal_pairs()
        self.emit("dumpall")
        # destruction order with shared children: drop the roots one by one, looking at the rest
        order = list(range(NS))
        rng.shuffle(order)
        for k in order[:rng.randrange(0, NS + 1)]:
            self.emit("drop %d" % k)
            if rng.random() < 0.3:
                self.emit("dumpall")
        return self.lines


def history(rng, nops):
    return Gen(rng).history(nops)


def lit_cases(rng, tier):
    """construction + accessors on every literal kind (accessors_faithful), strings of every length 0..20 and 7/8"""
    cases = []
    lits = []
    for n in list(range(0, 21)) + [7, 8, 7, 8, 31, 32, 100]:
        s = bytes(rng.choice(b"abcdefghijklmnopqrstuvwxyz0123456789") for _ in range(n))
        lits += ["s " + hexs(s), "c " + hexs(s)]
    for i in INTS:
        lits += ["i %d" % i, "d %d 0" % i, "l %d" % i]
        if abs(i) <= 2 ** 24:
            lits.append("f %d 0" % i)
        if i >= 0:
            lits.append("u %d" % i)
    lits += ["u %d" % u for u in (2 ** 31 - 1, 2 ** 31, 2 ** 31 + 1, 2 ** 32 - 1)]
    big = [2 ** 53, 2 ** 53 + 1, 2 ** 53 + 2, 2 ** 53 + 3, 9007199254740993, 2 ** 54 + 2, 2 ** 54 + 6, 2 ** 62, 2 ** 63 - 1, 2 ** 63 - 512, 2 ** 63 - 513, 123456789012345678]
    lits += ["L %d" % x for x in (0, -7, 2 ** 31 - 1, 2 ** 31, -2 ** 31, -2 ** 31 - 1, 1099511627781, -1099511627781, 2 ** 32 + 5, 2 ** 53 - 1, -2 ** 63)]
    lits += ["L %d" % x for x in big] + ["L %d" % -x for x in big] + ["l %d" % x for x in big] + ["l %d" % -x for x in big] + ["l %d" % -2 ** 63]
    lits += ["UL %d" % x for x in (0, 7, 2 ** 31 - 1, 2 ** 31, 2 ** 32 - 1, 2 ** 32, 4294967303, 2 ** 53 - 1, 2 ** 63, 2 ** 64 - 1, 2 ** 64 - 2048, 2 ** 64 - 1025)]
    lits += ["UL %d" % x for x in big]
    lits += ["b 0", "b 1", "d 1 1", "d 3 2", "d -5 3", "f 1 1", "f 13421773 27", "d 1 60", "d 7 1074", "l 9007199254740991",
             "d 9007199254740991 0", "d -9007199254740991 10", "d 1 10", "d 1234567890123457 20"]
    for _ in range(40 if tier == "quick" else 400):
        lits.append(rlit(rng))
    for i in range(0, len(lits), 6):
        c = ["reset"]
        for j, l in enumerate(lits[i:i + 6]):
            k = j % NS
            c.append("ctor %d %s" % (k, l))
            c += ["dump %d" % k, "type %d" % k, "conv %d" % k, "tostr %d" % k, "len %d" % k]
            c += ["is %d %s" % (k, tn) for tn in ("NUMBER", "INT", "FLOAT", "STRING", "SSTRING", "BOOL")]
            c.append("eqlit %d %s" % (k, l if l[0] in "idfbsc" else "i 0"))
            # the same value through the typed assignment, on top of an old container / string / scalar
            k2 = (k + 1) % NS
            c.append("set %d %s" % (k2, rng.choice(["t ARRAY", "t OBJ", "s 6162636465666768696a", "s 616263", "i 5", "t NONE"])))
            c.append("set %d %s" % (k2, l))
            c += ["dump %d" % k2, "eq %d %d" % (k, k2)]
            # element of an auto-created array and property of an auto-created object
            c.append("set %d/i2 %s" % ((k + 2) % NS, l))
            c.append("set %d/k6b %s" % ((k + 3) % NS, l))
            c.append("eq %d/i2 %d/k6b" % ((k + 2) % NS, (k + 3) % NS))
        c.append("dumpall")
        cases.append(c)
    return cases


def container_ctor_cases(rng, tier):
    """Var built from an array or an object: Var(Array<T>), Var{x1,..} (initializer_list<T>), Var(Dic<T>), Var::array({..})
    at every size across the capacity steps 3 / 6, then read back (dump, length, rc, ==, clone) and grown"""
    cases = []
    for n in list(range(0, 9)) + [13, 40]:
        ints = [rng.choice(INTS) for _ in range(n)]
        strs = [hexs(rstring(rng)) for _ in range(n)]
        dbls = ["%d:%d" % rdouble(rng) for _ in range(n)]
        keys = []
        while len(keys) < n:
            kx = rstring(rng) or b"k"
            if kx not in keys:
                keys.append(kx)
        c = ["reset", ("ctor 0 arr i " + " ".join(map(str, ints))).rstrip(), ("ctor 1 arr s " + " ".join(strs)).rstrip(),
             ("ctor 2 arr d " + " ".join(dbls)).rstrip(),
             ("ctor 3 dic i " + " ".join("%s=%d" % (hexs(k), v) for k, v in zip(keys, ints))).rstrip(),
             ("ctor 4 dic s " + " ".join("%s=%s" % (hexs(k), v) for k, v in zip(keys, strs))).rstrip()]
        if 1 <= n <= 4:
            c += ["ctor 5 list i " + " ".join(map(str, ints)), "eq 5 0", "ctor 6 list d " + " ".join(dbls), "eq 6 2"]
        if n <= 4:
            c += [("ctor 7 varr " + " ".join(str(j % 5) for j in range(n))).rstrip(), "len 7", "dump 7", "rc 7"]
        c += ["dumpall", "len 0", "len 3", "rc 0", "rc 3", "type 0", "type 3", "tostr 1", "tostr 3", "clone 5 0", "eq 5 0", "clone 6 4", "eq 6 4"]
        # grow them: the capacity chosen by the constructor decides when a shared block would have to move
        c += ["copy 6 0", "appl 0 i 1", "appl 0 i 2", "appl 0 i 3", "drop 6", "appl 0 i 4", "appl 0 i 5", "appl 0 i 6", "appl 0 i 7",
              "copy 6 3", "set 3/k7a7a31 i 1", "set 3/k7a7a32 i 2", "set 3/k7a7a33 i 3", "drop 6", "set 3/k7a7a34 i 4", "dumpall"]
        if n >= 1:
            c += ["has 3 %s" % hexs(keys[0]), "get 4 %s" % hexs(keys[-1]), "contains 0 0/i0", "setv 0 0/i0", "dump 0"]
        cases.append(c)
    # duplicate keys: the later entry wins
    cases.append(["reset", "ctor 0 dic i 61=1 62=2 61=3 63=4 62=5", "dump 0", "len 0", "rc 0", "ctor 1 dic s 6b=61 6b=62", "dump 1"])
    return cases


def numeric_eq_cases(rng):
    """INT/NUMBER/FLOAT of the same value are equal, STRING/SSTRING of the same bytes are equal, everything else differs"""
    c = ["reset"]
    vals = ["i 5", "d 5 0", "f 5 0", "l 5", "u 5", "d 10 1", "i 6", "d 11 1", "s 35", "b 1", "i 1", "d 1 0", "i 0", "b 0", "t NUL", "t NONE",
            "s -", "t STRING", "t SSTRING", "t ARRAY", "t OBJ"]
    cases = []
    for i, a in enumerate(vals):
        c = ["reset", ("ctor 0 %s" % a)]
        for b in vals:
            c.append("ctor 1 %s" % b)
            c.append("eq 0 1")
            c.append("set 2/i0 %s" % a)
            c.append("set 3/i0 %s" % b)
            c.append("eq 2 3")
            c.append("set 4/k61 %s" % a)
            c.append("set 5/k61 %s" % b)
            c.append("eq 4 5")
        cases.append(c)
    # a STRING that holds a short text (assigned in place) against an SSTRING
    cases.append(["reset", "ctor 0 s 6162636465666768696a", "set 0 s 616263", "ctor 1 s 616263", "eq 0 1", "dump 0", "len 0", "type 0",
                  "set 0 c 78", "eqlit 0 c 78", "set 1 s 6162636465666768696a6b", "dump 1", "set 1 c 6162636465666768", "dump 1", "len 1"])
    return cases


def float_int_cases(rng, tier):
    """FLOAT (built through the C++ float constructor / operator=(float)) against INT and NUMBER around the 24-bit
    significand: an int that a float cannot hold must differ from the float it rounds to, in both operand orders, as
    array elements, as object values and through contains().  Exact arithmetic only (ints / Fraction)."""
    ints = list(BIG_INTS) + [rbigint(rng) for _ in range(24 if tier == "quick" else 300)]
    rng.shuffle(ints)
    cases = []
    for n in range(0, len(ints), 4):
        c = ["reset"]
        for i in ints[n:n + 4]:
            r = f32_round_int(i)
            for fv in f32_neighbours(r):
                if abs(fv) > 2 ** 31:
                    continue
                c += ["ctor 0 f %d 0" % fv, "ctor 1 i %d" % i, "eq 0 1", "eq 1 0",
                      "set 2/i0 f %d 0" % fv, "set 3/i0 i %d" % i, "eq 2 3", "contains 2 1", "contains 3 0",
                      "set 4/k61 f %d 0" % fv, "set 5/k61 i %d" % i, "eq 4 5", "eq 5 4",
                      "appl 6 f %d 0" % fv, "appl 6 i %d" % i, "contains 6 1", "contains 6 0", "contains 6 3/i0",
                      # the same int as a double (not float-representable unless i == r), and the float's value as a double
                      "ctor 7 d %d 0" % i, "eq 0 7", "eq 7 1", "contains 2 7", "ctor 7 d %d 0" % fv, "eq 0 7", "eq 7 1",
                      "eqlit 0 i %d" % i, "eqlit 0 d %d 0" % i, "eqlit 1 d %d 0" % fv, "eqlit 1 f %d 0" % fv]
            c += ["dumpall", "clear 6"]
        cases.append(c)
    # fractions: a double that is / is not the value of a float
    fr = ["reset"]
    for (fm, fe), (dm, de) in [((13421773, 27), (3602879701896397, 55)), ((13421773, 27), (13421773, 27)), ((1, 1), (1, 1)),
                               ((11184811, 25), (6004799503160661, 54)), ((16777215, 24), (9007199254740991, 53)),
                               ((8388609, 23), (4503599627370497, 52)), ((3, 2), (3, 2))]:
        fr += ["ctor 0 f %d %d" % (fm, fe), "ctor 1 d %d %d" % (dm, de), "eq 0 1", "set 2/i0 f %d %d" % (fm, fe),
               "set 3/i0 d %d %d" % (dm, de), "eq 2 3", "contains 2 1", "contains 3 0", "set 4/k61 f %d %d" % (fm, fe),
               "set 5/k61 d %d %d" % (dm, de), "eq 4 5", "eqlit 0 d %d %d" % (dm, de), "eqlit 1 f %d %d" % (fm, fe)]
    cases.append(fr)
    return cases


def growth_cases(rng, tier):
    """appends / index creation across every capacity boundary 3, 6, 12, 24, 48, ... with and without a second handle"""
    cases = []
    for shared_at in [None, 0, 2, 3, 5, 6, 11, 12, 13, 24, 47, 48]:
        c = ["reset"]
        for i in range(100 if tier == "quick" else 400):
            if i == shared_at:
                c.append("copy 1 0")
            c.append(rng.choice(["appl 0 i %d" % i, "set 0/i%d i %d" % (i, i), "appl 0 s 61626364656667686970"]))
            if i % 7 == 0:
                c += ["len 0", "rc 0", "dump 1"]
            if shared_at is not None and i == shared_at + 3:
                c.append("drop 1")      # the only other handle goes away: growth is allowed again
        c += ["dumpall", "tostr 0"]
        cases.append(c)
        o = ["reset"]
        for i in range(60 if tier == "quick" else 300):
            if i == shared_at:
                o.append("copy 1 0")
            o.append("set 0/k%s i %d" % (hexs(b"key%03d" % ((i * 37) % 101)), i))
            if i % 7 == 0:
                o += ["len 0", "rc 0", "dump 1"]
            if shared_at is not None and i == shared_at + 3:
                o.append("drop 1")
        o += ["dumpall", "tostr 0"]
        cases.append(o)
    # resize far up / down, index far beyond
    cases.append(["reset", "resize 0 100", "len 0", "set 0/i99 i 1", "set 0/i250 s 78", "len 0", "resize 0 3", "dump 0", "resize 0 0", "dump 0",
                  "set 1/i1000 b 1", "len 1", "clone 2 1", "eq 1 2", "remat 1 1 999", "dump 1", "eq 1 2"])
    return cases


def deep_cases(rng):
    cases = []
    for depth in (2, 4, 6, 10, 40):
        p = "0" + "".join(rng.choice(["/i0", "/i1", "/k61", "/k6b6579"]) for _ in range(depth))
        c = ["reset", "set %s s 6c656166206c656166" % p, "dump 0", "clone 1 0", "copy 2 0", "eq 0 1", "eq 1 2", "tostr 0"]
        # assign the root one of its own descendants at every depth
        steps = p.split("/")
        for d in range(len(steps) - 1, 0, -1):
            c += ["clone 3 0", "setv 3 3/" + "/".join(steps[1:d + 1]), "dump 3"]
        c += ["setv 0 %s" % p, "dump 0", "dumpall", "drop 1", "dumpall"]
        cases.append(c)
    return cases


def boundary_cases(rng, tier):
    """rarely used overloads and boundary arguments (defect hunt): a piece of the Var's own string assigned to it, removeAt counts
    near INT_MAX, ULong construction / assignment / conversion up to 2^64, string keys applied to arrays, Var(Type) for every type"""
    cases = []
    # p = *p + off on both sides of the inline boundary, as a root, an element and a property
    for n in [1, 2, 6, 7, 8, 9, 15, 16, 17, 33, 100]:
        s = bytes(rng.choice(b"abcdefghijklmnopqrstuvwxyz0123456789") for _ in range(n))
        for where in ["0", "1/i1", "2/k6b"]:
            c = ["reset", "set %s s %s" % (where, hexs(s))]
            for off in sorted(set([1, 2, n // 2, max(n - 8, 0), max(n - 7, 0), n - 1, n, 0])):
                c += ["set %s s %s" % (where, hexs(s)), "setsub %s %d" % (where, off), "dump %s" % where, "type %s" % where, "len %s" % where, "tostr %s" % where]
            c += ["setsub %s 1" % where, "setsub %s 1" % where, "dumpall", "setsub %s %d" % (where, n + 5), "set 3 i 5", "setsub 3 0"]
            cases.append(c)
    # p = *q: the text of an own element / property (v = *v[0], v = *v["k"], a[1] = *a[1][0]); container shared or not
    for n in [0, 1, 5, 7, 8, 9, 24, 100]:
        s = bytes(rng.choice(b"abcdefghijklmnopqrstuvwxyz0123456789") for _ in range(n))
        for shared in (False, True):
            for tgt, src, build in [("0", "0/i0", ["appl 0 s %s" % hexs(s), "appl 0 i 2"]),
                                    ("0", "0/k6b", ["set 0/k6b s %s" % hexs(s), "set 0/k61 i 1"]),
                                    ("0/i1", "0/i1/i0", ["appl 0 i 1", "appl 0/i1 s %s" % hexs(s), "appl 0/i1 b 1"]),
                                    ("0", "0/k6b/i2/k6a", ["set 0/k6b/i2/k6a s %s" % hexs(s)]),
                                    ("0/k6b", "0/k6b/i2/k6a", ["set 0/k6b/i2/k6a s %s" % hexs(s)])]:
                c = ["reset"] + build
                if shared:
                    c.append("copy 1 %s" % tgt)
                off = rng.choice([0, 0, min(1, n), n // 2, n])
                c += ["setcs %s %s %d" % (tgt, src, off), "dump %s" % tgt, "type %s" % tgt, "len %s" % tgt, "dumpall", "rc 1", "drop 1", "dumpall"]
                cases.append(c)
    # p = (a property name of q) with q = p, q inside p, q elsewhere; names on both sides of the inline boundary; object shared or not
    for names in [[b"a long property name beyond inline", b"b"], [b"k", b"zz"], [b"exactly7", b"sevench", b"eight678"], [b""], [b"x" * 40, b"y" * 23, b"a"]]:
        for shared in (False, True):
            for tgt, src in [("0", "0"), ("0", "0/k6f"), ("0/k6f", "0/k6f"), ("1/i2", "0"), ("0/i0", "0/i0/i1")]:
                c = ["reset"]
                base = src
                for j, nm in enumerate(names):
                    c.append("set %s/k%s i %d" % (base, hexs(nm), j))
                if shared:
                    c.append("copy 2 %s" % tgt.split("/")[0])
                for i in range(len(names)):
                    c += ["setkey %s %s %d" % (tgt, src, i), "dump %s" % tgt, "type %s" % tgt, "len %s" % tgt]
                    if i + 1 < len(names):
                        # rebuild for the next name
                        c += ["set %s t NONE" % src.split("/")[0]] + ["set %s/k%s i %d" % (base, hexs(nm), j) for j, nm in enumerate(names)]
                c += ["dumpall", "drop 2", "dumpall"]
                cases.append(c)
    # const index beyond the length (c[3] on [1,2,3]): every reader and every operation taking a source
    for L in [0, 1, 3, 4, 6, 7]:
        c = ["reset", "set 0 t ARRAY"] + ["appl 0 i %d" % (10 + i) for i in range(L)] + ["set 1/k61 t ARRAY"] + ["appl 1/k61 s %s" % hexs(b"element %d of the inner array" % i) for i in range(L)]
        for i in sorted(set([L, L + 1, 3, 6, 12, 13, 100000, 2147483647])):
            if i < L:
                continue
            for q in ["0/i%d" % i, "1/k61/i%d" % i, "0/i%d/i0" % i, "1/k61/i%d/k61" % i]:
                c += ["dump %s" % q, "type %s" % q, "len %s" % q, "conv %s" % q, "tostr %s" % q, "is %s NONE" % q, "eq %s 7" % q, "eq %s 0/i0" % q,
                      "setv 2 %s" % q, "app 3 %s" % q, "ext 4 %s" % q, "clone 5 %s" % q, "copy 6 %s" % q, "ctor 7 varr %s 0" % q, "setv 0/i%d %s" % (L, q) if L < 3 else "dump 0"]
            c += ["dumpall", "set 0 t ARRAY"] + ["appl 0 i %d" % (10 + j) for j in range(L)]
        cases.append(c)
    # removeAt(i, n) with counts up to INT_MAX
    for L in [1, 2, 3, 4, 7, 13]:
        c = ["reset"] + ["appl 0 i %d" % i for i in range(L)] + ["copy 1 0", "set 2/k61 t ARRAY"] + ["appl 2/k61 s %s" % hexs(b"element number %d" % i) for i in range(L)]
        for i in sorted(set([0, 1, L - 1, L])):
            for n in [2 ** 31 - 1, 2 ** 31 - 1 - i, min(2 ** 31 - i, 2 ** 31 - 1), 2 ** 31 - L, 2 ** 30, L - i + 1, -2 ** 31, -1]:
                c += ["remat 0 %d %d" % (i, n), "remat 2/k61 %d %d" % (i, n)]
            c += ["dump 0", "dump 2", "len 0"]
        c += ["remat 0 0 %d" % L, "remat 2/k61 %d 1" % (L - 1), "dumpall", "drop 0", "dumpall"]
        cases.append(c)
    # ULong: constructor, assignment (onto a number, a string, a container), append, conversions
    qs = [0, 1, 2 ** 31, 2 ** 32 + 5, 2 ** 53 - 1, 2 ** 53, 2 ** 63 - 1024, 2 ** 63, 2 ** 63 + 2048, 9223372036854777856, 3 * 2 ** 62, 2 ** 64 - 2048,
          2 ** 64 - 1, 2 ** 63 + 1, 2 ** 63 - 1, 2 ** 53 + 1] + [rulong(rng) for _ in range(8 if tier == "quick" else 60)]
    for j in range(0, len(qs), 4):
        c = ["reset"]
        for q in qs[j:j + 4]:
            c += ["ctor 0 Q %d" % q, "set 1 %s" % rng.choice(["t ARRAY", "s 6162636465666768696a", "i 5", "t NONE", "d 3 1"]), "set 1 Q %d" % q,
                  "set 2/i1 Q %d" % q, "set 3/k71 Q %d" % q, "appl 4 Q %d" % q, "dump 0", "dump 1", "eq 0 1", "eq 1 2/i1", "eq 0 3/k71", "eq 0 4/i0",
                  "conv 0", "conv 1", "conv 2/i1", "tostr 0", "tostr 1", "type 1", "is 1 NUMBER"]
            if int(float(q)) < 2 ** 63:
                c += ["set 5 d %d 0" % (int(float(q))), "eq 5 1", "eq 1 5", "conv 5"]
        c += ["set 6 d -1 0", "conv 6", "set 6 d -9223372036854775808 0", "conv 6", "set 6 f 1 0", "conv 6", "set 6 i -7", "conv 6", "set 6 s 2d3432", "conv 6", "dumpall"]
        cases.append(c)
    # string keys applied to arrays: existing element, first free, beyond the capacity, non-numeric texts, a second handle
    for L in [0, 1, 3, 4, 6]:
        for key in [b"0", b"%d" % max(L - 1, 0), b"%d" % L, b"%d" % (L + 1), b"7", b"13", b"+2", b"007", b"5x", b"name", b"", b"-1", b"-2", b"-2147483648", b"-0", b"4294967298"]:
            c = ["reset", "set 0 t ARRAY"] + ["appl 0 i %d" % (10 + i) for i in range(L)]
            c += ["set 0/k%s i 5" % hexs(key), "dump 0", "len 0", "set 1/k61 t ARRAY", "set 1/k61/k%s s %s" % (hexs(key), hexs(b"a long string value")),
                  "dump 1", "type 0/k%s" % hexs(key), "setv 2 0", "set 0/k%s/k62 i 1" % hexs(b"%d" % (L + 9)), "dumpall", "rc 0"]
            cases.append(c)
    # Var(Type) / v = Type for every type, read back through every accessor
    for ty in list(TYPES):
        c = ["reset", "ctor 0 t %s" % ty, "dump 0", "type 0", "conv 0", "tostr 0", "len 0", "eqlit 0 i 0", "eqlit 0 b 0", "eqlit 0 d 0 0",
             "set 1 %s" % rng.choice(["t ARRAY", "s 6162636465666768696a", "i 5", "d 7 1"]), "set 1 t %s" % ty, "dump 1", "conv 1", "eq 0 1",
             "set 2/i2 t %s" % ty, "set 3/k61 t %s" % ty, "appl 4 i 1", "set 4/i0 t %s" % ty, "dumpall", "eq 2/i2 3/k61", "eq 4/i0 0", "conv 2/i2", "conv 3/k61", "tostr 4",
             "clone 5 2", "eq 5 2", "ctor 6 i 0", "eq 6 0", "ctor 7 b 0", "eq 7 0"]
        cases.append(c)
    return cases


def accessor_table_cases(rng, tier):
    """every type tag x every converting accessor (extension round): a value of each tag — the empty one Var(Type) gives and a
    populated one — read through type/is(all 10)/int/Long/ULong/double/bool/String/toString/length/has/has(k,t)/operator()(k)/contains and
    the const operator[] with a present key, a missing key, an index inside and beyond the length, and a path continuing through none."""
    cases = []
    reps = 2 if tier == "quick" else 12
    for _ in range(reps):
        i = rng.choice(INTS + [rbigint(rng)])
        pops = {
            "NONE": ["ctor 0 t NONE"], "NUL": ["ctor 0 t NUL"], "BOOL": ["ctor 0 b %d" % rng.randint(0, 1)],
            "INT": ["ctor 0 i %d" % i], "NUMBER": ["ctor 0 d %d 0" % i], "FLOAT": ["ctor 0 f %d 0" % f32_round_int(i)],
            "SSTRING": ["ctor 0 s %s" % hexs(rng.choice([b"", b"7", b"-42", b"abc", b"1234567"]))],
            "STRING": ["ctor 0 s %s" % hexs(rng.choice([b"12345678", b"-123456789", b"a long string value", b"000000012"]))],
            "ARRAY": ["ctor 0 t ARRAY", "appl 0 i %d" % i, "appl 0 s 61", "appl 0 d %d 0" % i, "appl 0 b 1", "set 0/i5 s 6162636465666768696a"],
            "OBJ": ["ctor 0 t OBJ", "set 0/k61 i %d" % i, "set 0/k62 s 78", "set 0/k%s d 7 1" % hexs(b"key"), "set 0/k63/k61 b 1", "set 0/k%s t NUL" % hexs(b"")],
        }
        probes = ["ctor 1 i %d" % i, "ctor 2 d %d 0" % i, "ctor 3 s 61", "ctor 4 t NONE", "ctor 5 b 1", "ctor 6 s 6162636465666768696a", "ctor 7 t NUL"]
        for ty in list(TYPES):
            for pop in (["ctor 0 t %s" % ty], pops[ty]):
                c = ["reset"] + pop + probes + ["dump 0", "type 0", "conv 0", "tostr 0", "len 0"]
                c += ["is 0 %s" % t for t in TYPES]
                for k in [b"a", b"b", b"c", b"key", b"", b"zz", b"0", rng.choice(KEYS)]:
                    c += ["has 0 %s" % hexs(k), "get 0 %s" % hexs(k), "hast 0 %s %s" % (hexs(k), rng.choice(list(TYPES))),
                          "dump 0/k%s" % hexs(k), "type 0/k%s" % hexs(k), "len 0/k%s" % hexs(k)]
                c += ["contains 0 %d" % j for j in range(1, 8)] + ["contains 0 0", "contains 0 0/i0", "contains 0 0/k61"]
                for ix in [0, 1, 4, 5, 6, 100]:
                    c += ["dump 0/i%d" % ix, "conv 0/i%d" % ix, "is 0/i%d NONE" % ix]
                c += ["dump 0/k7a7a/i3/k61", "conv 0/k7a7a/i3", "has 0/k63 61", "has 0/k63 62", "get 0/k63 61", "len 0/k63", "tostr 0/k63", "dumpall"]
                cases.append(c)
    return cases


def shared_container_assign_cases(rng, tier):
    """p = Array<T> / p = Dic<T> (the templated container assignments) and p = "text" on a Var whose ARRAY/OBJ is SHARED: the container
    is first copied into a second root, stored inside another container, or reached as obj["k"]; then the Var is assigned a container
    value (shorter, equal, longer than the block's capacity) and BOTH handles are read.  Assignment must rebind the target only."""
    cases = []
    reps = 30 if tier == "quick" else 400
    for _ in range(reps):
        c = ["reset"]
        n0 = rng.choice([0, 1, 2, 3, 4, 7])
        if rng.random() < 0.6:
            c += ["set 0 t ARRAY"] + ["appl 0 %s" % rng.choice(["i %d" % rng.choice(INTS), "s %s" % hexs(rstring(rng)), "b 1", "d 7 1"]) for _ in range(n0)]
        else:
            c += ["set 0 t OBJ"] + ["set 0/k%s i %d" % (hexs(rng.choice(KEYS)), rng.choice(INTS)) for _ in range(n0)]
        # share it
        share = rng.choice(["copy", "elem", "prop", "both"])
        if share in ("copy", "both"):
            c += ["copy 1 0"]
        if share in ("elem", "both"):
            c += ["appl 2 i 1", "app 2 0"]
        if share == "prop":
            c += ["set 3/k%s i 1" % hexs(b"a"), "setv 3/k%s 0" % hexs(b"list")]
        c += ["dumpall", "rc 0"]
        # the target: the root itself, or the same container reached through the holder
        tgt = "0"
        if share == "prop" and rng.random() < 0.5:
            tgt = "3/k%s" % hexs(b"list")
        elif share in ("elem", "both") and rng.random() < 0.3:
            tgt = "2/i1"
        m = rng.choice([0, 1, 2, 3, 4, 5, 8])
        kind = rng.choice(["ai", "as", "ad", "di", "ds", "s", "c", "t"])
        if kind == "ai":
            c += [("seta %s i " % tgt + " ".join(str(rng.choice(INTS)) for _ in range(m))).rstrip()]
        elif kind == "as":
            c += [("seta %s s " % tgt + " ".join(hexs(rstring(rng)) for _ in range(m))).rstrip()]
        elif kind == "ad":
            c += [("seta %s d " % tgt + " ".join("%d:%d" % (rng.randint(-50, 50), rng.randint(0, 3)) for _ in range(m))).rstrip()]
        elif kind == "di":
            c += [("setd %s i " % tgt + " ".join("%s=%d" % (hexs(rng.choice(KEYS)), rng.choice(INTS)) for _ in range(m))).rstrip()]
        elif kind == "ds":
            c += [("setd %s s " % tgt + " ".join("%s=%s" % (hexs(rng.choice(KEYS)), hexs(rstring(rng))) for _ in range(m))).rstrip()]
        elif kind == "t":
            c += ["set %s t %s" % (tgt, rng.choice(["ARRAY", "OBJ"]))]
        else:
            c += ["set %s %s %s" % (tgt, kind, hexs(rstring(rng)))]
        c += ["dump 0", "dump 1", "dump 2", "dump 3", "rc 0", "rc 1", "len 1", "dumpall"]
        # a second assignment over the fresh value, then mutate the target and read the old holders again
        c += [("seta %s i " % tgt + " ".join(str(j) for j in range(rng.choice([0, 2, 5])))).rstrip(), "appl %s i 9" % tgt, "dumpall",
              "drop 0", "dumpall", "drop 1", "drop 2", "drop 3", "dumpall"]
        cases.append(c)
    # malformed lines: both sides must answer bad-op
    cases.append(["reset", "seta 0 x 1", "seta 9 i 1", "setd 0 d 61=1", "setd 0 i 61", "seta 0 i", "dump 0", "setd 0 i", "dump 0", "seta 0/k61 s", "dumpall"])
    return cases


def gen(rng, tier):
    cases = []
    cases += lit_cases(rng, tier)
    cases += boundary_cases(rng, tier)
    cases += numeric_eq_cases(rng)
    cases += float_int_cases(rng, tier)
    cases += container_ctor_cases(rng, tier)
    cases += growth_cases(rng, tier)
    cases += deep_cases(rng)
    cases += accessor_table_cases(rng, tier)
    cases += shared_container_assign_cases(rng, tier)
    nh = 2500 if tier == "quick" else 40000
    for i in range(nh):
        cases.append(history(rng, rng.choice([12, 25, 40, 60, 90]) if i % 50 else 300))
    rng.shuffle(cases)
    return cases


def nontrivial(case):
    ops = [l.split()[0].lstrip("!") for l in case]
    return len(case) >= 5 and any(o in ("setv", "setsub", "setcs", "setkey", "app", "ext", "clone", "copy", "set", "appl", "ctor", "seta", "setd") for o in ops) and \
        any(o in ("dump", "dumpall", "eq", "tostr", "conv") for o in ops)


def distribution(cases):
    ops = {}
    outcomes = {}
    strlens = {"0-6": 0, "7": 0, "8": 0, "9-20": 0, ">20": 0}
    maxdepth = 0
    shared_mut = 0
    hist_lens = {"<=15": 0, "16-45": 0, "46-100": 0, ">100": 0}
    stats = {}
    for c in cases:
        n = len(c)
        hist_lens["<=15" if n <= 15 else "16-45" if n <= 45 else "46-100" if n <= 100 else ">100"] += 1
        sim = Sim()
        for l in c:
            t = l.split()
            op = t[0]
            ops[op] = ops.get(op, 0) + 1
            container_ctor = (op == "ctor" and len(t) > 2 and t[2] in ("arr", "list", "dic", "varr")) or op in ("seta", "setd")
            if container_ctor and op == "ctor":
                ck = "ctor " + t[2]
                ops[ck] = ops.get(ck, 0) + 1
            for i, x in enumerate(t):
                if x in ("s", "c") and i + 1 < len(t) and i >= 2 and not container_ctor:
                    L = len(unhex(t[i + 1]))
                    strlens["0-6" if L < 7 else "7" if L == 7 else "8" if L == 8 else "9-20" if L <= 20 else ">20"] += 1
            if op in ("set", "setv", "app", "appl", "resize", "remat", "rem", "clear", "ext") and len(t) > 1:
                maxdepth = max(maxdepth, t[1].count("/"))
                try:
                    p = parse_path(t[1])
                    v = sim.cget((p[0], p[1][:-1])) if p[1] else None
                    if is_cont(v) and sim.rc(v) > 1:
                        shared_mut += 1
                except Exception:
                    pass
            if l.startswith("!"):
                continue
            try:
                r = sim.apply(l)
            except Exception:
                r = "sim-error"
            if op in ("set", "seta", "setd", "setv", "setsub", "setcs", "setkey", "app", "appl", "resize", "remat", "rem", "clear", "ext", "clone", "copy", "drop", "ctor"):
                outcomes[r] = outcomes.get(r, 0) + 1
        for k, v in sim.stats.items():
            stats[k] = stats.get(k, 0) + v
        # the stats dict of a Sim is reset by `reset`; accumulate what is left
    return {"ops_by_kind": ops, "mutation_outcomes": outcomes, "string_literal_lengths": strlens, "max_path_depth": maxdepth,
            "mutations_through_a_shared_container": shared_mut, "history_lengths": hist_lens, "events": stats}


# ------------------------------------------------------------------ known finding

def extra(ctx):
    """deep trees (outside the line protocol: the model and the python simulation are not asked to hold 100000 levels): a Var nested
    100000 / 1000000 arrays deep, with and without a second handle half way down, must be destroyed without a fault or a leak
    (iterative release, commit 6b7c321)"""
    from lib import core, engine
    fails = []
    for depth in (100000, 1000000):
        half = depth // 2
        # (no setv/app/ext with the deep Var as operand: the harness's own cycle guard walks the tree recursively)
        case = ["reset", "appl 0 i 1", "nest 0 %d" % half, "copy 1 0", "nest 0 %d" % (depth - half), "len 0", "ctor 2 kv 6b 0", "nest 2 5",
                "drop 0", "len 1", "rc 1", "drop 2", "rc 1", "nest 1 %d" % depth, "set 1 i 5", "set 3 t OBJ", "nest 3 %d" % depth, "drop 3", "dumpall"]
        want = ["ok", "ok", "ok", "ok", "ok", "1", "ok", "ok", "ok", "1", "2", "ok", "1", "ok", "ok", "ok", "ok", "ok", "N I5 N N N N N N"]
        checks = [(case, want)]
        # nested containers referenced twice (or at two levels) inside the dying tree (652bc0f), arrays and objects, with an outside handle
        for opn, ln in (("nest2", "2"), ("nesto", "3"), ("nestx", "3")):
            case = ["reset", "appl 0 i 1", "%s 0 %d" % (opn, half), "copy 1 0", "%s 0 %d" % (opn, depth - half), "len 0", "drop 0", "len 1",
                    "%s 1 %d" % (opn, depth), "set 1 s 78", "appl 4 i 1", "%s 4 %d" % (opn, depth), "ctor 5 kv 6b 4", "drop 4", "len 5", "set 5 t NONE", "dumpall"]
            want = ["ok", "ok", "ok", "ok", "ok", ln, "ok", ln, "ok", "ok", "ok", "ok", "ok", "ok", "1", "ok", "N S78 N N N N N N"]
            checks.append((case, want))
        for case, want in checks:
            out, crash, err = core.run_impl(ctx["exe"], ["case 0"] + case, timeout=300)
            if crash is not None:
                fails.append(engine.Failure("crash", case, out, [], crash=crash, stderr=err[-4000:],
                                            clause="memory error / abnormal termination while destroying a deeply nested Var: %s" % crash,
                                            name="deep-tree destruction (harness/c04.cpp, ops nest*/drop)"))
            elif out[1:] != want:
                fails.append(engine.Failure("diverge", case, out, ["case"] + want, clause="deeply nested Var: outputs differ from the expected ones",
                                            name="deep-tree destruction (harness/c04.cpp, ops nest*/drop)"))
    ctx["stats"]["deep_tree_destruction_depths"] = [100000, 1000000]
    return fails


KNOWN = [{
    "key": "deep-recursion",
    "desc": "a Var nested 100000 arrays deep: clone() (also ==, toString()) recurses once per level and overflows the call stack",
    "case": ["reset", "appl 0 i 1", "!nest 0 100000", "!deep clone 0"],
}, {
    "key": "autocreate-invalidates-source",
    "desc": "v << \"long string\" << 2; v[5] = v[0]: the auto-creating target path reallocates the block the source reference points into",
    "case": ["reset", "appl 0 s 61206c6f6e6720737472696e672076616c75652068657265", "appl 0 i 2", "!setv 0/i5 0/i0", "dump 0", "drop 0"],
}, {
    "key": "shared-growth",
    "desc": "Var c = v; then growing v's array reallocates the block c shares (use after free through c)",
    "case": ["reset", "appl 0 i 1", "appl 0 i 2", "appl 0 i 3", "copy 1 0", "!appl 0 i 4", "!appl 0 i 5", "dump 1", "drop 1", "drop 0"],
}]

TECHNIQUE = ("Lean 4 theorems about an executable reference-counted heap model of Var (induction on recursion fuel and on lists; "
             "invariants over every operation) + differential correspondence check against the real library under ASan/LSan "
             "+ independent python simulation with native reference semantics")
LEVEL_TEXT = (
    "Proved in Lean 4, for ALL inputs/heaps/histories, about the executable reference-counted heap model of Var that the driver runs "
    "(lean/AslModel/Var.lean: tagged values, blocks {elements, capacity, rc} that move when they grow, every constructor incl. "
    "Var(long)/Var(unsigned long), Var(Array<T>), Var(initializer_list<T>), Var(Dic<T>), Var::array({..}), typed and Var assignment with "
    "the source REFERENCE evaluated before the target path (as the C++ does), auto-creating operator[], <<, resize, removeAt, remove, "
    "clear, extend, clone, ==, toString): "
    "(1) accessors_* (int, unsigned, Long and native long/unsigned long, double, float, bool, string; see (6b) for the conversions): DEFINITIONAL restatements of the "
    "model's constructor/accessor definitions (type tag, value, unsigned >= 2^31 -> NUMBER, long outside the int range -> NUMBER, inline "
    "strings exactly below 8 bytes) — they say what the model is, and are validated against the library only by K (literal sweeps over "
    "every numeric boundary and string length). accessors_long / accessors_native_long use their hypothesis |x| < 2^53: there the stored "
    "NUMBER is exactly x; beyond it the model stores (double)x rounded to nearest-even (long_beyond_2_53_is_rounded, Dy.ofIntD) and only "
    "K validates that rounding (Long / long / unsigned long / ULong literals over the whole range up to +-2^63 / 2^64, ties included); "
    "the range hypothesis of accessors_int is a domain annotation (an int is 32 bits), not used by the proof; "
    "(2) eq_iff_content (+ eq_refl/eq_symm/eq_trans, numbers_compare_numerically, eq_float_int_exact): v == w is true exactly when both "
    "denote the same abstract tree (numbers by VALUE across INT/NUMBER/FLOAT — stored pairs are compared through their normal forms, so "
    "no normality hypothesis on stored numbers is needed —, strings by bytes across STRING/SSTRING, containers element-wise, NONE = NONE), "
    "hence an equivalence; roots_denote_trees: in every reached state every root denotes a tree for some traversal depth (the "
    "equality theorems are not vacuous); "
    "(3) history_safe (full): for EVERY history of guarded statements from the initial state the invariant holds in every reached state "
    "(each handle points to a live block of its kind, rc = number of handles > 0, objects sorted, handle graph acyclic); "
    "history_never_touches_freed / history_in_domain: every statement is executed, or refused as Excluded (shared-growth, "
    "autocreate-invalidates-source, self-containment) or as OutOfDomain (nopath is no longer produced: a const index beyond the length "
    "gives none since 8dbc483, const_index_beyond_length_is_none, and is executed; badarg: "
    "operand of the wrong kind / out-of-range index or root; fuel) — the LIBRARY HAS NO CHECK for either class: they are domain "
    "hypotheses of the theorem (InDomain ops), the generator stays inside them and the harness refuses them by prediction; within the "
    "domain no statement reads or releases a released block, indexes outside an element array or finds a zero count; no_leak: when no "
    "root holds a container any more, no block is live; no_orphan_block; "
    "(4) assign_spec (full, over all histories) / assign_spec_state / assign_then_equal: an executed p = q (q possibly inside p, at any "
    "depth; source reference resolved first) leaves the Var at p readable, holding exactly the source value, which denotes the same tree "
    "as before, and p == every Var denoting that tree; assign_lit_spec: an executed typed assignment p = x leaves p readable with the "
    "literal's type and content whatever it held before (shared container, STRING kept in place, SSTRING overwritten inline); "
    "(5) ctor_array_spec / ctor_dic_spec / ctor_vars_spec: after Var(Array<T>) / Var(initializer_list<T>) the root is an ARRAY of exactly "
    "n elements denoting the given values in order; after Var(Dic<T>) an OBJECT with ascending unique keys (later entry wins) denoting "
    "the given values; after Var::array({a,b,..}) an ARRAY whose elements denote the trees of the given Vars (containers shared and "
    "counted); the invariant holds; "
    "(6) clone_deep_partial: clone() only appends blocks, denotes the same tree, and denotes it in every later heap "
    "that keeps the appended blocks, whatever happens to everything the original reaches; clone_isolated (extension round, full, over "
    "all histories): in the state after an executed root k = q.clone() root k OWNS exactly the appended blocks (Iso: its handle and every "
    "handle stored in them point to them; no other root and no other block holds a handle to any of them; cloneFresh); "
    "clone_deep_history: after an executed clone, NO history of statements that do not mention root k and whose one-statement footprint "
    "is proved (StepFootprint op: root k, the cells of its blocks incl. rc, and the ownership are unchanged) changes the tree root k "
    "denotes; StepFootprint is proved for all 9 statements on root variables (stepFootprint_rootOps: drop, ctorLit, ctorType, ctorArr, "
    "ctorDic, ctorKV, ctorVars, copy, clone — the statements that re-create ANOTHER root, destroying whatever it held, incl. the clone's "
    "source, from literals or from copies / a clone of Vars under other roots); clone_deep_reduction: step_footprint_full (all 22 "
    "statement kinds) implies clone_deep_exec_full; "
    "(6c) container_assign_rebinds_only (+ _history; seeded change C04-r4): x = Array<T>{..} / x = Dic<T>{..} on a root variable, as the "
    "driver runs it (AslModel.Var.assignFresh: tmp = Var(c); x = tmp; tmp = Var() with a root no op line can name), in every state "
    "satisfying the invariant: every other root holds the value it held and denotes the tree it denoted — also when it shares the "
    "container x held (KeepsRoot: only root x is written, live blocks keep their elements). For a target that is an element/property "
    "(p = obj[k]) the rebinding is validated by K only (seta/setd on paths, shared_container_assign_cases); "
    "(6b) converting accessors (extension round; hasV, getKeyV, hasTypeV, containsV are now model functions following the source's "
    "switch over the type tag, run by the driver): is_table (is(t) over all tags), conv_int, conv_number_integer (a NUMBER/FLOAT holding an "
    "int-range integer reads back the same through int, Long, double, bool and == the INT, both operand orders), conv_number_trunc "
    "(double -> int truncates toward zero), conv_fixed (BOOL/NUL/NONE rows), conv_string (String/toString/length/bool, int and double "
    "agree on plain decimal text), length_container (length() = number of elements/properties of the denoted tree), "
    "has_iff_key_present (+ _history: in every reached state) : has(k) <=> some property has key k, has_false_on_non_object, "
    "const_key_lookup (operator[] const / operator()(key): missing key -> none, present key -> the property; has(k,t) = is(t) of it), "
    "const_lookup_on_other_tags (every non-container tag: none / false), contains_iff_content (contains(x) <=> the tree x denotes is one "
    "of the element trees); K: accessor_table_cases = every type tag (empty and populated) x every accessor; "
    "(7) rarely used overloads and boundary arguments. DEFINITIONAL (unfoldings of the model's own definitions, proved by simp/rfl/decide; "
    "they document what the model does and are validated against the library only by K): accessors_ulong / ulong_above_long_range "
    "(Var(ULong), v = (ULong)u and (ULong)v up to 2^64), ctor_type_zero (Var(Var::INT|NUMBER|FLOAT|BOOL) is zero / false), "
    "string_key_on_array_is_index (v[\"7\"] on an ARRAY is the step v[7]), string_key_negative_on_array_is_self (a[\"-1\"] takes no step), "
    "removeAt_out_of_range_noop (over UNBOUNDED integers: it cannot see the int overflow of 17b939b, which only K with "
    "-fsanitize=signed-integer-overflow sees), const_index_beyond_length_is_none, int_vs_float_literal_exact (ONE witness, "
    "numOf 16777217 != numOf 16777216.0f; the typed overloads v == x are not in the model at all: the driver evaluates them as "
    "numOf v == some d, K-only). What IS proved about these steps: they are covered by history_safe like every other step. "
    "VALUE-LEVEL corollaries of assign_lit_spec: assign_suffix_spec (p = *p + off), assign_cstr_spec (p = *q + off, v = *v[0]), "
    "assign_key_spec (p = name of a property of q): the model fetches the byte list by value before it does anything (strings are "
    "immutable values, their heap storage is not modelled), so these theorems would hold for the pre-fix statement order too; the "
    "memcpy overlap (0cc196d) and the read after release (7dd07aa, 782f6e9) are checked ONLY by K under ASan (setsub / setcs / setkey "
    "events counted in the evidence); "
    "(8) var_shared_growth_counterexample / autocreate_invalidates_source_counterexample: without the guards, Var c = a; a << ... leaves "
    "c with a released block, and v[5] = v[0] reads the source through a reference into a block the target path has moved (the two "
    "known findings). "
    "The model is tied to the current source on every run by the correspondence check (real library under ASan/LSan vs compiled model "
    "vs an independent python simulation with native reference semantics) over generated histories."
)
LEVEL_NOTE = (
    "Hypotheses built into the guarded statements (refused identically by model, harness and python simulation; KNOWN probes run them "
    "unguarded and crash under ASan): (a) known: property=C04 key=shared-growth — no operation grows a container block whose rc > 1; "
    "(b) known: property=C04 key=autocreate-invalidates-source — in p = q / p << q / p.extend(q) the auto-creating target path does not "
    "reallocate or shift the block the already evaluated source reference points into (v[5] = v[0], v[\"a\"] = v[\"b\"] with a new "
    "key); no small safe repair exists (the reference dangles before operator= runs); (c) no statement makes a container contain itself "
    "(excluded by the property). Domain hypotheses without any library check (OutOfDomain in history_in_domain): const paths exist, "
    "operands have the required kind, int indexes/roots in range (a negative int index is refused; a string key applied to a scalar or "
    "a negative one applied to an array is NOT a hypothesis any more: the library reports an error and returns the Var itself, modelled and "
    "executed as such). "
    "WEAK POINT (second audit, not repaired): the model's srcVal turns ANY failing read of the source reference after the target path "
    "(uaf, oob) into srcMoved, which counts as Excluded; that the invalidates guard makes this branch unreachable, and that an object "
    "insertion cannot silently shift the source to another property, is NOT proved (missing frame lemma: Inv s [] -> cloc s q = ok (some l) "
    "-> resolveMut true (some l) s (.slot p.root) p.steps = (s1, ok t) -> readLoc s1 l = readLoc s l). So history_never_touches_freed / "
    "history_in_domain / assign_spec cannot detect an insufficient guard by themselves; K can: the harness predicts the refusal with "
    "independent code from the public API, so a source moved without a refusal on one side shows as a divergence or an ASan report. "
    "The repaired Var::free() (6b7c321, 652bc0f: ownsNested / detachNested / pending list) has NO transcription in the model (release "
    "was always an abstract work list); it is checked by every destruction in the generated histories (depth <= 64) and by extra() at "
    "depth 10^5 / 10^6 with fixed expected outputs. "
    "setkey: the harness re-resolves q after the target path and takes the key reference only then, so for setkey the source-first "
    "order is enforced by the guard's prediction and not exercised by the executed C++ (it reproduces 782f6e9, not "
    "autocreate-invalidates-source). "
    "NOT MODELLED: the heap storage of a STRING (Array<char>: NEW_STRINGC/resize/DEL_STRING/dup) — the model keeps the bytes inline "
    "in the value, never shared; its allocation, in-place reuse, release and leak-freedom are checked only by K under ASan/LSan. "
    "Constructors NOT covered: Var{{\"k\", v}, ..} (initializer_list<Obj>), nested initializer lists, Array<T>/Dic<T> for T other than "
    "int, double, String (harness), Var(const char*) with embedded NUL. "
    "Partial: clone_deep_full / clone_deep_exec_full / step_footprint_full (kept as `def ... : Prop`). Proved: ownership after the clone "
    "(clone_isolated), stability over histories of statements with a proved footprint (clone_deep_history), the footprint of the 9 "
    "statements on root variables, and the reduction of the rest (clone_deep_reduction). MISSING: StepFootprint "
    "for the 13 statements that start with an auto-creating target path (set*, app*, resize, remove*, clear, extend): the frame of "
    "resolveMut / relocate / opBody outside an owned set — i.e. in-place MUTATION of the original after a clone is still validated only "
    "by K (history generator: clone followed by mutations of either side and reads of the other; seeded change C04-r3 caught). "
    "clone_deep_full itself has no executed-clone hypothesis: a clone refused with `fuel` would leave root k shared (see next sentence). "
    "Not proved: that the driver's traversal bound h.length+2 always suffices "
    "(roots_denote_trees gives SOME depth; a statement may be refused with `fuel`; never observed by K). "
    "Model-side choices validated only by K: the extend loop re-checks reachability of the target from each property (the harness guard "
    "refuses such calls first); a source reference that cannot be read back after the target path is reported as srcMoved; clone is "
    "modelled by its net effect (transient rc bumps cancel); typed assignments write the new value before releasing the old one. "
    "K-only (no theorem): toString/%.15g/%.7g formatting, atoi/atof conversions, int->float rounding, "
    "capacity policy (3, x2, max(2s,m)) and rc values (compared through array().rc()). Doubles are exact dyadic rationals; NaN, "
    "infinities, -0 are outside model and generator. Four defects found while building the check were repaired in /repo "
    "(193448d, 63d8c00, 02a4aa4, 6c0507b: Var(long)/Var(unsigned long) truncated to 32 bits); witnesses in corpus/C04/fixed.ops. "
    "Five more, found by an independent defect hunt in input classes the generator had left out (Var(Type) for numeric types had even been "
    "refused as badarg by the harness), were repaired and are now generated: 0cc196d (v = *v + 3 memcpy overlap), 17b939b "
    "(removeAt(i, INT_MAX) overflow; Array.h part 0854fc0), c047585 (ULong through Long), 7407dbc (string key on an array without a "
    "bound), 11663a3 (Var(Var::INT..BOOL) uninitialised); witnesses in corpus/C04/hunt.ops; each pre-fix tree is caught by the quick "
    "tier at seeds 1-3 (ASan memcpy-param-overlap / UBSan signed-integer-overflow / output divergence / heap-buffer-overflow). "
    "A second hunt round found three more, repaired and generated: 7dd07aa (v = *v[0]: operator=(const char*) released the container "
    "before copying from it; new op setcs), 095ba92 (a[\"-1\"] on an array wrote before the block), cda9080 (Var(16777217) == 16777216.0f: "
    "here the driver and the python reference had COPIED the code's int->float rounding for the typed overload instead of the numeric "
    "specification, so K agreed with the defect; both are exact now). "
    "A third round: 782f6e9 (operator=(const String&) with a property name of the Var's own object, left out of 7dd07aa; new op setkey) and "
    "6b7c321 (~Var recursed once per nesting level: stack overflow at depth 100000; nested containers are now released iteratively). The "
    "model's release was a work list already, so K could not see that difference below the generated depth (<= 64); the deep trees are "
    "now exercised outside the line protocol by extra(): depth 100000 and 1000000, arrays and objects, with a second handle half way "
    "down, destroyed through drop / typed assignment under ASan/LSan, outputs compared with fixed expectations (no model, no theorem). "
    "A fourth round: 652bc0f (my iterative release was incomplete: a nested container referenced twice inside the dying tree still recursed "
    "once per level; extra() now also destroys w << v << v, {a:v,b:5,c:v} and two-level sharing at depth 100000 / 1000000) and 8dbc483 "
    "(const operator[](int) beyond the length read out of bounds; the harness had refused such paths as nopath, they are generated and "
    "executed now). "
    "(d) known: property=C04 key=deep-recursion — clone(), == and toString() still recurse once per nesting level; hypothesis of every "
    "statement about them: the nesting depth fits the call stack (generated depth <= 64; probe at depth 100000 crashes with "
    "asan:stack-overflow); the theorems say nothing about the call stack. "
    "(double)u for a ULong above 2^53 is modelled by round-to-nearest-even (Dy.ofIntD); only K validates that rounding."
)
TRUSTED = ["harness/c04.cpp is compiled with -fsanitize=signed-integer-overflow in addition to the framework's ASan/UBSan set (inline Var.h arithmetic)",
           "harness/c04.cpp guards: shared-growth prediction from the public array().rc()/cap()/length(), source-moved prediction from the "
           "block address / index / key order of the source reference, cycle prediction by a walk over "
           "array().data()/object().kv().data() block addresses; all are mirrored by the model and by the python simulation"]
ASSUMPTIONS = [
    "a finite double is the exact dyadic rational m/2^e (AslModel.Var.Dy); int->double is exact, Long/long/ULong->double is exact for "
    "|x| < 2^53 and round-to-nearest-even beyond (AslModel.Var.Dy.ofInt64 / ofIntD, validated by K over the whole 64-bit range); "
    "NaN, infinities and -0 are outside the model and the generator",
    "glibc snprintf %.15g / %.7g / %i print the correctly rounded (ties-to-even) decimal of the exact value (AslModel.Var.fmtG, intDigits); "
    "exercised by K on every generated number and checked against python's % operator",
    "atoi/atof on texts of the form -?[0-9]{1,9} return that integer; other texts are not compared",
    "malloc/realloc succeed; a block that grows is treated as moved (the model never relies on realloc returning the same address)",
    "strcmp on NUL-free byte strings = list equality / unsigned lexicographic order (AslModel.Map.cmpBytes); generated strings and keys are NUL-free",
    "INT payloads stay within the 32-bit range (Var(int) literals are generated in range; long/unsigned long literals outside it become NUMBER)",
    "(double)x for a ULong above 2^53 rounds to nearest, ties to even (AslModel.Var.Dy.ofIntD); (ULong)d / (Long)d are compared only "
    "while the truncated value fits the target type (the cast is undefined beyond)",
    "long is 64 bits (LP64): Var(long)/Var(unsigned long) literals up to 2^53 are exact as double",
]
