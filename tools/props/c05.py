"""C05 — JSON and XDL encoding round-trips every Var exactly: plugin for tools/check.py"""
import json
import re
import struct
import sys

from lib import core
from lib.core import hexs, unhex
from props import c06 as J

ID = "C05"
PROPS_MODULE = "AslProps.C05"
DRIVER = "c05"
RULE = ("a case = one generated Var tree with its ops: enc (Json::encode / Xdl::encode bytes) in several modes, rt (decode∘encode, "
        "canonical dump), file (write to a file, compare the file with encode(), read it back); trees are type-directed (depth <= 8): "
        "null/undefined/bool, ints incl. INT_MIN/INT_MAX and the 9/10-character split, doubles from bit patterns (denormals, +-DBL_MAX, -0, "
        "powers of two +-1ulp, integral values, NaN/inf), floats from bit patterns, strings/keys with control characters, quotes, backslashes, "
        "'/', '<', '>', '#', 0x7f, UTF-8 and raw high bytes (every run: all ordered pairs of the ~33 bytes/units the encoder or decoder treats specially, "
        "as values and as keys, and ~45 comment-/markup-/escape-like texts such as //, /* */, </*y*/, <b>bold</b> inside strings and keys), arrays around the pretty-printer thresholds (10, 16, 100 chars), objects incl. $type (every run: $type holding each of ~60 values - class names, strings "
        "that are not class names, reserved words, non-strings - alone, among other members, nested); file "
        "sizes slid across the 16382-byte read chunk and the 16000-byte flush threshold; non-trivial = distinct case with a non-scalar tree "
        "or a non-trivial scalar")
TRUSTED = ["tools/props/c05.py generators and the python3 oracles (json.loads of the encoder output; expected dump computed from the tree)",
           "lean/AslModel/Dtoa.lean as the meaning of snprintf(\"%.Pg\") and lean/AslModel/Strtod.lean as the meaning of atof "
           "(both compared with glibc on every number of every run)",
           "tools/props/c06.py translate(): the decoder model's int/atof split and \\u buffer sizes are read from src/Xdl.cpp into lean/Gen/XdlGen.lean",
           "tools/props/c05.py translate_enc(): regular expressions reading the %.Pg formats, the new_string switch, the flush test, the Xdl::read sizes and the snprintf bounds "
           "from src/Xdl.cpp into lean/Gen/XdlEncGen.lean (raises on anything unrecognised)"]
ASSUMPTIONS = [
    "H1: glibc snprintf(\"%.17g/%.15g/%.9g/%.7g\") prints the correctly rounded decimal in C-locale %g layout (model: AslModel.Dtoa.fmtG; "
    "K compares every generated number byte for byte)",
    "H2: atof(\"%.17g\" of x) = x for finite non-zero doubles and (float)atof(\"%.9g\" of f) = f (exercised by K and by the python oracle; not proved)",
    "C locale: no decimal comma, so the ',' -> '.' patch is the identity",
    "Dic<Var> enumerates in strcmp order of the keys; Var/String/Array container semantics (C01-C04)",
    "TextFile write/read deliver the bytes unchanged (C17)",
]
TECHNIQUE = "Lean 4 theorems (structural induction over Var trees, writer-monad refinement) + differential correspondence check under ASan + python3 json oracle"

INT_MIN = -2147483648
INT_MAX = 2147483647


# ----------------------------------------------------------------------------- trees

def tokens(t):
    k = t[0]
    if k in ("z", "n"):
        return [k]
    if k == "b":
        return ["t" if t[1] else "f"]
    if k == "i":
        return ["i%d" % t[1]]
    if k == "d":
        return ["d%016x" % t[1]]
    if k == "F":
        return ["F%08x" % t[1]]
    if k == "s":
        return ["s" + hexs(t[1])]
    if k == "p":
        return ["p%d" % t[1]]
    if k == "r":
        return ["r%d" % t[1]] + tokens(t[2])
    if k in ("N", "O"):
        return ["%s%d" % (k, t[1])] + tokens(t[2])
    if k == "a":
        out = ["a%d" % len(t[1])]
        for x in t[1]:
            out += tokens(x)
        return out
    if k == "o":
        out = ["o%d" % len(t[1])]
        for key, x in t[1]:
            out += [hexs(key)] + tokens(x)
        return out
    raise ValueError(k)


def dbits(x):
    return struct.unpack("<Q", struct.pack("<d", x))[0]


def gen_int(rng):
    r = rng.random()
    if r < 0.3:
        return ("i", rng.randrange(-100, 1000))
    if r < 0.6:
        return ("i", rng.choice([0, -1, INT_MIN, INT_MAX, INT_MIN + 1, 999999999, 1000000000, -99999999, -100000000, 99999999, -999999999,
                                 -1000000000, 123456789, 1234567890, 10, 100, 2147483646]))
    return ("i", rng.randrange(INT_MIN, INT_MAX + 1))


SPECIAL_D = [0x0000000000000000, 0x8000000000000000, 0x0000000000000001, 0x800fffffffffffff, 0x000fffffffffffff, 0x0010000000000000,
             0x7fefffffffffffff, 0xffefffffffffffff, 0x7ff0000000000000, 0xfff0000000000000, 0x7ff8000000000000, 0xfff8000000000001,
             0x3ff0000000000000, 0x3ff0000000000001, 0x3fefffffffffffff, 0x4014000000000000, 0xc014000000000000, 0x3fb999999999999a,
             0x3fd3333333333334, 0x4340000000000000, 0x4340000000000001, 0x433fffffffffffff, 0x41cdcd6500000000, 0x41cdcd64ff800000,
             0x42d6bcc41e900000, 0x4341c37937e08000, 0x4415af1d78b58c40, 0x444b1ae4d6e2ef50, 0x3f1a36e2eb1c432d, 0x3f50624dd2f1a9fc,
             0x3eb0c6f7a0b5ed8d, 0x40c3880000000000, 0x412e848000000000, 0x0006123400000001, 0x7e37e43c8800759c, 0x54b249ad2594c37d]


def gen_double(rng):
    r = rng.random()
    if r < 0.35:
        return ("d", rng.choice(SPECIAL_D))
    if r < 0.5:
        e = rng.randrange(0, 2047)
        return ("d", (rng.getrandbits(1) << 63) | (e << 52) | rng.choice([0, 1, (1 << 52) - 1, 1 << 51]))
    if r < 0.65:
        x = float(rng.randrange(-10 ** rng.randrange(1, 23), 10 ** rng.randrange(1, 23)))
        if rng.random() < 0.5:
            x /= 10 ** rng.randrange(0, 12)
        return ("d", dbits(x))
    return ("d", rng.getrandbits(64))


def gen_float(rng):
    r = rng.random()
    if r < 0.3:
        return ("F", rng.choice([0x00000000, 0x80000000, 0x00000001, 0x007fffff, 0x00800000, 0x7f7fffff, 0xff7fffff, 0x7f800000, 0xff800000,
                                 0x7fc00000, 0x3f800000, 0x3f800001, 0x3fc00000, 0x40a00000, 0x3dcccccd, 0x4b800000, 0x4cbebc20, 0x501502f9]))
    return ("F", rng.getrandbits(32))


# every byte that XdlEncoder::new_string or a state of XdlParser::parse treats specially (quotes, the escape character, the comment
# openers '/', '*', '#', the markup bytes '<' '>', structure bytes, separators, white space, control bytes, DEL), the letters that
# follow a backslash in an escape, and multi-byte UTF-8 units; RAW_UNITS are not UTF-8 (no python-json opinion, K still compares)
SPECIAL_UNITS = [bytes([c]) for c in b'"\\/<>*#{}[],:=\'\n\t\r\x08\x0c\x01\x1f \x7fnu$-'] + \
                ["\u00e9".encode("utf-8"), "\u20ac".encode("utf-8"), "\U0001f600".encode("utf-8")]
RAW_UNITS = [b"\x80", b"\xff"]
# texts that look like comments, markup or escapes when they stand inside a string or key
COMMENTISH = [b"//", b"/*", b"*/", b"/**/", b"/* */", b"/*y*/", b"</", b"</*y*/", b"x</*y*/nz", b"<b>bold</b>", b"</script>", b"<//", b"</n", b"</u0041",
              b"a//b\nc", b"a/*b", b"#c", b"#c\nd", b"<!-- -->", b"<?x?>", b"\\/", b"\\//", b"<\\/", b"\\n", b"\\u0041", b"\\", b'"//"', b'"/*"*/',
              b"http://a/b?c=d&e=</f>", b"a/b", b"/", b"<", b"<<//>>", b"*/ /*", b"/ /", b"/\n/", b"</\n", b"//\n", b"'//'", b"=/", b":/", b",/", b"{/}", b"[/]"]


def gen_bytes(rng, maxlen, json_safe):
    """NUL-free byte string; >= 30% contain control characters, quotes, backslashes, '/', '<', '>', '#', 0x7f or non-ASCII, some hold
    a comment-/markup-like text (COMMENTISH)"""
    n = rng.randrange(0, maxlen)
    out = b""
    spicy = rng.random() < 0.5
    for _ in range(n):
        r = rng.random()
        if spicy and r < 0.3:
            out += bytes([rng.choice([1, 2, 7, 8, 9, 10, 11, 12, 13, 27, 31, 34, 92, 47, 0x7f, 39, 32, 58, 44, 61, 123, 125, 91, 93, 42, 60, 62, 35, 47, 60])])
        elif spicy and r < 0.35:
            out += rng.choice(COMMENTISH)
        elif spicy and r < 0.55:
            out += chr(rng.choice([0xe9, 0x7ff, 0x800, 0x20ac, 0xd7ff, 0xe000, 0xffff, 0x10000, 0x1f600, 0x10ffff, 0x80])).encode("utf-8")
        elif spicy and r < 0.6 and not json_safe:
            out += bytes([rng.choice([0x80, 0xbf, 0xc0, 0xff, 0xfe, 0xed])])
        else:
            out += bytes([rng.choice(b"abcdefghijklmnopqrstuvwxyzABCXYZ0123456789 _-.")])
    return out


def gen_ident(rng, digit_first=False):
    s = bytes([rng.choice(b"abcxyzABCXYZ_$0189" if digit_first else b"abcxyzABCXYZ_$")]) + bytes(rng.choice(b"abcxyzABC0189_") for _ in range(rng.randrange(0, 6)))
    if s in (b"Y", b"N", b"true", b"false", b"null"):
        s += b"_"
    return s


def gen_tree(rng, depth, maxdepth, opts):
    r = rng.random()
    if depth >= maxdepth:
        r *= 0.7
    if r < 0.05:
        return ("n",)
    if r < 0.08:
        return ("z",)
    if r < 0.15:
        return ("b", rng.random() < 0.5)
    if r < 0.3:
        return gen_int(rng)
    if r < 0.45:
        return gen_double(rng) if opts.get("reals", True) else gen_int(rng)
    if r < 0.52:
        return gen_float(rng) if opts.get("reals", True) else gen_int(rng)
    if r < 0.7:
        return ("s", gen_bytes(rng, rng.choice([4, 12, 40]), opts.get("utf8", True)))
    if r < 0.86:
        n = rng.choice([0, 1, 2, 3, 5, 10, 11, 12, 16, 17, 33])
        if rng.random() < 0.3 and depth + 1 < maxdepth:
            sub = dict(opts)
            kind = rng.choice(["s", "i", "a", "o"])
            if kind == "s":
                return ("a", [("s", gen_bytes(rng, rng.choice([4, 12, 30]), opts.get("utf8", True))) for _ in range(n)])
            if kind == "i":
                return ("a", [gen_int(rng) for _ in range(n)])
            return ("a", [gen_tree(rng, depth + 1, min(maxdepth, depth + 2), sub) for _ in range(min(n, 5))])
        return ("a", [gen_tree(rng, depth + 1, maxdepth, opts) for _ in range(min(n, 6) if depth > 1 else n)])
    n = rng.choice([0, 1, 2, 3, 5])
    ms = []
    for _ in range(n):
        k = gen_ident(rng, True) if (opts.get("ident_keys") or rng.random() < 0.4) else gen_bytes(rng, 8, opts.get("utf8", True))
        ms.append((k, gen_tree(rng, depth + 1, maxdepth, opts)))
    if n and rng.random() < 0.2:
        ms.append((ms[0][0], gen_tree(rng, depth + 1, maxdepth, opts)))       # duplicate assignment
    if rng.random() < 0.25:
        ms.append((b"$type", ("s", gen_ident(rng))))
    elif rng.random() < 0.06:
        # a `$type` that is not a string: the XDL encoder prints **cname (Var::operator*)
        ms.append((b"$type", rng.choice([("n",), ("z",), ("b", True), ("b", False), ("i", 7), ("d", 0x3ff8000000000000), ("F", 0x3fc00000),
                                         ("a", [("i", 1)]), ("o", [(b"k", ("i", 1))]), ("s", b""), ("s", b"a b"), ("s", b"true"), ("s", b"Y"),
                                         ("s", b"null"), ("s", b"1a"), ("s", b"a.b"), ("s", b"a-b"), ("s", b"$x"), ("s", b"\xc3\xa9")])))
    return ("o", ms)


def ident_ok(k, digit_first=False):
    return len(k) > 0 and (k[:1].isalpha() or k[:1] in b"_$" or (digit_first and k[:1].isdigit())) and all(bytes([c]).isalnum() or c == 95 for c in k[1:]) and k.isascii()


def xdl_ok(t):
    """keys are identifiers (the property's XDL clause): a letter, digit, `_` or `$`, then letters, digits, `_`.
    `$type` is such a key and may hold any value (a class name is written in class notation, anything else as a property)"""
    if t[0] == "a":
        return all(xdl_ok(x) for x in t[1])
    if t[0] in ("r", "N", "O"):
        return xdl_ok(t[2])
    if t[0] == "o":
        for k, v in t[1]:
            if not ident_ok(k, True) or not xdl_ok(v):
                return False
    return True


def utf8_ok(t):
    def ok(b):
        try:
            b.decode("utf-8")
            return True
        except UnicodeDecodeError:
            return False
    if t[0] == "s":
        return ok(t[1])
    if t[0] == "a":
        return all(utf8_ok(x) for x in t[1])
    if t[0] in ("r", "N", "O"):
        return utf8_ok(t[2])
    if t[0] == "o":
        return all(ok(k) and utf8_ok(v) for k, v in t[1])
    return True


# ----------------------------------------------------------------------------- expected value after decode(encode(v))

class NoOpinion(Exception):
    pass


class TooDeep(Exception):
    """nesting beyond XDL_MAX_DEPTH: the decoder must reject the text"""


def tree_depth(t):
    k = t[0]
    if k == "a":
        return 1 + max([tree_depth(x) for x in t[1]] + [0])
    if k == "o":
        return 1 + max([tree_depth(v) for _, v in t[1]] + [0])
    if k == "r":
        return 1 + tree_depth(t[2])
    if k in ("N", "O"):
        return t[1] + tree_depth(t[2])
    return 0


def _num_dump(lex, x):
    """dump of the decoded number whose lexeme is `lex` and whose double value must be x"""
    if "." not in lex and "e" not in lex and "n" not in lex and len(lex) <= 9:
        return "i%d" % int(lex)
    y = float(lex)
    if y != x:
        raise AssertionError("python: float(%r) != original" % lex)
    return "d%016x" % dbits(y)


def expected(t, mode):
    """canonical dump (format of harness/xdl_dump.h) of decode(encode(t, mode)) according to the property"""
    simple = bool(mode & 2) or bool(mode & 32)
    k = t[0]
    if k in ("n", "z"):
        return "n"
    if k == "b":
        return "t" if t[1] else "f"
    if k == "i":
        s = str(t[1])
        return "i%d" % t[1] if len(s) <= 9 else "d%016x" % dbits(float(t[1]))
    if k == "d":
        x = struct.unpack("<d", struct.pack("<Q", t[1]))[0]
        if x != x:
            return "n"
        if x in (float("inf"), float("-inf")):
            return "d%016x" % dbits(x)
        if simple:
            raise NoOpinion()
        return _num_dump("%.17g" % x, x)
    if k == "F":
        f = struct.unpack("<f", struct.pack("<I", t[1]))[0]
        if f != f:
            return "n"
        if f in (float("inf"), float("-inf")):
            return "d%016x" % dbits(f)
        if simple:
            raise NoOpinion()
        lex = "%.9g" % f
        if "." not in lex and "e" not in lex and len(lex) <= 9:
            return "i%d" % int(lex)
        y = float(lex)
        if struct.pack("<f", y) != struct.pack("<f", f):
            raise AssertionError("python: (float)%r != original float" % lex)
        return "d%016x" % dbits(y)
    if k == "s":
        return "s" + hexs(t[1])
    if k == "p":
        return "s" + hexs(b"a" * t[1])
    if k == "r":
        e = expected(t[2], mode)
        return "[" + ",".join([e] * t[1]) + "]"
    if k in ("N", "O"):
        if t[1] + tree_depth(t[2]) > 1000:
            raise TooDeep()
        e = expected(t[2], mode)
        return ("[" * t[1] + e + "]" * t[1]) if k == "N" else ("{6b:" * t[1] + e + "}" * t[1])
    if k == "a":
        return "[" + ",".join(expected(x, mode) for x in t[1]) + "]"
    if k == "o":
        d = {}
        for key, v in t[1]:
            d[key] = v
        ms = sorted((hexs(key), expected(v, mode)) for key, v in d.items() if v[0] != "z")
        return "{" + ",".join(a + ":" + b for a, b in ms) + "}"
    raise NoOpinion()


def parse_tokens(ts, i=0):
    """inverse of tokens(): returns (tree, next index)"""
    tok = ts[i]
    tag, arg = tok[0], tok[1:]
    if tok in ("z", "n"):
        return (tok,), i + 1
    if tok in ("t", "f"):
        return ("b", tok == "t"), i + 1
    if tag == "i":
        return ("i", int(arg)), i + 1
    if tag == "d":
        return ("d", int(arg, 16)), i + 1
    if tag == "F":
        return ("F", int(arg, 16)), i + 1
    if tag == "s":
        return ("s", unhex(arg)), i + 1
    if tag == "p":
        return ("p", int(arg)), i + 1
    if tag == "r":
        x, j = parse_tokens(ts, i + 1)
        return ("r", int(arg), x), j
    if tag in ("N", "O"):
        x, j = parse_tokens(ts, i + 1)
        return (tag, int(arg), x), j
    if tag == "a":
        items = []
        j = i + 1
        for _ in range(int(arg)):
            x, j = parse_tokens(ts, j)
            items.append(x)
        return ("a", items), j
    if tag == "o":
        ms = []
        j = i + 1
        for _ in range(int(arg)):
            key = unhex(ts[j])
            x, j = parse_tokens(ts, j + 1)
            ms.append((key, x))
        return ("o", ms), j
    raise ValueError(tok)


REFERENCE_NAME = "python3: expected value of decode(encode(v)) computed from the tree with python's own %.17g/%.9g and float()"


def reference(line):
    t = line.split()
    try:
        if t[0] in ("rt", "file") and len(t) >= 3:
            mode = int(t[1])
            tree, j = parse_tokens(t, 2)
            if j != len(t):
                return None
            if not (mode & 8) and not xdl_ok(tree):
                return None
            try:
                exp = expected(tree, mode)
            except TooDeep:
                exp = "none"
            return exp if t[0] == "rt" else "eq " + exp
    except (NoOpinion, RecursionError, ValueError, IndexError):
        return None
    return None


def enc_violation(line, out):
    """the encoder output must be accepted by python's strict JSON parser and denote the same value"""
    t = line.split()
    if t[0] != "enc" or len(t) < 3 or out in ("bad-op",) or out.startswith("err"):
        return None
    mode = int(t[1])
    if not (mode & 8):
        return None
    try:
        tree, j = parse_tokens(t, 2)
    except Exception:
        return None
    if not utf8_ok(tree):
        return None
    text = unhex(out)
    r = J.py_expect(text)
    if r is None:
        # NaN -> null, inf -> 1e400 are still JSON; nothing else may be rejected
        try:
            J.py_loads(text)
            return None       # accepted, but outside py_dump's scope (e.g. lone surrogate impossible here)
        except ValueError as e:
            return "python3 json rejects the encoder output %r: %s" % (text[:80], e)
    try:
        exp = expected(tree, mode)
    except NoOpinion:
        return None
    if r[1] != exp:
        return "encoder output denotes %s, the Var is %s" % (r[1][:100], exp[:100])
    return None


def oracle(case, impl, model, crash):
    if crash:
        return True, "memory error / abnormal termination: %s" % crash
    body = impl[1:] if impl and impl[0] == "case" else impl
    for l, o in zip(case, body):
        exp = reference(l)
        if exp is not None and o != exp:
            return True, "round trip: expected %s, got %s for %s" % (exp[:100], o[:100], l[:140])
        ev = enc_violation(l, o)
        if ev:
            return True, "independent strict JSON parser: " + ev
    return True, ("encoder output / round-trip result differs from the model, which the theorems tie to the RFC grammar and the round trip")


def extra(ctx):
    """python3 json as a third opinion on every JSON-mode encoder output of a sample of the generated trees"""
    import random
    from lib.engine import Failure, flatten
    rng = random.Random(ctx["seed"] * 104729 + 5)
    cases = [c for c in gen(rng, "quick") if sum(len(l) for l in c) < 20000][:700]
    lines, starts = flatten(cases)
    impl, crash, err = core.run_impl(ctx["exe"], lines, timeout=900)
    fails = []
    checked = 0
    for i, c in enumerate(cases):
        s = starts[i] + 1
        out = impl[s:s + len(c)]
        if len(out) < len(c):
            break
        for l, o in zip(c, out):
            if l.startswith("enc "):
                checked += 1
                ev = enc_violation(l, o)
                if ev and len(fails) < 2:
                    f = Failure("diverge", [l], ["case", o], [], clause="independent strict JSON parser: " + ev, name="python3 json oracle")
                    fails.append(f)
    ctx["stats"]["encoder_outputs_checked_by_python_json"] = checked
    return fails


# ----------------------------------------------------------------------------- generator

CLASS_VALUES = [("s", x) for x in (b"Car", b"car_2", b"_x", b"$x", b"$", b"a.b", b"a.", b"a..b.c", b"x9", b"e5", b"T", b"Yes", b"No", b"nul", b"nulls", b"True",
                                    b"", b"a b", b" a", b"a-b", b"a/b", b"a=b", b"a{", b"a}", b'a"b', b"a,b", b".a", b"1a", b"9", b"-a", b"+", b"Y", b"N",
                                    b"true", b"false", b"null", b"\xc3\xa9", b"a\xc3\xa9", b"a\nb", b"a\tb", b"[?]", b"?", b"a" * 40)] + \
               [("n",), ("z",), ("b", True), ("b", False), ("i", 5), ("i", 0), ("i", -7), ("d", 0x3ff8000000000000), ("d", 0x7ff0000000000000),
                ("F", 0x3fc00000), ("a", []), ("a", [("i", 1)]), ("o", []), ("o", [(b"k", ("i", 1))]), ("o", [(b"$type", ("s", b"In"))])]

JSON_MODES = [8, 9, 8, 9, 10, 11, 40, 41]
XDL_MODES = [0, 1, 2, 3]


def ops_for(rng, tree, nmodes=3, files=0):
    ts = " ".join(tokens(tree))
    ops = []
    for m in rng.sample(JSON_MODES, nmodes):
        ops.append("enc %d %s" % (m, ts))
    for m in (8, 9):
        ops.append("rt %d %s" % (m, ts))
    if xdl_ok(tree):
        for m in (0, 1):
            ops.append("enc %d %s" % (m, ts))
            ops.append("rt %d %s" % (m, ts))
    else:
        ops.append("enc %d %s" % (rng.choice(XDL_MODES), ts))
    for _ in range(files):
        ops.append("file %d %s" % (rng.choice([8, 9, 9, 0, 1] if xdl_ok(tree) else [8, 9]), ts))
    return ops


def enc_len(tree, mode=8):
    """rough size of the compact JSON text (only used to position pads)"""
    return len(" ".join(tokens(tree)))


def gen(rng, tier):
    quick = tier == "quick"
    N = 1 if quick else 10
    cases = []
    # `$type` with every kind of value (class names, strings that are not class names, non-strings), alone, with other members,
    # nested in objects and arrays: XDL and JSON, compact and pretty, encode bytes, round trip and files
    for tv in CLASS_VALUES:
        for tree in [("o", [(b"$type", tv)]), ("o", [(b"$type", tv), (b"x", ("i", 1))]), ("o", [(b"a", ("b", True)), (b"$type", tv), (b"x", ("i", 1))]),
                     ("o", [(b"p", ("o", [(b"$type", tv), (b"x", ("i", 1))]))]), ("a", [("o", [(b"$type", tv)]), ("o", [(b"$type", ("s", b"Car")), (b"$x", tv)])])]:
            ts = " ".join(tokens(tree))
            cases.append(["rt %d %s" % (m, ts) for m in (0, 1, 8, 9)] + ["file %d %s" % (m, ts) for m in (0, 1)] + ["enc %d %s" % (m, ts) for m in (0, 1, 8)])
    # scalars: every special value in every number mode (ties Dtoa.fmtG / Strtod to glibc)
    for b in SPECIAL_D:
        cases.append(["enc %d d%016x" % (m, b) for m in (8, 10, 40, 42)] + ["rt 8 d%016x" % b, "rt 0 d%016x" % b])
    for i in range((500 if quick else 60000)):
        d = gen_double(rng)
        f = gen_float(rng)
        cases.append(["enc %d d%016x" % (m, d[1]) for m in (8, 10)] + ["rt 8 d%016x" % d[1]] +
                     ["enc %d F%08x" % (m, f[1]) for m in (8, 10)] + ["rt 9 F%08x" % f[1]])
    for v in [0, -1, INT_MIN, INT_MAX, 999999999, 1000000000, -99999999, -100000000]:
        cases.append(["enc 8 i%d" % v, "rt 8 i%d" % v, "rt 0 i%d" % v, "file 8 i%d" % v, "file 9 i%d" % v])
    # all single-byte strings and keys (escapes), JSON and XDL
    for c in range(1, 256):
        s = bytes([c])
        ops = ["enc 8 s%s" % hexs(s), "rt 8 s%s" % hexs(s), "rt 0 s%s" % hexs(s), "rt 9 o1 %s i1" % hexs(s + b"k"), "rt 8 a2 s%s s%s" % (hexs(s + s), hexs(b"x" + s))]
        cases.append(ops)
    # all ordered PAIRS of special units (what one byte means to the encoder/decoder may depend on its neighbour: "</", "\\/", "//", "/*",
    # "*/", "\\n", "\\u", quote after backslash ...) as string values (JSON and XDL) and as keys, bare and embedded
    units = SPECIAL_UNITS + RAW_UNITS
    for a in units:
        for b in units:
            ab = a + b
            t1 = " ".join(tokens(("a", [("s", ab), ("s", b"x" + ab + b"y")])))
            t2 = " ".join(tokens(("o", [(ab, ("s", b + a)), (b"k" + ab, ("i", 1))])))
            cases.append(["enc 8 " + t1, "rt 8 " + t1, "rt 0 " + t1, "enc 9 " + t2, "rt 9 " + t2])
    # comment-, markup- and escape-like texts inside strings and keys: every layout, encode bytes, round trip, files
    for i, c in enumerate(COMMENTISH):
        t1 = " ".join(tokens(("a", [("s", c), ("s", c + c), ("o", [(b"k", ("s", b"a" + c + b"z"))])])))
        t2 = " ".join(tokens(("o", [(c, ("s", c)), (b"q" + c + b"r", ("a", [("s", c)]))])))
        cases.append(["enc 8 " + t1, "enc 9 " + t1, "enc 0 " + t1] + ["rt %d %s" % (m, t1) for m in (8, 9, 0, 1)] + ["file %d %s" % ((8, 9, 0, 1)[i % 4], t1)] +
                     ["enc 8 " + t2, "rt 8 " + t2, "rt 9 " + t2, "file %d %s" % ((9, 8)[i % 2], t2)])
    # type-directed trees
    for i in range((1000 if quick else 80000)):
        opts = {"utf8": rng.random() < 0.8, "ident_keys": rng.random() < 0.5, "reals": rng.random() < 0.85}
        tree = gen_tree(rng, 0, rng.choice([1, 2, 3, 4, 6, 8]), opts)
        if len(tokens(tree)) > 3000:
            continue
        cases.append(ops_for(rng, tree, 3, 1 if rng.random() < 0.25 else 0))
    # the pretty printer's layout thresholds
    for n in [0, 1, 9, 10, 11, 15, 16, 17, 31, 32, 33, 48, 49]:
        for item in [("i", 7), ("s", b"ab"), ("s", b"x" * 9), ("a", [("i", 1)]), ("o", [(b"k", ("i", 1))]), ("d", 0x3ff8000000000000)]:
            tree = ("a", [item] * n)
            ts = " ".join(tokens(tree))
            cases.append(["enc 9 " + ts, "enc 1 " + ts, "rt 9 " + ts, "rt 1 " + ts])
    for total in [99, 100, 101, 102]:
        tree = ("a", [("s", b"a" * (total // 2)), ("s", b"b" * (total - total // 2))])
        ts = " ".join(tokens(tree))
        cases.append(["enc 9 " + ts, "rt 9 " + ts, "enc 1 " + ts])
    # small files (1, 2, 3 ... bytes) and the BOM probe
    for tree in [("i", 5), ("a", []), ("o", []), ("s", b""), ("b", True), ("n",), ("i", 57), ("s", b"\xef\xbb\xbf"), ("a", [("i", 1)])]:
        ts = " ".join(tokens(tree))
        cases.append(["file %d %s" % (m, ts) for m in (8, 9, 0, 1)])
    # file sizes slid across the read chunk (16382) and the flush threshold (16000): the chunk boundary visits every byte of `probe`
    probe = ("a", [("i", -12345678), ("d", 0x3fb999999999999a), ("s", b'q"\\/\n\x01\xc3\xa9z'), ("b", True), ("n",),
                   ("o", [(b"key", ("d", 0x7fefffffffffffff)), (b"k2", ("a", [("i", 1), ("i", 2)]))]), ("F", 0x3dcccccd), ("i", 1234567890)])
    span = 150 if quick else 150
    bases = [16382, 16000] if quick else [16382, 16000, 32764, 49146, 65528]
    for base in bases:
        for off in range(0, span):
            pad = base - span + off
            tree = ("a", [("p", pad), probe])
            cases.append(["file %d %s" % (rng.choice([8, 8, 9]), " ".join(tokens(tree)))])
    # nesting at the decoder's limit (XDL_MAX_DEPTH = 1000): encode→decode and write→read, all layouts
    for dep in ([200, 512, 999, 1000, 1001] if quick else [1, 2, 100, 512, 998, 999, 1000, 1001, 1002, 3000]):
        for kind in ("N", "O"):
            item = rng.choice([("i", 7), ("s", b"x"), ("a", []), ("o", []), ("d", 0x3ff8000000000000), ("b", True)])
            ts = " ".join(tokens((kind, dep - (1 if item[0] in "ao" else 0), item)))
            pretty_ok = dep <= (200 if quick else 1001)       # the PRETTY text of depth d has ~d*d bytes
            cases.append(["rt 8 " + ts, "rt 0 " + ts, "file 8 " + ts, "file 0 " + ts] + (["rt 9 " + ts, "rt 1 " + ts, "file 1 " + ts] if pretty_ok else []))
    # large documents (several flushes, several read chunks)
    for n in ([3000, 20000] if quick else [3000, 20000, 100000, 400000]):
        tree = ("r", n, rng.choice([("d", 0x3ff199999999999a), ("i", 123456), ("s", b"ab\ncd"), ("a", [("i", 1), ("b", False)])]))
        ts = " ".join(tokens(tree))
        cases.append(["file 8 " + ts, "file 9 " + ts, "rt 8 " + ts])
        tree = ("o", [(b"k%d" % i, ("r", n // 50, ("i", i))) for i in range(50)])
        ts = " ".join(tokens(tree))
        cases.append(["file 9 " + ts, "file 1 " + ts])
    return cases


# the decoder model (lean/AslModel/Xdl.lean) reads the int/atof split and the \\u buffer sizes from lean/Gen/XdlGen.lean
def translate_enc(repo):
    """G (encoder side): number formats, string-escape table, flush threshold, read-chunk size and snprintf buffer sizes of
    src/Xdl.cpp -> lean/Gen/XdlEncGen.lean.  Anything not recognised raises (never a default)."""
    from lib import cparse
    from lib.engine import TranslateError
    src = cparse.read(repo, "src/Xdl.cpp").replace("\r", "")
    m = re.search(r"String\s+XdlEncoder::encode\s*\(\s*const\s+Var&\s*v\s*,\s*Json::Mode\s+mode\s*\)\s*\{(.*?)\n\}", src, re.S)
    if not m:
        raise TranslateError("XdlEncoder::encode(const Var&, Json::Mode) not found in src/Xdl.cpp")
    blk = m.group(1)
    mf = re.search(r"_simple\s*=\s*\(\s*mode\s*&\s*Json::SIMPLE\s*\)\s*!=\s*0\s*;\s*_fmtF\s*=\s*_simple\s*\?\s*\"%\.(\d+)g\"\s*:\s*\"%\.(\d+)g\"\s*;\s*"
                   r"_fmtD\s*=\s*_simple\s*\?\s*\"%\.(\d+)g\"\s*:\s*\"%\.(\d+)g\"\s*;\s*if\s*\(\s*mode\s*&\s*Json::SHORTF\s*\)\s*_fmtD\s*=\s*_fmtF\s*;", blk)
    if not mf:
        raise TranslateError("XdlEncoder::encode: `_fmtF = _simple ? \"%.Ag\" : \"%.Bg\"; _fmtD = _simple ? \"%.Cg\" : \"%.Dg\"; if (mode & Json::SHORTF) _fmtD = _fmtF;` not recognised")
    if len(re.findall(r"_fmt[FD]\s*=", blk)) != 3:
        raise TranslateError("XdlEncoder::encode assigns _fmtF/_fmtD an unexpected number of times")
    body = cparse.find_function(src, r"void\s+XdlEncoder::new_string\s*\(\s*const\s+char\s*\*\s*x\s*\)")
    ms = re.fullmatch(r"\s*\{\s*_out\s*<<\s*'\\\"'\s*;\s*const\s+char\s*\*\s*p\s*=\s*x\s*;\s*while\s*\(\s*char\s+c\s*=\s*\*p\+\+\s*\)\s*\{\s*switch\s*\(\s*c\s*\)\s*\{(.*?)default\s*:(.*?)\}\s*\}\s*_out\s*<<\s*'\\\"'\s*;\s*\}\s*", body, re.S)
    if not ms:
        raise TranslateError("XdlEncoder::new_string: `_out << '\"'; while (char c = *p++) switch (c) {case...; default: ...} _out << '\"';` not recognised")
    cases = []
    rest = ms.group(1)
    pos = 0
    for mc in re.finditer(r"\s*case\s+'((?:\\.|[^'\\]))'\s*:\s*_out\s*<<\s*\"((?:\\.|[^\"\\])*)\"\s*;\s*break\s*;", rest):
        if mc.start() != pos:
            raise TranslateError("XdlEncoder::new_string: unrecognised text between the cases of the escape switch")
        pos = mc.end()
        cases.append((cparse.c_string_literal(mc.group(1))[0], cparse.c_string_literal(mc.group(2))))
    if rest[pos:].strip() or not cases:
        raise TranslateError("XdlEncoder::new_string: unrecognised case in the escape switch: " + rest[pos:].strip()[:60])
    md = re.fullmatch(r"\s*if\s*\(\s*\(unsigned\s+char\)\s*c\s*<\s*'(.)'\s*\)(?:\s*//[^\n]*)?\s*\{\s*char\s+u\s*\[\s*(\d+)\s*\]\s*;\s*snprintf\s*\(\s*u\s*,\s*sizeof\s*\(\s*u\s*\)\s*,\s*"
                      r"\"((?:\\.|[^\"\\%])*)%0(\d)x\"\s*,\s*\(unsigned\)\s*c\s*\)\s*;\s*_out\s*<<\s*u\s*;\s*\}\s*else\s+_out\s*<<\s*c\s*;\s*", ms.group(2), re.S)
    if not md:
        raise TranslateError("XdlEncoder::new_string default: `if ((unsigned char)c < ' ') { char u[N]; snprintf(u, sizeof(u), \"\\\\u%04x\", (unsigned)c); _out << u; } else _out << c;` not recognised")
    below, ubuf, upre, uwidth = ord(md.group(1)), int(md.group(2)), cparse.c_string_literal(md.group(3)), int(md.group(4))
    if uwidth != 4:
        raise TranslateError("new_string: \\u escape is not printed with %04x")
    mfl = re.findall(r"if\s*\(\s*_out\.length\(\)\s*>\s*(\d+)\s*\)\s*(?:\{\s*)?_sink", src)
    if len(mfl) != 1:
        mfl = re.findall(r"if\s*\(\s*_out\.length\(\)\s*>\s*(\d+)\s*\)", src)
        if len(mfl) != 1:
            raise TranslateError("the flush test `if (_out.length() > N)` of XdlEncoder was not found exactly once")
    mr = re.search(r"int\s+size\s*=\s*int\s*\(\s*clamp\s*\(\s*tfile\.size\(\)\s*,\s*0ll\s*,\s*(\d+)ll\s*\)\s*\)\s*;\s*if\s*\(\s*size\s*==\s*0\s*\)\s*return\s+Var\(\)\s*;\s*"
                   r"Array<char>\s+buffer\s*\(\s*min\s*\(\s*(\d+)\s*,\s*size\s*\)\s*\+\s*1\s*\)\s*;", src)
    if not mr:
        raise TranslateError("Xdl::read: `int size = int(clamp(tfile.size(), 0ll, Nll)); if (size == 0) return Var(); Array<char> buffer(min(K, size) + 1);` not recognised")
    mb = re.findall(r"snprintf\s*\(\s*&_out\[n\]\s*,\s*(\d+)\s*,\s*(_fmt[DF])\s*,\s*x\s*\)", src)
    if sorted(x[1] for x in mb) != ["_fmtD", "_fmtF"]:
        raise TranslateError("the two calls snprintf(&_out[n], N, _fmtD/_fmtF, x) were not found exactly once each")
    bufs = {k: int(v) for v, k in mb}
    t = "/- GENERATED by tools/props/c05.py from src/Xdl.cpp (XdlEncoder::encode, new_string, new_number, Xdl::read) — do not edit -/\nnamespace Gen.XdlEnc\n\n"
    t += "/-- `_fmtF = _simple ? \"%%.%sg\" : \"%%.%sg\"` -/\ndef precF (simple : Bool) : Nat := if simple then %s else %s\n" % (mf.group(1), mf.group(2), mf.group(1), mf.group(2))
    t += "/-- `_fmtD = _simple ? \"%%.%sg\" : \"%%.%sg\"; if (mode & SHORTF) _fmtD = _fmtF` -/\n" % (mf.group(3), mf.group(4))
    t += "def precD (simple shortf : Bool) : Nat := if shortf then precF simple else if simple then %s else %s\n\n" % (mf.group(3), mf.group(4))
    t += "/-- the `case 'c': _out << \"..\"; break;` lines of `new_string`, in source order -/\ndef escCases : List (UInt8 × List UInt8) := [\n"
    t += ",\n".join("  (%d, [%s])" % (c, ", ".join(str(b) for b in bs)) for c, bs in cases) + "]\n"
    t += "/-- default branch: `(unsigned char)c < N` is printed with `PREFIX%04x` into `char u[B]` -/\n"
    t += "def ctrlBelow : Nat := %d\ndef uPrefix : List UInt8 := [%s]\ndef uBuf : Nat := %d\n" % (below, ", ".join(str(b) for b in upre), ubuf)
    t += "def hexLow (n : Nat) : UInt8 := if n < 10 then UInt8.ofNat (48 + n) else UInt8.ofNat (87 + n)\n"
    t += ("def escByte (c : UInt8) : List UInt8 :=\n  match escCases.find? (·.1 == c) with\n  | some p => p.2\n  | none =>\n"
          "    if c.toNat < ctrlBelow then uPrefix ++ [hexLow (c.toNat / 4096 % 16), hexLow (c.toNat / 256 % 16), hexLow (c.toNat / 16 % 16), hexLow (c.toNat % 16)]\n    else [c]\n\n")
    t += "/-- `if (_out.length() > N) _sink->write(_out)` -/\ndef flushAbove : Nat := %s\n" % mfl[0]
    t += "/-- `Xdl::read`: `clamp(size, 0, N)`, `buffer(min(K, size) + 1)` -/\ndef readClamp : Nat := %s\ndef readChunk : Nat := %s\n" % (mr.group(1), mr.group(2))
    t += "/-- `snprintf(&_out[n], N, _fmtD, x)` / `snprintf(&_out[n], N, _fmtF, x)` -/\ndef dblBuf : Nat := %d\ndef fltBuf : Nat := %d\n\nend Gen.XdlEnc\n" % (bufs["_fmtD"], bufs["_fmtF"])
    return {"Gen/XdlEncGen.lean": t}


def translate(repo):
    files = dict(J.translate(repo))
    files.update(translate_enc(repo))
    return files


FALLBACK = dict(J.FALLBACK)
FALLBACK["Gen/XdlEncGen.lean"] = ("namespace Gen.XdlEnc\ndef precF (simple : Bool) : Nat := 0\ndef precD (simple shortf : Bool) : Nat := 0\ndef escCases : List (UInt8 × List UInt8) := []\n"
                                  "def ctrlBelow : Nat := 0\ndef uPrefix : List UInt8 := []\ndef uBuf : Nat := 0\ndef escByte (c : UInt8) : List UInt8 := []\ndef flushAbove : Nat := 0\n"
                                  "def readClamp : Nat := 0\ndef readChunk : Nat := 0\ndef dblBuf : Nat := 0\ndef fltBuf : Nat := 0\nend Gen.XdlEnc\n")


def nontrivial(case):
    return any(len(l.split()) > 3 or (len(l.split()) == 3 and l.split()[2] not in ("n", "z", "t", "f", "i0")) for l in case)


def distribution(cases):
    ops = {}
    modes = {}
    kinds = {}
    spicy = 0
    strings = 0
    markup = 0
    for c in cases:
        for l in c:
            t = l.split()
            ops[t[0]] = ops.get(t[0], 0) + 1
            modes[t[1]] = modes.get(t[1], 0) + 1
        try:
            tree, _ = parse_tokens(c[0].split(), 2)
        except Exception:
            continue
        stack = [tree]
        while stack:
            t = stack.pop()
            kinds[t[0]] = kinds.get(t[0], 0) + 1
            strs = []
            if t[0] == "s":
                strs.append(t[1])
            elif t[0] == "a":
                stack.extend(t[1])
            elif t[0] == "r":
                stack.append(t[2])
            elif t[0] == "o":
                for k, v in t[1]:
                    strs.append(k)
                    stack.append(v)
            for b in strs:
                strings += 1
                if any(ch < 0x20 or ch in (34, 92, 47, 0x7f) or ch >= 0x80 for ch in b):
                    spicy += 1
                if b"</" in b or b"//" in b or b"/*" in b or b"\\/" in b:
                    markup += 1
    return {"ops_by_kind": ops, "ops_by_mode": modes, "node_kinds(first op of each case)": kinds,
            "strings_and_keys_with_control/quote/backslash/slash/del/high_bytes": "%d of %d" % (spicy, strings),
            "strings_and_keys_holding_</_or_//_or_/*_or_\\/": markup}


EXHAUSTIVE = {"quick": "all 255 single-byte strings/keys; all ordered pairs of the special units (SPECIAL_UNITS + RAW_UNITS) as string values and keys; every pad length so that the 16382-byte read boundary and the 16000-byte flush "
                       "threshold fall on every byte of a probe document",
              "thorough": "all 255 single-byte strings/keys; all ordered pairs of the special units as string values and keys; every pad length across 150 bytes around 16382*k (k=1..4) and 16000"}

LEVEL_TEXT = ("Proved in Lean 4 about the executable model of XdlEncoder/Xdl::write/Xdl::read (lean/AslModel/Xdl.lean) and the decoder model of C06, "
              "for every Var tree with 32-bit ints, NUL-free strings/keys (any other bytes: control characters, quotes, backslashes, '/', 0x7f, "
              "high bytes), any size, nesting <= 1000 (= XDL_MAX_DEPTH; deeper texts are rejected by the decoder, so the round trip is false "
              "beyond it): encode_in_rfc / encode_is_json_text (compact and pretty JSON output is derivable in the RFC 8259 grammar - an inductive "
              "relation written from the RFC - and denotes the tree; for reals 'denotes' = the printed lexeme, whose VALUE is pinned by H1v: "
              "encode_number_value), string_escaping_exact, encString_utf8 / encode_utf8 (well-formed UTF-8 in => well-formed UTF-8 out, every "
              "mode), int_lexeme_exact and atof_int_exact (myitoa spells the int; the model atof of that lexeme is exactly the int - the 10+ "
              "character ints), json_roundtrip + json_roundtrip_same (decode(encode v) has the structure of v: same array lengths/order, same "
              "keys in order, identical strings/booleans, undefined members dropped - relation Same, for trees with distinct keys), "
              "xdl_roundtrip + xdl_roundtrip_same (compact and pretty XDL, identifier keys incl. digit-first and `$type` with ANY value: "
              "xdl_class_name_test restates the encoder's isClassName test as the predicate validCls (definitional); names passing it are written "
              "in class notation and PROVED to be read back as $type - sufficiency only, that no other string would survive class notation is "
              "not proved -, everything else is an ordinary property), sink_concat / "
              "writer_refines (the 16000-byte flushing sink loses and duplicates nothing, every mode), read_chunks, file_roundtrip and "
              "xdl_file_roundtrip (write then read through a file of any size = decode(encode)), double_roundtrip / float_roundtrip (the "
              "bit-for-bit clauses, conditional on H2d/H2f = 'atof of the 17/9-digit lexeme is the number', a statement about libc), fmtG_H1 and "
              "fmtG_H1v (PROVED for the formatter the driver runs: Dtoa.fmtG prints an RFC number whose decimal value is the double's value "
              "rounded half-even to P digits, all three %g layouts, exact over Q - so no theorem is vacuous for that instance and 'denotes the "
              "same value' is a statement about values), double_roundtrip_value (every finite double, default mode, under H1v only: what comes back is "
              "the 17-digit lexeme through atof or - integral doubles, -0.0 - an int that IS the decimal value of that lexeme, which is the double rounded to "
              "17 digits; a zero comes back as 0). G: gen_number_formats, gen_escape_table (+ gen_string_escaping_exact, gen_u_escape_fits), gen_flush, "
              "gen_read_sizes, number_buffer_fits_partial - the model's precisions, its escByte for all 256 bytes, its flush threshold and read sizes ARE what "
              "translate_enc reads from src/Xdl.cpp on every check (Gen/XdlEncGen.lean), so a changed format, escape or threshold breaks a proof. The model is tied to the code by the correspondence check "
              "under ASan (encode bytes in 8 modes incl. every kind of $type, decode(encode), write/read through files slid across the 16382/16000 "
              "boundaries, nesting 999/1000/1001) and python3 json parses every JSON-mode output.")
LEVEL_NOTE = ("Partial / not proved: (1) H2d and H2f (17 resp. 9 digits identify a double/float through atof) are hypotheses - `def "
              "double_roundtrip_full` states H2d for the concrete Dtoa.fmtG/Strtod.atofBits; K and the python oracle exercise it on every "
              "generated number (denormals, +-DBL_MAX, -0, powers of two +-1ulp, random bits). (2) Strtod.atofBits is proved exact "
              "on integer lexemes only (atof_int_exact), not correctly rounded in general. (3) number_buffer_fits_full (no %.17g/%.9g text is truncated by the snprintf bounds 27/17 read "
              "from the source) is a def, proved part number_buffer_fits_partial (27 > 24, 17 > 16; that 24/16 bound fmtG needs an exponent bound on Dtoa.sigDigits, K only). "
              "(4) exactness of the int path beyond 'value of the lexeme' (an integral double below 10^9 equals its 17-digit rounding) is not stated separately. "
              "Same/SameX need distinct keys per object (what Dic "
              "guarantees); with duplicate keys the last value wins (C06 norm_object_lookup). XDL theorems need identifier keys; the member order after an XDL round trip ($type first) is fixed by "
              "SameX only - the K dump sorts members by key, so order is never observed on the implementation. "
              "Fixed in /repo for this property: 737b5bf, 88049f3, a755d42 (found by this check: 1-2 byte files could not be read back), "
              "c4482e8 (a $type that is not a class name destroyed the XDL round trip; the check had scoped such trees out - now in scope), "
              "c9789c6 (nesting limit). Not a defect as worded: -0.0 and integral doubles are written without fraction ('-0', '5') and come back "
              "as ints of the same numeric value; ints of 10+ characters come back as doubles of the same value (atof_int_exact).")
