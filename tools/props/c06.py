"""C06 — JSON/XDL decoding is total, memory-safe, chunk-independent and JSON-conformant: plugin for tools/check.py"""
import json
import struct
import subprocess
import sys

import re

from lib import core, cparse
from lib.core import hexs, unhex
from lib.engine import TranslateError

ID = "C06"
PROPS_MODULE = "AslProps.C06"
DRIVER = "c06"
RULE = ("a case = one text with its ops (every run starts with the fixed integer-literal block: literals of every length 1..25 digits, "
        "both signs, 10^k+-2, all-nines, leading digits 1..9, 2^31/32/52/53/54/62/63/64/65/80 +- small deltas and +- half an ulp, each as top-level value, "
        "array element, object member, XDL member, cut at every byte by the chunked parser, and with fraction/exponent suffixes; python compares the bits "
        "with float(literal)): whole decode (Json::decode / Xdl::decode), incremental XdlParser fed in 2..k chunks "
        "(all 2-chunk cuts for short texts, random k-chunk cuts otherwise), decodes of prefixes; texts = grammar-generated JSON "
        "(all escapes, all number spellings, whitespace variants, nesting to 512) and XDL documents, their mutations "
        "(truncation, deletion, duplication, splicing, byte flips, insertions) and raw/boundary-alphabet bytes; "
        "non-trivial = distinct case whose text is non-empty")
TRUSTED = ["tools/props/c06.py generators and the python3 json reference oracle",
           "tools/props/c06.py translate(): regex extraction of the UNICODECHAR stack-buffer sizes and of the state-INT int/atof split "
           "(`_buffer.length() > N` -> ASL_ATOF, else myatoiz; any other shape or another integer routine in parse() is refused) from src/Xdl.cpp into lean/Gen/XdlGen.lean",
           "lean/AslModel/Strtod.lean as the meaning of atof (compared with glibc on every number of every run)"]
ASSUMPTIONS = [
    "glibc atof/strtod is correctly rounded to nearest-even in the C locale (model: AslModel.Strtod.atofBits; exercised by K on every generated number)",
    "localeconv()->decimal_point is '.' (C locale), so the '.' -> _ldp patch is the identity",
    "strtoul(s,NULL,16) on the 4-byte \\u accumulator = AslModel.Xdl.strtoul16 (white space, sign, 0x prefix; exercised by K incl. non-hex bytes)",
    "wchar_t is a signed 32-bit integer (Linux)",
    "String/Array/Var/Dic container semantics (C01-C04) for the token buffer, the stacks and the result value",
    "XDL_MAX_DEPTH = 1000 (model: maxDepth) bounds the nesting, hence the recursion depth of ~Var on the result",
]
TECHNIQUE = "Lean 4 theorems (invariant induction over all byte strings, grammar induction) + differential correspondence check under ASan + python3 json oracle"

sys.setrecursionlimit(20000)


def translate(repo):
    """G: the declared sizes of the stack buffers of state UNICODECHAR (src/Xdl.cpp) -> lean/Gen/XdlGen.lean"""
    src = cparse.read(repo, "src/Xdl.cpp")
    m = re.search(r"case\s+UNICODECHAR\s*:(.*?)case\s+ERR\s*:", src, re.S)
    if not m:
        raise TranslateError("case UNICODECHAR not found in src/Xdl.cpp")
    blk = m.group(1)
    mu = re.search(r"char\s+unicode\s*\[\s*(\d+)\s*\]\s*;\s*memcpy\s*\(\s*unicode\s*,\s*_unicode\s*,\s*(\d+)\s*\)\s*;\s*unicode\s*\[\s*(\d+)\s*\]\s*=", blk)
    mp = re.search(r"wchar_t\s+u16\s*\[\s*3\s*\]\s*=\s*\{\s*_wchar\s*,\s*wchar\s*,\s*0\s*\}\s*;\s*char\s+ch\s*\[\s*(\d+)\s*\]\s*;\s*utf16toUtf8\s*\(\s*u16\s*,\s*ch\s*,\s*2\s*\)", blk)
    ms = re.search(r"wchar_t\s+u16\s*\[\s*2\s*\]\s*=\s*\{\s*wchar\s*,\s*0\s*\}\s*;\s*char\s+ch\s*\[\s*(\d+)\s*\]\s*;\s*utf16toUtf8\s*\(\s*u16\s*,\s*ch\s*,\s*1\s*\)", blk)
    hdr = cparse.read(repo, "include/asl/Xdl.h")
    mh = re.search(r"char\s+_unicode\s*\[\s*(\d+)\s*\]\s*;", hdr)
    mi = re.search(r"_unicode\s*\[\s*\(\s*_unicodeCount\s*\+\+\s*\)\s*%\s*(\d+)\s*\]\s*=\s*c\s*;", blk)
    if not (mh and mi):
        raise TranslateError("UNICODECHAR: member `char _unicode[N]` (Xdl.h) or its index `(_unicodeCount++) % K` not recognised")
    if not (mu and mp and ms):
        raise TranslateError("UNICODECHAR: buffer declarations (unicode[], ch[] for 1 and 2 code units) not recognised")
    if len(re.findall(r"char\s+ch\s*\[", blk)) != 2 or len(re.findall(r"utf16toUtf8\s*\(", blk)) != 2:
        raise TranslateError("UNICODECHAR: unexpected number of ch[] buffers / utf16toUtf8 calls")
    mint = re.search(r"if\s*\(\s*_buffer\.length\(\)\s*>\s*(\d+)\s*\)[^\n]*\n\s*new_number\s*\(\s*ASL_ATOF\s*\(\s*_buffer\s*\)\s*\)\s*;\s*else\s*new_number\s*\(\s*myatoiz\s*\(\s*_buffer\s*\)\s*\)\s*;\s*value_end\s*\(\s*\)\s*;", src)
    if not mint:
        raise TranslateError("case INT: `if (_buffer.length() > N) new_number(ASL_ATOF(_buffer)); else new_number(myatoiz(_buffer));` not recognised "
                             "(the int/double split of integer literals changed)")
    if len(re.findall(r"myatol\s*\(|myatoi\s*\(|strtol|strtoll|atoll|atol\s*\(", src.split("void XdlParser::parse")[1].split("XdlParser::XdlParser()")[0])) != 0:
        raise TranslateError("XdlParser::parse converts a token with an integer routine other than myatoiz (myatol/strtol...)")
    ssrc = cparse.read(repo, "src/String.cpp")
    mz = re.search(r"int\s+myatoiz\s*\(\s*const\s+char\s*\*\s*s\s*\)\s*\{\s*int\s+y\s*=\s*0\s*,\s*sgn\s*=\s*1\s*;\s*if\s*\(\s*s\[0\]\s*==\s*'(.)'\s*\)\s*\{\s*sgn\s*=\s*-1\s*;\s*s\+\+\s*;\s*\}"
                   r"\s*else\s+if\s*\(\s*s\[0\]\s*==\s*'(.)'\s*\)\s*s\+\+\s*;\s*int\s+c\s*;\s*while\s*\(\s*\(\s*c\s*=\s*\*s\+\+\s*\)\s*\)\s*y\s*=\s*(\d+)\s*\*\s*y\s*\+\s*\(\s*c\s*-\s*'(.)'\s*\)\s*;"
                   r"\s*return\s+y\s*\*\s*sgn\s*;\s*\}", ssrc)
    if not mz:
        raise TranslateError("myatoiz (src/String.cpp): `int y = 0, sgn = 1; if (s[0] == '-') {sgn = -1; s++;} else if (s[0] == '+') s++; int c; "
                             "while ((c = *s++)) y = B * y + (c - '0'); return y*sgn;` not recognised (the integer conversion of state INT changed)")
    txt = "/- GENERATED by tools/props/c06.py from src/Xdl.cpp (states INT, UNICODECHAR) and src/String.cpp (myatoiz) — do not edit -/\nnamespace Gen.Xdl\n\n"
    txt += ("/-- `myatoiz` (src/String.cpp) statement by statement: `y = B * y + (c - 'z')` over all bytes up to the NUL, after an optional sign character;\n"
            "    the characters and B are read from the source (bytes >= 0x80 would be negative `char`s: not modelled, state INT stores '-' and digits only) -/\n"
            "def atoizStep (y : Int) (c : UInt8) : Int := %s * y + ((c.toNat : Int) - %d)\n"
            "def myatoiz (s : List UInt8) : Int :=\n  match s with\n  | %d :: t => -(t.foldl atoizStep 0)\n  | %d :: t => t.foldl atoizStep 0\n  | _ => s.foldl atoizStep 0\n\n"
            % (mz.group(3), ord(mz.group(4)), ord(mz.group(1)), ord(mz.group(2))))
    txt += "/-- state INT: integer literals of more than this many characters go through `atof`, the others through `myatoiz` -/\n"
    txt += "def intSplit : Nat := %s\n" % mint.group(1)
    txt += "/-- `char unicode[N]`, filled by `memcpy(unicode, _unicode, K)` and `unicode[T] = 0` -/\n"
    txt += "def unicodeBuf : Nat := %s\ndef unicodeCopy : Nat := %s\ndef unicodeTerm : Nat := %s\n" % mu.groups()
    txt += "/-- member `char _unicode[N]` (Xdl.h), written at index `(_unicodeCount++) %% K` -/\ndef unicodeMember : Nat := %s\ndef unicodeMod : Nat := %s\n" % (mh.group(1), mi.group(1))
    txt += "/-- `char ch[N]` receiving `utf16toUtf8(u16, ch, 2)` (surrogate pair) -/\ndef chPair : Nat := %s\n" % mp.group(1)
    txt += "/-- `char ch[N]` receiving `utf16toUtf8(u16, ch, 1)` -/\ndef chSingle : Nat := %s\n\nend Gen.Xdl\n" % ms.group(1)
    return {"Gen/XdlGen.lean": txt}


FALLBACK = {"Gen/XdlGen.lean": "namespace Gen.Xdl\ndef atoizStep (y : Int) (c : UInt8) : Int := 0\ndef myatoiz (s : List UInt8) : Int := 0\ndef intSplit : Nat := 0\ndef unicodeBuf : Nat := 0\ndef unicodeCopy : Nat := 0\ndef unicodeTerm : Nat := 0\n"
                               "def unicodeMember : Nat := 0\ndef unicodeMod : Nat := 0\ndef chPair : Nat := 0\ndef chSingle : Nat := 0\nend Gen.Xdl\n"}

WS = b" \t\n\r"


# ----------------------------------------------------------------------------- text generators

def ws(rng, p=0.3):
    out = b""
    while rng.random() < p:
        out += bytes([rng.choice(WS)])
    return out


def gen_int_lex(rng):
    r = rng.random()
    if r < 0.25:
        return str(rng.randrange(-50, 1000)).encode()
    if r < 0.35:
        return rng.choice([b"0", b"-0", b"-1", b"2147483647", b"-2147483648", b"999999999", b"-99999999", b"-999999999",
                           b"1000000000", b"4294967296", b"9007199254740993", b"18446744073709551616"])
    n = rng.choice([7, 8, 9, 9, 10, 10, 11, 12, 17, 20, 25, 40])
    neg = rng.random() < 0.4
    d = str(rng.randrange(1, 10)) + "".join(str(rng.randrange(10)) for _ in range(n - 1 - (1 if neg else 0)))
    return (("-" if neg else "") + d).encode()


HARD_NUMS = [b"0.0", b"-0.0", b"1e400", b"-1e400", b"1e-400", b"4.9e-324", b"2.4703282292062327e-324", b"2.4703282292062328e-324",
             b"2.2250738585072011e-308", b"2.2250738585072014e-308", b"1.7976931348623157e308", b"1.7976931348623159e308",
             b"0e0", b"0E-0", b"-0e5", b"1E+2", b"1e+02", b"1.5e-7", b"123456789.5", b"0.1", b"0.30000000000000004",
             b"9007199254740992.5", b"9007199254740993.0", b"1e22", b"1e23", b"8.5e-5", b"5e-324", b"1e309", b"0.000001",
             b"100000000000000000000000000000000000000000000000000", b"1.0000000000000000000000000000000000000000001",
             b"179769313486231580793728971405303415079934132710037826936173778980444968292764750946649017977587207096330286416692887910946555547851940402630657488671505820681908902000708383676273854845817711531764475730270069855571366959622842914819860834936475292719074168444365510704342711559699508093042880177904174497791.9999999999999999999999999999999999999999999999999999999999999999999999"]


def gen_num_lex(rng):
    r = rng.random()
    if r < 0.35:
        return gen_int_lex(rng)
    if r < 0.5:
        return rng.choice(HARD_NUMS)
    if r < 0.7:
        x = struct.unpack("<d", struct.pack("<Q", rng.getrandbits(64)))[0]
        if x != x or x in (float("inf"), float("-inf")):
            x = 1.5
        s = rng.choice(["%.17g", "%r", "%.15g", "%.9g", "%e", "%.20e"])
        t = (s % x) if s != "%r" else repr(x)
        if "e" not in t and "." not in t and "n" not in t:
            t += ".0"
        return t.encode()
    ip = str(rng.randrange(0, 10 ** rng.randrange(1, 12)))
    t = ("-" if rng.random() < 0.3 else "") + ip
    if rng.random() < 0.6:
        t += "." + "".join(str(rng.randrange(10)) for _ in range(rng.randrange(1, 20)))
    if rng.random() < 0.5:
        t += rng.choice("eE") + rng.choice(["", "+", "-"]) + str(rng.randrange(0, rng.choice([5, 30, 330, 5000])))
        if rng.random() < 0.1:
            t = t.replace("e", "e0").replace("E", "E00")
    return t.encode()


def utf8(cp):
    return chr(cp).encode("utf-8")


def gen_str_body(rng, maxlen=12):
    out = b""
    for _ in range(rng.randrange(0, maxlen)):
        r = rng.random()
        if r < 0.35:
            out += bytes([rng.choice(b"abcxyzABC019 _-+.,:;=/*[]{}'$#@!~\x7f<>/<")])
        elif r < 0.5:
            out += b"\\" + bytes([rng.choice(b"\"\\/bfnrt")])
        elif r < 0.62:
            cp = rng.choice([rng.randrange(1, 0x80), rng.randrange(0x80, 0x800), rng.randrange(0x800, 0xd800), rng.randrange(0xe000, 0x10000),
                             0x7f, 0x80, 0x7ff, 0x800, 0xd7ff, 0xe000, 0xffff, 0x1f, 0x22, 0x5c, 0x2f])
            h = "%04x" % cp
            out += b"\\u" + (h.upper() if rng.random() < 0.3 else h).encode()
        elif r < 0.72:
            cp = rng.choice([0x10000, 0x10ffff, 0x1f600, rng.randrange(0x10000, 0x110000)]) - 0x10000
            hi, lo = 0xd800 + (cp >> 10), 0xdc00 + (cp & 0x3ff)
            out += ("\\u%04x\\u%04X" % (hi, lo)).encode()
        elif r < 0.85:
            cp = rng.choice([rng.randrange(0x80, 0x800), rng.randrange(0x800, 0xd800), rng.randrange(0xe000, 0x10000), rng.randrange(0x10000, 0x110000)])
            out += utf8(cp)
        else:
            out += bytes([rng.randrange(0x20, 0x7f)]).replace(b'"', b"q").replace(b"\\", b"b")
    return out


def gen_json(rng, depth=0, maxdepth=5, p_ws=0.25):
    """an RFC 8259 value (bytes), no surrounding white space"""
    r = rng.random()
    if depth >= maxdepth:
        r *= 0.6
    if r < 0.08:
        return b"null"
    if r < 0.16:
        return rng.choice([b"true", b"false"])
    if r < 0.42:
        return gen_num_lex(rng)
    if r < 0.6:
        return b'"' + gen_str_body(rng) + b'"'
    if r < 0.8:
        n = rng.choice([0, 0, 1, 1, 2, 3, 4, 12])
        items = [ws(rng, p_ws) + gen_json(rng, depth + 1, maxdepth, p_ws) + ws(rng, p_ws) for _ in range(n)]
        if not items:
            return b"[" + ws(rng, p_ws) + b"]"
        return b"[" + b",".join(items) + b"]"
    n = rng.choice([0, 0, 1, 1, 2, 3, 5])
    keys = [gen_str_body(rng, 6) for _ in range(n)]
    if n >= 2 and rng.random() < 0.25:
        keys[-1] = keys[0]
    items = [ws(rng, p_ws) + b'"' + k + b'"' + ws(rng, p_ws) + b":" + ws(rng, p_ws) + gen_json(rng, depth + 1, maxdepth, p_ws) + ws(rng, p_ws) for k in keys]
    if not items:
        return b"{" + ws(rng, p_ws) + b"}"
    return b"{" + b",".join(items) + b"}"


def gen_json_doc(rng, maxdepth=5):
    p_ws = rng.choice([0.0, 0.1, 0.3, 0.5])
    return ws(rng, p_ws) + gen_json(rng, 0, maxdepth, p_ws) + ws(rng, p_ws)


def gen_deep(rng, d):
    """nesting exactly d around a scalar, arrays and objects mixed"""
    pre, post = b"", b""
    for _ in range(d):
        if rng.random() < 0.6:
            pre += b"["
            post = b"]" + post
        else:
            pre += b'{"k":'
            post = b"}" + post
    return pre + rng.choice([b"1", b'"x"', b"null", b"[]", b"{}", b"-1.5e3"]) + post


def gen_ident(rng):
    return bytes([rng.choice(b"abcXYZ_$")]) + bytes(rng.choice(b"abcXYZ019_") for _ in range(rng.randrange(0, 5)))


def gen_comment(rng):
    r = rng.random()
    if r < 0.5:
        return b"//" + bytes(rng.choice(b"ab /*\"{}[]1") for _ in range(rng.randrange(0, 6))) + rng.choice([b"\n", b"\r"])
    return b"/*" + bytes(rng.choice(b"ab /\n\"{}[]1") for _ in range(rng.randrange(0, 6))) + rng.choice([b"*/", b" */", b"x*/"])


def gen_block_body(rng):
    """a text of the grammar XdlCmt.BlockBody (lean/AslProofs/XdlComment.lean): bytes other than '*', or '*' together with the next byte when
    that byte is not '/' (so '**' is one unit and '/***/' is not produced); written from the grammar, not by running a filter"""
    out = b""
    for _ in range(rng.choice([0, 0, 1, 2, 3, 5, 9])):
        if rng.random() < 0.4:
            out += b"*" + bytes([rng.choice(b"* ax\n\"{}[]1,=:\\\x80\xff\t\r")])
        else:
            out += bytes([rng.choice(b"/ ax\n\"{}[]1,=:/\\\x80\xff\t\r/")])
    return out


def gen_line_body(rng):
    return bytes(rng.choice(b"/* ax\"{}[]1,=:\\\x80\xff\t*/") for _ in range(rng.choice([0, 0, 1, 2, 3, 5, 9])))


def gen_tokens(rng, depth=0):
    """token list of a small JSON/XDL value; quoted strings / quoted names are single tokens (no comment is put inside them)"""
    r = rng.random()
    if depth >= 3:
        r *= 0.5
    if r < 0.2:
        return [gen_num_lex(rng)]
    if r < 0.3:
        return [rng.choice([b"true", b"false", b"null", b"Y", b"N"])]
    if r < 0.5:
        return [rng.choice([b'"a"', b'""', b'"/*x*/"', b'"//"', b'"a\\"b"', b'"*/"', b'"\\u0041/"'])]
    if r < 0.75:
        toks = [b"["]
        for i in range(rng.choice([0, 1, 2, 3])):
            toks += ([rng.choice([b",", b"\n", b", "])] if i else []) + gen_tokens(rng, depth + 1)
        return toks + [b"]"]
    toks = ([gen_ident(rng)] if rng.random() < 0.3 else []) + [b"{"]
    for i in range(rng.choice([0, 1, 2, 3])):
        key = gen_ident(rng) if rng.random() < 0.5 else rng.choice([b'"k"', b'"a/b"', b'"/*"', b'""'])
        eq = rng.choice([b"=", b":"]) if key[:1] == b'"' else b"="
        toks += ([rng.choice([b",", b"\n", b", "])] if i else []) + [key, eq] + gen_tokens(rng, depth + 1)
    return toks + [b"}"]


def gen_comment_pair(rng):
    """(text with comments, the text block_comment_transparent / line_comment_transparent say it decodes like): comments of the grammar
    between tokens, before and after the document and INSIDE numbers / identifiers / unquoted names (never inside a quoted token)"""
    toks = gen_tokens(rng)
    pieces = []
    for t in toks:
        if t[:1] != b'"' and len(t) > 1 and rng.random() < 0.25:
            k = rng.randrange(1, len(t))
            pieces += [t[:k], t[k:]]
        else:
            pieces.append(t)
    w, wo = b"", b""
    for i, t in enumerate([b""] + pieces):
        w += t
        wo += t
        if rng.random() < (0.35 if len(pieces) < 12 else 0.12) or (i == 0 and rng.random() < 0.3):
            if rng.random() < 0.6:
                w += b"/*" + gen_block_body(rng) + b"*/"
            else:
                nl = rng.choice([b"\n", b"\r"])
                w += b"//" + gen_line_body(rng) + nl
                wo += nl
    return w, wo


def gen_unclosed_comment(rng):
    """a text that ends inside a block comment of the grammar (unclosed_block_comment_rejected): must be invalid"""
    toks = gen_tokens(rng)
    k = rng.randrange(len(toks) + 1)
    return b"".join(toks[:k]) + b"/*" + gen_block_body(rng)


def gen_lone_slash(rng):
    """a '/' between tokens (or inside an unquoted one) followed by a byte other than '/' '*' NUL (lone_slash_rejected): must be invalid"""
    toks = gen_tokens(rng)
    k = rng.randrange(len(toks) + 1)
    return b"".join(toks[:k]) + b"/" + bytes([rng.choice(b" x1\n\",]}=:\\\x80\xff\t")]) + b"".join(toks[k:])


# texts around the closing rule of block comments (a '*' takes the next byte with it): closed / not closed
STAR_COMMENTS = [b"[1]/**/", b"[1]/***/", b"[1]/****/", b"[1]/*****/", b"[1]/* **/", b"[1]/* * */", b"[1]/* ***/", b"/***/[1]", b"/****/[1]", b"[1/***/,2]/**/",
                 b"[1/***/ /**/,2]", b"[1/**/,2]", b"[1,/*/*/2]", b"[1,/*/2]", b"[1,/**//**/2]", b"[1,//**/\n2]", b"[1,/*//*/2]", b"[1/", b"[1/ /", b"[1]/", b"[1]//", b"[1]/*",
                 b"[1]/**", b"[1]/* */ /", b"[1/2]", b"{a/b=1}", b"[1]/x", b"{a/*x*/b=1}", b"{ab/**/=1}", b"[12/*x*/3]", b"[1./**/5]", b"[tr/**/ue]", b"[\"a\"/**/]", b"[\"a/**/\"]", b"{\"a\"/**/:1}"]


def gen_xdl(rng, depth=0, maxdepth=4):
    """XDL flavoured text: bare identifiers, name=value, Y/N, class names, newline separators, comments"""
    r = rng.random()
    if depth >= maxdepth:
        r *= 0.55
    c = gen_comment(rng) if rng.random() < 0.08 else b""
    if r < 0.12:
        return c + rng.choice([b"Y", b"N", b"true", b"false", b"null"])
    if r < 0.35:
        return c + gen_num_lex(rng)
    if r < 0.55:
        return c + b'"' + gen_str_body(rng, 6) + b'"'
    sep = lambda: rng.choice([b",", b"\n", b", ", b" ,\n", b"\n\n", b",\n"])
    if r < 0.75:
        n = rng.choice([0, 1, 2, 3])
        body = b""
        for i in range(n):
            body += (sep() if i else b"") + gen_xdl(rng, depth + 1, maxdepth)
        return c + b"[" + body + rng.choice([b"", b",", b"\n", b" "]) + b"]"
    n = rng.choice([0, 1, 2, 3])
    body = b""
    for i in range(n):
        k = gen_ident(rng) if rng.random() < 0.7 else b'"' + gen_str_body(rng, 4) + b'"'
        eq = rng.choice([b"=", b" = ", b":", b" : ", b"= "]) if k[:1] == b'"' else rng.choice([b"=", b" = ", b" :", b" =\n"])
        body += (sep() if i else b"") + k + eq + gen_xdl(rng, depth + 1, maxdepth)
    cls = (gen_ident(rng) + rng.choice([b"", b" ", b"\n"])) if rng.random() < 0.4 else b""
    return c + cls + b"{" + body + rng.choice([b"", b",", b"\n", b" "]) + b"}"


BOUNDARY = b"{}[]\"\\/*,:=-.eE09unt Y$\n\r\t\x01\x1f\x7f\x80\xff+xa_<>#'"
# spellings, inside a quoted string, of every byte the decoder (or the encoder of C05) treats specially: escapes, the comment openers
# '/' '*' '#', markup bytes, structure bytes, separators, white space raw and escaped, control bytes, DEL, UTF-8 raw and as \\u
STRING_UNITS = [b'\\"', b"\\\\", b"/", b"\\/", b"<", b">", b"*", b"#", b"{", b"}", b"[", b"]", b",", b":", b"=", b"'", b"\\n", b"\\t", b"\\r", b"\\b", b"\\f",
                b"\n", b"\t", b"\\u0001", b"\x01", b"\\u002f", b"\\u003c", b" ", b"\x7f", b"n", b"u", b"$", b"-", b"\xc3\xa9", b"\\u00e9", b"\xf0\x9f\x98\x80", b"\x80"]
COMMENTISH = [b"//", b"/*", b"*/", b"/* */", b"</", b"<\\/", b"<\\/*y*/", b"x<\\/*y*/nz", b"x</*y*/nz", b"<b>bold<\\/b>", b"<b>bold</b>", b"<\\/script>", b"\\//", b"\\/\\/",
              b"\\/*", b"\\/*y*/n", b"\\/\\n", b"a//b\\nc", b"#c", b"\\/#", b"<!-- -->", b"http:\\/\\/a\\/b", b"\\u002f\\u002f", b"\\\\/", b"\\\\//", b"\\\\\\/"]


def mutate(rng, t, other):
    r = rng.random()
    n = len(t)
    if n == 0:
        return bytes([rng.choice(BOUNDARY)])
    if r < 0.2:       # deletion
        i = rng.randrange(n)
        j = min(n, i + rng.choice([1, 1, 1, 2, 5]))
        return t[:i] + t[j:]
    if r < 0.4:       # duplication
        i = rng.randrange(n)
        j = min(n, i + rng.choice([1, 1, 2, 5, 10]))
        return t[:j] + t[i:j] + t[j:]
    if r < 0.55:      # splice
        i = rng.randrange(n + 1)
        j = rng.randrange(len(other) + 1)
        return t[:i] + other[j:]
    if r < 0.75:      # byte flip
        b = bytearray(t)
        for _ in range(rng.choice([1, 1, 2, 4])):
            i = rng.randrange(n)
            b[i] ^= 1 << rng.randrange(8)
        return bytes(b)
    if r < 0.9:       # insertion of a boundary byte
        i = rng.randrange(n + 1)
        return t[:i] + bytes([rng.choice(BOUNDARY)]) + t[i:]
    i = rng.randrange(n)  # replacement
    return t[:i] + bytes([rng.choice(BOUNDARY)]) + t[i + 1:]


def ops_for(rng, t, all_cuts_upto, nprefix, xdl=False):
    """the op lines of one text"""
    h = hexs(t)
    ops = [("xdec " if xdl else "dec ") + h]
    n = len(t)
    if n == 0:
        return ops + ["chunks - 0"]
    if n <= all_cuts_upto:
        for k in range(0, n + 1):
            ops.append("chunks %s %d" % (h, k))
    else:
        for _ in range(4):
            ops.append("chunks %s %d" % (h, rng.randrange(n + 1)))
    for _ in range(3):
        k = rng.choice([2, 3, 5, 8])
        ops.append("chunks %s %s" % (h, " ".join(str(rng.randrange(n + 1)) for _ in range(k))))
    if nprefix >= n:
        ps = range(0, n + 1)
    else:
        ps = sorted(set([n - 1, n - 2] + [rng.randrange(n + 1) for _ in range(nprefix)]))
    for k in ps:
        if 0 <= k <= n:
            ops.append("prefix %s %d" % (h, k))
    return ops


def feed_case(rng, t):
    """stateful form: the same parser fed piecewise (each line can be deleted by the shrinker)"""
    n = len(t)
    k = rng.choice([1, 2, 3, 6])
    cuts = sorted(rng.randrange(n + 1) for _ in range(k))
    pos = 0
    ops = []
    for c in cuts + [n]:
        ops.append("feed " + hexs(t[pos:c]))
        pos = c
    ops.append("end")
    if rng.random() < 0.3:
        ops += ["reset", "feed " + hexs(t), "end"]
    return ops


def int_literals(rng):
    """integer literals of every length 1..25 with dense coverage of the conversion boundaries (deterministic part + a few random)"""
    vals = set()
    for k in range(0, 26):
        p = 10 ** k
        for d in (-2, -1, 0, 1, 2):
            vals.add(p + d)
        vals.add(10 ** (k + 1) - 1)                      # all nines
        for lead in range(1, 10):
            vals.add(lead * p)
            vals.add(lead * p + rng.randrange(p) if p > 1 else lead)
    for e in (31, 32, 52, 53, 54, 62, 63, 64, 65, 80):
        p = 2 ** e
        for d in (-3, -2, -1, 0, 1, 2, 3, 1 << max(0, e - 54), -(1 << max(0, e - 54)), 1023, 1024, 1025):
            vals.add(p + d)
    for L in range(1, 26):
        vals.add(rng.randrange(10 ** (L - 1), 10 ** L))
    vals |= {9223372036854775807, 9223372036854775808, 9223372036854775809, 9876543210987654321, 9999999999999999999, 10000000000000000000,
             18446744073709551615, 18446744073709551616, 4294967295, 4294967296, 2147483647, 2147483648, 9007199254740993, 9007199254740995}
    out = []
    for v in sorted(x for x in vals if x >= 0):
        out.append(str(v).encode())
        if v > 0:
            out.append(b"-" + str(v).encode())
    return out


def int_literal_cases(rng, quick):
    cases = []
    lits = int_literals(rng)
    sfx = [b".0", b".5", b"e0", b"E+2", b"e-3", b".25e1"]
    for i, lit in enumerate(lits):
        h = hexs(lit)
        ops = ["dec " + h, "dec " + hexs(b"[" + lit + b"]"), "dec " + hexs(b'{"id":' + lit + b"}"),
               "dec " + hexs(b" [1, " + lit + b" ,2]\n"), "xdec " + hexs(b"{id=" + lit + b"}")]
        for k in range(0, len(lit) + 1):                   # the chunked parser cut at every byte
            ops.append("chunks %s %d" % (h, k))
        arr = b"[" + lit + b"]"
        for k in (1, len(arr) // 2, len(arr) - 1):
            ops.append("chunks %s %d" % (hexs(arr), k))
        s1 = sfx[i % len(sfx)]
        s2 = sfx[(i // len(sfx)) % len(sfx)]
        ops.append("dec " + hexs(lit + s1))
        ops.append("dec " + hexs(b"[" + lit + s2 + b"]"))
        ops.append("chunks %s %d" % (hexs(lit + s1), len(lit)))
        cases.append(ops)
    return cases


def gen(rng, tier):
    quick = tier == "quick"
    cases = int_literal_cases(rng, quick)
    N = 1 if quick else 120
    allcuts = 48 if quick else 300
    # (a) grammar-generated JSON and XDL documents
    docs = []
    for i in range(900 * N):
        t = gen_json_doc(rng, rng.choice([1, 2, 3, 5, 7]))
        if len(t) > 4000:
            continue
        docs.append(t)
        cases.append(ops_for(rng, t, allcuts, 12 if len(t) > 40 else 40))
    for t in [b"0", b"-0", b"[]", b"{}", b'""', b" [ ] ", b'{"a/b":1}', b'{"x//y":1}', b'["\\u0041\\/"]', b"[1\n,2]", b"[1\n]", b'{"a":1\n}', b'{"a":1\n,"b":2}',
              b"2.5e3", b"1E5", b"-1.50e2", b"9007199254740.991e3", b"9007199254740.992e3", b"1.0E+1", b"12.5e+1", b"120e-1", b"0.5e1", b"-0.0e5", b"[2.5e3,1E15,1e16]",
              b"123456789", b"1234567890", b"-12345678", b"-123456789", b'"\\ud83d\\ude00"', b'{"":0}', b'{"a":{"a":{}}}', b"[[[[]]]]"]:
        docs.append(t)
        cases.append(ops_for(rng, t, 300, 300))
    # all ordered pairs of string units (the meaning of a byte may depend on its neighbour: "\\/" then '*', "</", "//", backslash then
    # quote ...) as string value and as key, JSON and XDL entry points; comment-/markup-like texts inside strings and keys
    for a in STRING_UNITS:
        for b in STRING_UNITS:
            v = b'"' + a + b + b'"'
            cases.append(["dec " + hexs(v), "xdec " + hexs(b"[" + v + b"]"), "dec " + hexs(b'{"x' + a + b + b'y":' + v + b"}")])
    for c in COMMENTISH:
        v = b'"' + c + b'"'
        t = b'{"' + c + b'":[' + v + b',"a' + c + b'z"]}'
        docs.append(t)
        cases.append(ops_for(rng, t, 300, 300))
        cases.append(ops_for(rng, b"{" + v + b"=" + v + b"}", allcuts, 10, xdl=True))
    for d in ([1, 2, 31, 100, 511, 512] if quick else [1, 2, 3, 31, 64, 100, 255, 256, 400, 511, 512, 513, 999, 1000, 1001, 1002, 3000]):
        t = gen_deep(rng, d)
        docs.append(t)
        cases.append(ops_for(rng, t, 0, 6))
    # the nesting limit (XDL_MAX_DEPTH) and far beyond it
    for d in ([512, 999, 1000, 1001, 5000, 150000] if quick else [512, 998, 999, 1000, 1001, 1002, 2000, 20000, 150000, 400000, 1000000]):
        a, m, b = rng.choice([(b"[", b"", b"]"), (b'{"k":', b"1", b"}"), (b'[{"a":', b"null", b"}]"), (b" [ ", b"-1.5", b" ]\n")])
        cases.append(["nest %d %s %s %s" % (d, hexs(a), hexs(m), hexs(b))])
    xdocs = []
    for i in range(400 * N):
        t = ws(rng, 0.2) + gen_xdl(rng, 0, rng.choice([1, 2, 3, 4])) + rng.choice([b"", b"\n", b" ", b" //c", b" //c\n", b"/*c*/"])
        xdocs.append(t)
        cases.append(ops_for(rng, t, allcuts, 10, xdl=True))
    # XDL comments of the grammar of block_comment_transparent / line_comment_transparent, and the text the theorems say they decode like
    for i in range(250 * N):
        w, wo = gen_comment_pair(rng)
        xdocs.append(w)
        cases.append(ops_for(rng, w, allcuts, 6, xdl=True) + ["xdec " + hexs(wo), "dec " + hexs(w)])
    for i in range(60 * N):
        t = gen_unclosed_comment(rng)
        xdocs.append(t)
        cases.append(ops_for(rng, t, allcuts, 4, xdl=True))
    for i in range(40 * N):
        t = gen_lone_slash(rng)
        xdocs.append(t)
        cases.append(ops_for(rng, t, allcuts, 4, xdl=True))
    for t in STAR_COMMENTS:
        xdocs.append(t)
        cases.append(ops_for(rng, t, 300, 300, xdl=True))
    # (b) mutations
    pool = docs + xdocs
    for i in range(1200 * N):
        t = rng.choice(pool)
        if len(t) > 600:
            continue
        for _ in range(rng.choice([1, 1, 2, 3])):
            t = mutate(rng, t, rng.choice(pool)[:300])
        if rng.random() < 0.25:
            cases.append(feed_case(rng, t))
        else:
            cases.append(ops_for(rng, t, allcuts if quick else 120, 6))
    # (c) raw bytes and the boundary alphabet
    for i in range(500 * N):
        n = rng.randrange(0, 40)
        if rng.random() < 0.4:
            t = bytes(rng.getrandbits(8) for _ in range(n))
        else:
            t = bytes(rng.choice(BOUNDARY) for _ in range(n))
        cases.append(ops_for(rng, t, allcuts, 4))
    # \u accumulator with arbitrary (non-hex) bytes: ties strtoul16/utf16toUtf8 to libc
    for i in range(300 * N):
        parts = b""
        for _ in range(rng.choice([1, 1, 2, 3])):
            parts += b"\\u" + bytes(rng.choice(b"0123456789abcdefABCDEF" * 3 + b" +-xX\t\ngz\x7f\x80/\"\\") for _ in range(4))
        t = rng.choice([b'"', b'["a', b'{"']) + parts + rng.choice([b'"', b'x"', b'":1}', b'"]'])
        cases.append(ops_for(rng, t, allcuts, 3))
    # long documents (buffer growth, many siblings)
    for n in ([2000, 20000] if quick else [2000, 20000, 200000, 1000000]):
        t = b"[" + b",".join(gen_json(rng, 3, 5, 0.1) for _ in range(n // 12)) + b"]"
        cases.append(["dec " + hexs(t), "chunks %s %d %d %d" % (hexs(t), rng.randrange(len(t)), rng.randrange(len(t)), rng.randrange(len(t)))])
        s = b'"' + bytes(rng.choice(b"abc\xc3\xa9 /") for _ in range(n)) + b'"'
        cases.append(["dec " + hexs(s)])
    return cases


def nontrivial(case):
    return any(len(l.split()) > 1 and l.split()[1] != "-" for l in case)


# ----------------------------------------------------------------------------- independent reference (python3 json)

class _NoOpinion(Exception):
    pass


def _bits(x):
    return "d%016x" % struct.unpack("<Q", struct.pack("<d", x))[0]


class _Int:
    """integer lexeme as seen by the decoder: <= 9 characters -> int, otherwise atof"""
    def __init__(self, lex):
        self.lex = lex


def _pairs(ps):
    d = {}
    for k, v in ps:
        d[k] = v
    return ("obj", d)


def _const(s):
    raise ValueError("NaN/Infinity are not JSON")


def py_loads(text):
    """strict RFC 8259 parse; raises ValueError if not a JSON text"""
    s = text.decode("utf-8")          # UnicodeDecodeError is a ValueError
    return json.loads(s, parse_int=_Int, parse_float=lambda x: ("flt", x), parse_constant=_const, object_pairs_hook=_pairs)


def py_dump(v, depth=0):
    if depth > 512:
        raise _NoOpinion()
    if v is None:
        return "n"
    if v is True:
        return "t"
    if v is False:
        return "f"
    if isinstance(v, _Int):
        if len(v.lex) <= 9:
            return "i%d" % int(v.lex)
        return _bits(float(v.lex))
    if isinstance(v, tuple) and v[0] == "flt":
        return _bits(float(v[1]))
    if isinstance(v, str):
        if "\x00" in v or any(0xd800 <= ord(c) <= 0xdfff for c in v):
            raise _NoOpinion()
        return "s" + hexs(v.encode("utf-8"))
    if isinstance(v, list):
        return "[" + ",".join(py_dump(x, depth + 1) for x in v) + "]"
    if isinstance(v, tuple) and v[0] == "obj":
        ms = []
        for k, x in v[1].items():
            if "\x00" in k or any(0xd800 <= ord(c) <= 0xdfff for c in k):
                raise _NoOpinion()
            ms.append((hexs(k.encode("utf-8")), py_dump(x, depth + 1)))
        ms.sort()
        return "{" + ",".join(a + ":" + b for a, b in ms) + "}"
    raise _NoOpinion()


def out_of_scope_escapes(text):
    """True if a string literal of the (valid) JSON text contains a \\u0000 escape or a lone surrogate escape — also in
    members that a later duplicate key overwrites, which the decoded value no longer shows"""
    i, n = 0, len(text)
    instr = False
    pend = False          # a high surrogate waits for its low half
    while i < n:
        c = text[i]
        if not instr:
            if c == 0x22:
                instr = True
                pend = False
            i += 1
            continue
        if c == 0x22:
            if pend:
                return True
            instr = False
            i += 1
            continue
        if c == 0x5C and i + 1 < n:
            if text[i + 1] in b"uU" and i + 5 < n + 1:
                try:
                    cu = int(text[i + 2:i + 6], 16)
                except ValueError:
                    return True
                if cu == 0:
                    return True
                if 0xDC00 <= cu <= 0xDFFF:
                    if not pend:
                        return True
                    pend = False
                elif 0xD800 <= cu <= 0xDBFF:
                    if pend:
                        return True
                    pend = True
                else:
                    if pend:
                        return True
                i += 6
                continue
            if pend:
                return True
            i += 2
            continue
        if pend:
            return True
        i += 1
    return False


def py_expect(text):
    """canonical dump python's strict parser assigns to `text`, or None (not RFC JSON / outside the property's scope)"""
    if 0 in text:
        return None
    try:
        v = py_loads(text)
        if out_of_scope_escapes(text):
            return None
        return v, py_dump(v)
    except (ValueError, _NoOpinion, RecursionError):
        return None


REFERENCE_NAME = "python3 json (strict RFC 8259: parse_constant rejected, strict UTF-8, duplicate keys -> last)"


def reference(line):
    t = line.split()
    try:
        if t[0] in ("dec", "xdec") and len(t) == 2:
            x = unhex(t[1])
            if t[0] == "xdec" and x[:4] == b"{id=" and x[-1:] == b"}":
                # XDL member holding a JSON number literal: the same number as the JSON literal
                r = py_expect(x[4:-1])
                return "{6964:%s}" % r[1] if r and r[1][0] in "id" else None
            r = py_expect(x)
            return r[1] if r else None
        if t[0] == "prefix" and len(t) == 3:
            text = unhex(t[1])
            r = py_expect(text)
            if not r:
                return None
            k = int(t[2]) % (len(text) + 1)
            body = text.rstrip(WS)
            if k >= len(body):
                return r[1]                      # only trailing white space removed
            v = r[0]
            if isinstance(v, (list, str)) or (isinstance(v, tuple) and v[0] == "obj"):
                return "none"                    # stops before the final closing character
            return None
        if t[0] == "nest" and len(t) == 5:
            n = int(t[1])
            if n > 600:
                return None
            r = py_expect(unhex(t[2]) * n + unhex(t[3]) + unhex(t[4]) * n)
            return r[1] if r else None
        if t[0] == "chunks" and len(t) >= 2:
            return None                          # judged by chunk_oracle (needs the flags)
    except Exception:
        return None
    return None


def chunk_violation(case, impl):
    """chunk independence judged on the implementation alone: a `chunks` dump must equal the `dec` dump of the same NUL-free text"""
    whole = {}
    for l, o in zip(case, impl):
        t = l.split()
        if t[0] in ("dec", "xdec") and len(t) == 2:
            whole[t[1]] = o
    for l, o in zip(case, impl):
        t = l.split()
        if t[0] == "chunks" and len(t) >= 2 and t[1] in whole and "00" not in [t[1][i:i + 2] for i in range(0, len(t[1]), 2)]:
            if " " in o and o.split(" ", 1)[1] != whole[t[1]]:
                return "chunked feeding %r gives %s, whole text gives %s" % (l[:120], o[:80], whole[t[1]][:80])
    return None


def oracle(case, impl, model, crash):
    if crash:
        return True, "memory error / abnormal termination while decoding: %s" % crash
    body = impl[1:] if impl and impl[0] == "case" else impl
    for l, o in zip(case, body):
        exp = reference(l)
        if exp is not None and o != exp:
            return True, "RFC 8259 conformance: python3 json gives %s, the decoder gives %s for %s" % (exp[:80], o[:80], l[:120])
        t = l.split()
        if t[0] == "chunks" and len(t) >= 2 and " " in o:
            r = py_expect(unhex(t[1]))
            if r and o.split(" ", 1)[1] != r[1]:
                return True, "RFC 8259 conformance (chunked feeding): python3 json gives %s, the parser gives %s for %s" % (r[1][:80], o[:80], l[:120])
    cv = chunk_violation(case, body)
    if cv:
        return True, "chunk independence: " + cv
    return False, ("model and implementation differ on a text the property does not constrain (malformed or XDL-only syntax); "
                   "the model is no longer a description of the code, so parse_safe/chunk_indep no longer apply to it")


def simplify_line(line):
    """smaller candidates for one op line (used by the shrinker): drop halves / single bytes of the text"""
    t = line.split()
    if len(t) < 2 or t[0] not in ("dec", "xdec", "prefix", "chunks", "feed") or t[1] == "-":
        return
    b = unhex(t[1])
    n = len(b)
    cands = []
    if n > 1:
        cands += [b[:n // 2], b[n // 2:], b[:n - 1], b[1:]]
    if n > 8:
        q = n // 4
        cands += [b[:q] + b[2 * q:], b[:2 * q] + b[3 * q:], b[q:], b[:3 * q]]
    for c in cands:
        yield " ".join([t[0], hexs(c)] + t[2:])


def extra(ctx):
    """chunk independence on the implementation alone over a sample of the generated cases"""
    import random
    from lib.engine import Failure, flatten
    rng = random.Random(ctx["seed"] * 7919 + 6)
    cases = gen(rng, "quick")[:1500]
    lines, starts = flatten(cases)
    impl, crash, err = core.run_impl(ctx["exe"], lines, timeout=600)
    fails = []
    checked = 0
    for i, c in enumerate(cases):
        s = starts[i] + 1
        out = impl[s:s + len(c)]
        if len(out) < len(c):
            break
        checked += sum(1 for l in c if l.startswith("chunks"))
        cv = chunk_violation(c, out)
        if cv and len(fails) < 2:
            f = Failure("diverge", c, ["case"] + out, [], clause="chunk independence (implementation alone): " + cv, name="chunk_indep oracle")
            fails.append(f)
    ctx["stats"]["chunk_feeds_checked_on_impl_alone"] = checked
    # comment transparency judged on the implementation alone: the text with comments must decode to what the text without them decodes to
    pairs = [gen_comment_pair(rng) for _ in range(1500)]
    plines = []
    for w, wo in pairs:
        plines += ["xdec " + hexs(w), "xdec " + hexs(wo)]
    pout, pcrash, perr = core.run_impl(ctx["exe"], plines, timeout=600)
    bad = 0
    for i in range(0, min(len(pout), len(plines)) - 1, 2):
        if pout[i] != pout[i + 1]:
            bad += 1
            if len(fails) < 3:
                fails.append(Failure("diverge", plines[i:i + 2], pout[i:i + 2], [], clause="comment transparency (implementation alone): with comments %s, without %s"
                                     % (pout[i][:80], pout[i + 1][:80]), name="comment_transparent oracle"))
    if pcrash and len(fails) < 3:
        fails.append(Failure("crash", plines[:2], [], [], crash=pcrash, clause="memory error while decoding commented texts: %s" % pcrash, name="comment_transparent oracle"))
    ulines = ["xdec " + hexs(gen_unclosed_comment(rng)) for _ in range(500)]
    uout, ucrash, uerr = core.run_impl(ctx["exe"], ulines, timeout=600)
    for l, o in zip(ulines, uout):
        if o != "none" and len(fails) < 3:
            fails.append(Failure("diverge", [l], [o], [], clause="a text ending inside a block comment was accepted (implementation alone): %s" % o[:80],
                                 name="unclosed_block_comment_rejected oracle"))
    ctx["stats"]["unclosed_comments_checked_on_impl_alone"] = len(uout)
    slines = ["xdec " + hexs(gen_lone_slash(rng)) for _ in range(500)]
    sout, scrash, serr = core.run_impl(ctx["exe"], slines, timeout=600)
    for l, o in zip(slines, sout):
        if o != "none" and len(fails) < 3:
            fails.append(Failure("diverge", [l], [o], [], clause="a text with a lone '/' outside strings was accepted (implementation alone): %s" % o[:80],
                                 name="lone_slash_rejected oracle"))
    ctx["stats"]["lone_slashes_checked_on_impl_alone"] = len(sout)
    ctx["stats"]["comment_pairs_checked_on_impl_alone"] = min(len(pout), len(plines)) // 2
    ctx["stats"]["comment_pairs_valid"] = sum(1 for i in range(0, min(len(pout), len(plines)) - 1, 2) if pout[i] != "none")
    return fails


def model_states(texts):
    """which parser states the model visits on these texts (evidence only)"""
    lines = ["states " + hexs(t) for t in texts]
    try:
        out = core.run_model(DRIVER, lines)
    except Exception:
        return {}
    d = {}
    for o in out:
        for s in o.split():
            d[s] = d.get(s, 0) + 1
    return d


def distribution(cases):
    ops = {}
    sizes = {"0": 0, "1-15": 0, "16-63": 0, "64-299": 0, "300-3999": 0, ">=4000": 0}
    verdict = {"rfc_valid": 0, "not_rfc": 0, "has_nul": 0}
    depth = {}
    texts = []
    seen = set()
    for c in cases:
        for l in c:
            t = l.split()
            ops[t[0]] = ops.get(t[0], 0) + 1
        t = c[0].split()
        if len(t) == 2 and t[0] in ("dec", "xdec", "feed") and t[1] not in seen:
            seen.add(t[1])
            b = unhex(t[1])
            n = len(b)
            sizes["0" if n == 0 else "1-15" if n < 16 else "16-63" if n < 64 else "64-299" if n < 300 else "300-3999" if n < 4000 else ">=4000"] += 1
            if 0 in b:
                verdict["has_nul"] += 1
            elif py_expect(b):
                verdict["rfc_valid"] += 1
            else:
                verdict["not_rfc"] += 1
            d = 0
            m = 0
            for ch in b[:5000]:
                if ch in b"[{":
                    d += 1
                    m = max(m, d)
                elif ch in b"]}":
                    d -= 1
            key = "0" if m == 0 else "1-3" if m < 4 else "4-15" if m < 16 else "16-511" if m < 512 else ">=512"
            depth[key] = depth.get(key, 0) + 1
            if len(texts) < 4000:
                texts.append(b)
    return {"ops_by_kind": ops, "text_sizes": sizes, "python_verdict": verdict, "bracket_depth": depth,
            "model_states_visited(texts)": model_states(texts)}


EXHAUSTIVE = {"quick": "all 2-chunk cuts of every text of <= 48 bytes; every prefix of the listed seed documents",
              "thorough": "all 2-chunk cuts of every text of <= 300 bytes (<= 120 for mutants); every prefix of the listed seed documents"}

LEVEL_TEXT = ("Proved in Lean 4, for ALL byte strings / chunkings / documents, about the executable model of XdlParser "
              "(lean/AslModel/Xdl.lean: the comment filter, the 21-state switch with its one-byte push-back, ERR by return vs break, "
              "value_end/put/begin/end callbacks, the \\u accumulator with strtoul and utf16toUtf8, the XDL_MAX_DEPTH check, value(), decode()): "
              "parse_safe/step_safe/decode_total/value_reads_in_bounds (no Stack::top()/pop() on an empty stack, no String index past the "
              "terminator, no byte dispatched more than twice, on every input in every chunking); unicode_buffers_fit (the stack buffers ch[8], ch[9] and "
              "unicode[5] of state UNICODECHAR - sizes regenerated from the source on every run - hold what utf16toUtf8/memcpy write, terminator "
              "included, for EVERY value of the code units, not only those four hex digits can spell); chunk_indep/chunk_indep_poll (any partition of a "
              "NUL-free text gives the same value(), also when polled between chunks); rfc_accept/rfc_accept_chunked (every RFC 8259 text - grammar "
              "written from the RFC as an inductive relation: any white space, every number spelling, every escape incl. \\/ and surrogate pairs, "
              "duplicate keys, nesting <= 1000 - decodes to the value it denotes); int_literal_value (integer literals of EVERY length: at most 9 "
              "characters - the model's state INT uses the N read from `_buffer.length() > N` in the source on every run, so rfc_accept itself "
              "(whose RFC side says 9) stops building when the source's split changes - give the int with exactly the decimal value; longer "
              "ones give the double of atof on the lexeme, which is exactly +-n below 2^53, +-(n rounded to the nearest multiple of its binary64 spacing, "
              "ties to even) from 2^53 to 2^1024, +-infinity above; so the sign is the literal's sign and 9223372036854775808 is 2^63); prefix_reject (every text that stops before the final closing "
              "byte of a top-level array, object or string is rejected, wherever the cut falls; via a frame lemma: a run that does not fault "
              "is unchanged by contexts added below the stack); block_comment_transparent / line_comment_transparent / rfc_accept_after_comment (XDL comments: a "
              "block comment /* b */ with b in the grammar XdlCmt.BlockBody - a byte other than '*', or '*' together with the byte after it unless that byte is '/' - "
              "met after any prefix that leaves the parser outside comments and outside the states STRING/QPROPERTY/ESCAPE, also in the middle of a number or "
              "name, decodes like the text without it; a line comment //...LF|CR decodes like its LF|CR alone; comments_transparent: any number of them, removed in any order (StripsTo); "
              "unclosed_block_comment_rejected: a text ending inside such a comment, e.g. [1]/***/, is invalid; lone_slash_rejected: '/' followed by anything but '/' '*' "
              "there makes the whole text invalid; tied by K on texts of exactly that grammar and, on "
              "the real library alone, by comparing the decode of 1500 commented texts with the decode of the uncommented ones on every run). parse_number_lexeme / scaled_literal_value / frac_exp_literal_decoded (fraction and exponent literals: the decimal read is the one the grammar "
              "denotes; exact double when it is an integer below 2^53 reached with a non-negative net exponent); myatoiz_from_source / myatoiz_no_overflow (the integer conversion of state INT is the function regenerated from "
              "src/String.cpp on every run, and cannot overflow an int on what INT hands to it). The model is tied to the code on every run by the "
              "correspondence check under ASan/UBSan (whole decodes, chunked feeding, prefixes; grammar-generated JSON/XDL, mutations, raw bytes) "
              "and python3 json adjudicates every RFC 8259 document and prefix generated.")
LEVEL_NOTE = ("All four planned theorem groups are proved in full (no _partial). rfc_accept and prefix_reject carry the hypothesis nesting <= 1000 "
              "(the decoder's own limit; the property asks for 512). "
              "int_literal_value states correct rounding on the grid of multiples of 2^(floor(log2 n)-52) with a 53-bit significand; that this grid is the set of "
              "binary64 values around n is the definition of the format, not a separate theorem. Fraction/exponent literals: parse_number_lexeme (for every RFC 8259 "
              "number the atof model reads exactly the sign / mantissa / fraction length / exponent the grammar assigns) and scaled_literal_value (net exponent >= 0 "
              "and mant*10^k < 2^53, e.g. 2.5e3, 1E5: the double is exactly the decimal value) are proved; correct rounding of all other fractions is K + python only "
              "(general correct rounding of Strtod.roundRatio for a denominator 10^k is not formalised). "
              "myatoiz itself (src/String.cpp) is now regenerated (G): translate() reads its sign characters, multiplier and '0' into Gen.Xdl.myatoiz and refuses any other "
              "shape; myatoiz_from_source proves the model's hand-written myatoiz equal to it, myatoiz_no_overflow that every intermediate y stays in [0, 2^31) for "
              "[-]digits of at most intSplit characters (no signed overflow). Bytes >= 0x80 (negative chars) are not modelled there: state INT stores '-' and digits only. "
              "XDL-only syntax: comments now have a grammar and transparency theorems (block_comment_transparent, line_comment_transparent); unquoted names, "
              "Class{...}, Y/N are proved only for encoder output (C05 xdl_decode_encode*); free-form XDL separators (newline instead of comma, '=' vs ':') have "
              "no independent grammar: parse_safe/chunk_indep and K only. The filter closes a block comment only at a '*/' whose '*' is not the second byte "
              "of a '*x' unit: /***/ and /** a **/ stay open (document rejected); outside the property text, recorded in known_findings.txt. Hypotheses carried by K rather than proved: glibc atof = correctly rounded (AslModel/Strtod.lean), "
              "strtoul on the 4-byte \\u accumulator, C locale, Var/String/Array container semantics (C01-C04). "
              "Fixed in /repo while building this check: 88049f3 ('/' in quoted keys), c9789c6 (stack overflow in ~Var on 300000-deep nesting; "
              "decoder now rejects nesting > 1000). Known non-conformances outside the property as worded (documented, K-modelled): "
              "trailing commas, several top-level values (last wins), control characters in quoted keys and \\u escapes with non-hex digits are accepted.")
