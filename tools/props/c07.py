"""C07 — Xml::decode is total and safe, parent links, encode∘decode preserves the tree: plugin for tools/check.py"""
import itertools
import re

from lib.core import hexs, unhex

ID = "C07"
PROPS_MODULE = "AslProps.C07"
DRIVER = "c07"
RULE = ("cases = groups of Xml::decode calls (`dec`) on generated documents (comments, PIs, DOCTYPE with nested <>, XML "
        "declaration, named/decimal/hex references incl. out-of-range ones, both quote kinds, blanks inside tags), on their "
        "detachments (`mut`: a child removed with remove(int)/remove(Xml)/clear()/put(), then everything else released; never through the raw array of children(): known finding raw-children-array), descents (`desc`: `e = e.child(0)` down the first-child chain on the only handle), survivors (`sub`: one node of the decoded tree kept after the tree is released: its parent() must be null, its subtree intact), "
        "mutations (every/random truncation, byte insert/delete/replace, extra/missing/mismatched end tags, </>, unterminated "
        "references), on token soups, random bytes and exhaustive short strings over markup alphabets; plus Xml::encode (`enc`) "
        "and decode(encode(t)) (`rt`) on generated DOM trees up to depth 12 (compact and indented) with & < > quotes, blanks "
        "and bytes >= 0x80 in text and attribute values; documents nested up to 300000 (thorough: 10^6) levels; non-trivial = distinct case with at least one non-empty input")
TRUSTED = ["harness/c07.cpp canonical dump (tag, Map-ordered attributes, children, text, per-child `child.parent() == container`, `result.parent().isnull()`)"]
ASSUMPTIONS = [
    "libc strtoul(s, NULL, 16) on NUL-free strings behaves as AslModel.Xml.strtoul16 (C locale blanks, sign, 0x prefix, "
    "saturation at ULONG_MAX = 2^64-1); exercised by K on generated hex references",
    "signed overflow in myatoi (`10*y + d`, `y*sgn`) wraps modulo 2^32 in the build under test (UB in C++; as compiled by g++ -O1)",
    "`char` is signed (x86-64 Linux ABI): bytes >= 0x80 pass the decoder's name-character tests",
    "String append/assign/compare and Map<String,String> ordering (strcmp) behave as byte lists and a sorted association list "
    "(properties C03, C02); Array/Stack push, pop, index within bounds behave as lists",
    "reference counting of Xml nodes (NodeBase rc) frees every node exactly once, and tearing a tree down needs bounded call-stack "
    "(iterative ~_Xml since fix dede87b, iterative text() since fix f16a8e9): observed by ASan/LSan on every run incl. documents nested 300000 levels, not modelled",
]
TECHNIQUE = ("Lean 4 theorems (invariants over the decoder state machine, structural induction over element trees) about an "
             "executable transcription of Xml::decode / XmlCodec::encode + differential correspondence check under ASan")

WS = b" \t\r\n"


# ------------------------------------------------------------------ character classes (as the decoder tests them)

def name_start_bad(c):
    return (c < 128 and c < 65 and c != 58) or (90 < c < 95) or c == 96 or (122 < c <= 126)


def name_char_bad(c):
    return (c < 128 and c < 45) or c == 47 or (58 < c < 65) or (90 < c < 95) or c == 96 or (122 < c <= 126)


NAME_START = [c for c in range(1, 256) if not name_start_bad(c)]
NAME_CHAR = [c for c in range(1, 256) if not name_char_bad(c)]


def name_ok(n):
    return len(n) > 0 and not name_start_bad(n[0]) and all(not name_char_bad(c) for c in n[1:]) and 0 not in n


# ------------------------------------------------------------------ trees

def rname(rng, plain=False):
    r = rng.random()
    if plain or r < 0.7:
        n = rng.choice(b"abcdefgxyzABC_")
        return bytes([n]) + bytes(rng.choice(b"abcxyz0129-._:") for _ in range(rng.randrange(0, 4)))
    if r < 0.85:   # valid XML names with non-ASCII letters (UTF-8)
        return rng.choice(["é", "ñandú", "Ωmega", "a·b", "日本"]).encode() + bytes(rng.choice(b"abc019") for _ in range(rng.randrange(0, 2)))
    return bytes([rng.choice(NAME_START)]) + bytes(rng.choice(NAME_CHAR) for _ in range(rng.randrange(0, 5)))


TEXT_POOL = [b"&", b"<", b">", b'"', b"'", b" ", b"\n", b"\t", b"a", b"b", b"z", b"0", b";", b"#", b"&amp;", b"]]>", b"--", b"?>",
             "é".encode(), "€".encode(), "𝄞".encode(), b"\x80", b"\xff", b"\xc3", b"\x7f", b"\x01", b"=", b"/", b"x"]


def rtext(rng, maxn=8):
    r = rng.random()
    if r < 0.08:
        return b""
    if r < 0.2:
        return bytes(rng.choice(WS) for _ in range(rng.randrange(1, 4)))
    if r < 0.5:
        return bytes(rng.choice(b"abc xyz") for _ in range(rng.randrange(1, maxn + 4)))
    if r < 0.6:
        return bytes(rng.randrange(1, 256) for _ in range(rng.randrange(1, maxn + 4)))
    return b"".join(rng.choice(TEXT_POOL) for _ in range(rng.randrange(1, maxn)))


def rattrs(rng, plain=False):
    k = rng.choice([0, 0, 0, 1, 1, 2, 3, 5])
    out = []
    for _ in range(k):
        out.append((rname(rng, plain), rtext(rng, 5)))
    if out and rng.random() < 0.15:       # setAttr twice on the same key: the later value wins
        out.append((out[0][0], rtext(rng, 3)))
    return out


def rtree(rng, depth, sole_text=False, plain=False, fan=4):
    """element with random content; `depth` = levels of elements below this one that are still allowed"""
    tag = rname(rng, plain)
    attrs = rattrs(rng, plain)
    kids = []
    if sole_text:
        if depth == 0 or rng.random() < 0.35:
            kids = [("T", rtext(rng))] if rng.random() < 0.7 else []
        else:
            kids = [rtree(rng, depth - 1, True, plain, fan) for _ in range(rng.randrange(1, fan + 1))]
    else:
        for _ in range(rng.randrange(0, fan + 1)):
            if depth > 0 and rng.random() < 0.55:
                kids.append(rtree(rng, depth - 1, False, plain, fan))
            else:
                kids.append(("T", rtext(rng)))
    return ("E", tag, attrs, kids)


def rchain(rng, depth, sole_text):
    """a tree that reaches exactly `depth` nested elements, with small side branches"""
    t = ("E", rname(rng), rattrs(rng), [("T", rtext(rng))] if rng.random() < 0.6 else [])
    for _ in range(depth - 1):
        kids = [t]
        if rng.random() < 0.5:
            side = rtree(rng, 1, sole_text)
            kids.insert(rng.randrange(0, 2), side)
        if not sole_text and rng.random() < 0.4:
            kids.insert(rng.randrange(0, len(kids) + 1), ("T", rtext(rng)))
        t = ("E", rname(rng), rattrs(rng), kids)
    return t


def tree_depth(t):
    if t[0] == "T":
        return 0
    return 1 + max([tree_depth(c) for c in t[3]] + [0])


def attributed_empty_then_escaped(t):
    """preorder: an element with attributes and no children, later a text node containing one of & < > ' \" """
    seen = [False]

    def walk(x):
        if x[0] == "T":
            return seen[0] and any(c in b"&<>'\"" for c in x[1])
        if x[2] and not x[3]:
            seen[0] = True
            return False
        return any([walk(c) for c in x[3]])   # list: visit every child so that `seen` follows document order
    return walk(t)


def tokens(t):
    if t[0] == "T":
        return ["T", hexs(t[1])]
    out = ["E", hexs(t[1]), str(len(t[2]))]
    for k, v in t[2]:
        out += [hexs(k), hexs(v)]
    out.append(str(len(t[3])))
    for c in t[3]:
        out += tokens(c)
    return out


def parse_tokens(ts, i=0):
    if ts[i] == "T":
        return ("T", unhex(ts[i + 1])), i + 2
    tag = unhex(ts[i + 1])
    na = int(ts[i + 2])
    i += 3
    attrs = []
    for _ in range(na):
        attrs.append((unhex(ts[i]), unhex(ts[i + 1])))
        i += 2
    nc = int(ts[i])
    i += 1
    kids = []
    for _ in range(nc):
        c, i = parse_tokens(ts, i)
        kids.append(c)
    return ("E", tag, attrs, kids), i


# ------------------------------------------------------------------ documents

def esc_fancy(rng, s, quote=None):
    """escape text so that an XML processor reads back exactly `s` (random choice of reference form)"""
    out = bytearray()
    for c in s:
        must = c in b"&<" or (quote is not None and c == quote) or (c == 62 and rng.random() < 0.7)
        if must or (c < 128 and c not in b"\r" and rng.random() < 0.08 and c >= 32):
            names = {38: b"&amp;", 60: b"&lt;", 62: b"&gt;", 39: b"&apos;", 34: b"&quot;"}
            r = rng.random()
            if c in names and r < 0.5:
                out += names[c]
            elif r < 0.75:
                out += b"&#%d;" % c
            else:
                out += (b"&#x%x;" if rng.random() < 0.5 else b"&#x%X;") % c
        else:
            out.append(c)
    return bytes(out)


def rws(rng, p=0.3, atleast=0):
    n = atleast
    while rng.random() < p:
        n += 1
    return bytes(rng.choice(WS) for _ in range(n))


def rcomment(rng):
    body = bytes(rng.choice(b"ab <>&;-x'\"?!/") for _ in range(rng.randrange(0, 8))).replace(b"--", b"-x")
    if body.endswith(b"-"):
        body += b" "
    return b"<!--" + body + b"-->"


def rpi(rng):
    target = bytes([rng.choice(b"abpXY")]) + bytes(rng.choice(b"abc-1") for _ in range(rng.randrange(0, 3)))
    if target.lower() == b"xml":
        target = b"xm"
    data = bytes(rng.choice(b"ab <>&=\"'x") for _ in range(rng.randrange(0, 8)))
    return b"<?" + target + (b" " + data if data else b"") + b"?>"


def rdoctype(rng):
    r = rng.random()
    if r < 0.3:
        return b"<!DOCTYPE r>"
    if r < 0.6:
        return b"<!DOCTYPE r [<!ELEMENT r (a|b)*> <!ELEMENT a (#PCDATA)>]>"
    if r < 0.8:
        return b"<!DOCTYPE r [\n<!ELEMENT r ANY>\n<!ATTLIST r x CDATA #IMPLIED>\n<!-- c -->]>"
    return b"<!DOCTYPE r [<!ENTITY e \"v\"><!ELEMENT r ANY>]>"


def serialize_fancy(rng, t, misc=0.15):
    """well-formed (for names in the XML classes) document text for the tree with random lexical variation"""
    if t[0] == "T":
        return esc_fancy(rng, t[1])
    out = bytearray(b"<" + t[1])
    seen = set()
    for k, v in t[2]:
        if k in seen:
            continue
        seen.add(k)
        q = rng.choice(b"\"'")
        out += rws(rng, 0.2, 1) + k + rws(rng, 0.1) + b"=" + rws(rng, 0.1) + bytes([q]) + esc_fancy(rng, v, q) + bytes([q])
    out += rws(rng, 0.15)
    if not t[3] and rng.random() < 0.7:
        return bytes(out + b"/>")
    out += b">"
    for c in t[3]:
        if rng.random() < misc:
            out += rcomment(rng) if rng.random() < 0.6 else rpi(rng)
        out += serialize_fancy(rng, c, misc)
    if rng.random() < misc:
        out += rcomment(rng)
    out += b"</" + t[1] + rws(rng, 0.05) + b">"
    return bytes(out)


def rdoc(rng, depth=None, plain=True):
    t = rtree(rng, rng.choice([0, 1, 2, 3, 4, 6]) if depth is None else depth, False, plain, 3)
    pre = b""
    r = rng.random()
    if r < 0.35:
        pre += rng.choice([b'<?xml version="1.0"?>', b'<?xml version="1.0" encoding="UTF-8"?>', b"<?xml version='1.0' standalone='yes'?>"])
        pre += rws(rng, 0.5)
    if rng.random() < 0.25:
        pre += rdoctype(rng) + rws(rng, 0.5)
    while rng.random() < 0.2:
        pre += (rcomment(rng) if rng.random() < 0.5 else rpi(rng)) + rws(rng, 0.3)
    post = rws(rng, 0.3)
    while rng.random() < 0.15:
        post += (rcomment(rng) if rng.random() < 0.5 else rpi(rng)) + rws(rng, 0.3)
    return pre + serialize_fancy(rng, t) + post


SPECIALS = [b"<", b">", b"/", b"</", b"/>", b"</>", b"<!--", b"-->", b"--", b"<?", b"?>", b"<!", b"&", b";", b"&#", b"&#x", b"#", b"\"", b"'",
            b"=", b" ", b"\n", b"<a", b"<a>", b"</a>", b"<a/>", b"<!DOCTYPE", b"<![CDATA[", b"]]>", b"<?xml", b"\x00", b"\x80", b"\xff", b"a", b":",
            b"&amp;", b"&lt", b"&#65;", b"&#x41;", b"&#xFFFFFFFF;", b"&#-1;", b"&#0;", b"&#x110000;", b"&#99999999999999999999;",
            b"&#xFFFFFFFFFFFFFFFFF;", b"&#x-5;", b"&#x 41;", b"&#x+0x41;", b"&#2147483648;", b"&#-2147483649;", b"&#x80000000;", b"&;", b"&#;",
            b"&#x;", b"&#xD800;", b"&#1114112;", b"&#256;", b"&#-256;", b"&#2048;", b"&#65536;", b"&#x7ff;", b"&#xffff;", b"&#x10FFFF;"]


def mutate(rng, d):
    r = rng.random()
    if len(d) == 0:
        return rng.choice(SPECIALS)
    i = rng.randrange(0, len(d) + 1)
    if r < 0.2:
        return d[:i]
    if r < 0.4:
        return d[:i] + rng.choice(SPECIALS) + d[i:]
    if r < 0.55:
        j = min(len(d), i + rng.randrange(1, 4))
        return d[:i] + d[j:]
    if r < 0.7:
        j = min(len(d), i + 1)
        return d[:i] + rng.choice(SPECIALS) + d[j:]
    if r < 0.8:
        return d + rng.choice([b"</a>", b"</>", b"</x>", b"<a/>", b"</", b"<", b"&", b"<a"])
    if r < 0.9:   # drop or damage an end tag
        ends = [m.start() for m in re.finditer(rb"</", d)]
        if ends:
            k = rng.choice(ends)
            e = d.find(b">", k)
            e = len(d) if e < 0 else e + 1
            return d[:k] + rng.choice([b"", b"</>", b"</zz>", b"<//>"]) + d[e:]
        return d[:i]
    j = rng.randrange(0, len(d) + 1)
    a, b = min(i, j), max(i, j)
    return d[:b] + d[a:b] + d[b:]


TOKS = [b"<a", b"<b", b"<c:d", b">", b"/>", b"</a>", b"</b>", b"</c:d>", b"</>", b"</", b" ", b"x", b"y=", b"=", b"\"", b"'", b"\"v\"", b"'w'",
        b"<!--", b"-->", b"-", b"<?", b"?>", b"?", b"<!", b"<!DOCTYPE", b"[", b"]", b"&", b"&amp;", b"&#", b";", b"#x41", b"text", b"\n", b"<", b"/",
        b"!", b"p ", b"\x80"]


def dec(d):
    return "dec " + hexs(d)



# ---- ownership histories (op `own`): python mirror of the node graph, used by the generator to keep the graphs acyclic
# (a cycle of counted handles, `a << a`, is a leak by construction of reference counting) and as an independent oracle:
# here a node is alive iff it is reachable from a handle variable (no counts), the model and the code use counts.
class OwnMirror:
    def __init__(self):
        self.kids, self.par, self.var, self.n = {}, {}, [None] * 4, 0

    def reach(self, roots):
        seen, work = set(), [r for r in roots if r is not None]
        while work:
            x = work.pop()
            if x in seen:
                continue
            seen.add(x)
            work.extend(self.kids[x])
        return seen

    def sweep(self):
        alive = self.reach(self.var)
        for x in list(self.kids):
            if x not in alive:
                for c in self.kids[x]:
                    if self.par.get(c) == x:
                        self.par[c] = None
                del self.kids[x]

    def would_cycle(self, o):
        if o[0] not in "ai":
            return False
        p, c = self.var[int(o[1]) % 4], self.var[int(o[2]) % 4]
        return p is not None and c is not None and p in self.reach([c])

    def step(self, o):
        a = [int(ch) for ch in o[1:]] + [0, 0]
        x, w = a[0] % 4, a[1] % 4
        k = o[0]
        if k == "n":
            self.kids[self.n], self.par[self.n] = [], None
            self.var[x] = self.n
            self.n += 1
        elif k == "a":
            p, c = self.var[x], self.var[w]
            if p is not None and c is not None:
                self.kids[p].append(c)
                self.par[c] = p
        elif k == "r":
            p = self.var[x]
            if p is not None and self.kids[p]:
                j = a[1] % len(self.kids[p])
                c = self.kids[p][j]
                if self.par[c] == p:
                    self.par[c] = None
                del self.kids[p][j]
        elif k == "i":
            p, c = self.var[x], self.var[w]
            if p is not None and c is not None and a[2] < len(self.kids[p]):
                self.kids[p].insert(a[2], c)
                self.par[c] = p
        elif k == "e":
            p, e = self.var[x], self.var[w]
            if p is not None and e is not None and e in self.kids[p]:
                self.par[e] = None
                self.kids[p].remove(e)
        elif k == "c":
            p = self.var[x]
            if p is not None:
                for c in self.kids[p]:
                    if self.par[c] == p:
                        self.par[c] = None
                self.kids[p] = []
        elif k == "k":
            p = self.var[w]
            if p is not None and self.kids[p]:
                self.var[x] = self.kids[p][a[2] % len(self.kids[p])]
        elif k == "s":
            if self.var[w] is not None:
                self.var[x] = self.var[w]
        elif k == "d":
            self.var[x] = None
        elif k == "u":
            if self.var[w] is not None:
                self.var[x] = self.par[self.var[w]]
        self.sweep()

    def canon(self, n):
        for j in range(4):
            if self.var[j] == n:
                return str(j)
        return "x"

    def observe(self):
        out = []
        for i in range(4):
            n = self.var[i]
            if n is None:
                out.append("-")
            else:
                out.append(self.canon(n) + "/" + ("n" if self.par[n] is None else self.canon(self.par[n])) + "/"
                           + "".join(self.canon(c) for c in self.kids[n]))
        return " ".join(out)


def own_reference(toks):
    m, outs = OwnMirror(), []
    for o in toks:
        if m.would_cycle(o):
            return None          # outside the generated class
        m.step(o)
        outs.append(m.observe())
    return "|".join(outs) + " end leak=0 fault=false counts=true"


def own_history(rng, n):
    """mostly meaningful histories: build small forests, share children between two elements, detach, drop containers before
    contents and the other way round, climb with parent(); some ops on empty variables / out-of-range indices (no-ops)"""
    m, ops = OwnMirror(), []
    for _ in range(n):
        for _try in range(8):
            r = rng.random()
            v, w, j = rng.randrange(4), rng.randrange(4), rng.randrange(10)
            live = [i for i in range(4) if m.var[i] is not None]
            if live and rng.random() < 0.8:
                w = rng.choice(live)
                if rng.random() < 0.5:
                    v = rng.choice(live)
            o = ("n%d" % v if r < 0.22 else "a%d%d" % (v, w) if r < 0.42 else "i%d%d%d" % (v, w, j % 4) if r < 0.47 else "r%d%d" % (w, j) if r < 0.53 else "e%d%d" % (v, w) if r < 0.57 else "c%d" % w if r < 0.61
                 else "k%d%d%d" % (v, w, j) if r < 0.73 else "s%d%d" % (v, w) if r < 0.80 else "d%d" % w if r < 0.90 else "u%d%d" % (v, w))
            if not m.would_cycle(o):
                break
        else:
            o = "n%d" % v
        m.step(o)
        ops.append(o)
    return "own " + " ".join(ops)


def gen(rng, tier):
    quick = tier == "quick"
    cases = []
    # 1. generated documents + their mutations
    for i in range(500 if quick else 25000):
        d = rdoc(rng, plain=(rng.random() < 0.8))
        c = [dec(d)]
        m = d
        for _ in range(6):
            m = mutate(rng, m if rng.random() < 0.5 else d)
            c.append(dec(m))
        # a handle to one node kept after the decoded tree is released (k-th node in document order)
        # a child detached from a node of the decoded tree by a DOM mutator, then everything else released
        c.append("mut %s %d %d %s" % (hexs(d), rng.randrange(0, 12), rng.randrange(0, 4), rng.choice(["remove", "removee", "clear", "put"])))
        c.append("mut %s %d %d %s" % (hexs(d), 0, rng.randrange(0, 4), rng.choice(["remove", "clear", "put"])))
        c.append("desc " + hexs(d))   # descend the first-child chain by assignment to the only handle
        c.append("desc " + hexs(m))
        c.append("sub %s %d" % (hexs(d), rng.randrange(0, 40)))
        c.append("sub %s %d" % (hexs(m), rng.randrange(0, 8)))
        cases.append(c)
    # 2. every truncation of small documents
    for i in range(40 if quick else 600):
        d = rdoc(rng, depth=rng.choice([1, 2, 3]))
        if len(d) > 400:
            d = d[:400]
        cases.append([dec(d[:k]) for k in range(0, len(d) + 1)])
    # 3. token soups
    for i in range(400 if quick else 20000):
        c = []
        for _ in range(8):
            c.append(dec(b"".join(rng.choice(TOKS) for _ in range(rng.randrange(1, 14)))))
        cases.append(c)
    # 4. random bytes (uniform, and over a markup alphabet)
    for i in range(200 if quick else 10000):
        c = []
        for _ in range(8):
            n = rng.randrange(0, 40)
            if rng.random() < 0.4:
                c.append(dec(bytes(rng.getrandbits(8) for _ in range(n))))
            else:
                c.append(dec(bytes(rng.choice(b"<<>>//!?-&#;x=\"' a:\t\nb1\x80") for _ in range(n))))
        cases.append(c)
    # 5. references: every special, alone and inside text / attribute values
    c = []
    for s in SPECIALS:
        c += [dec(b"<a>" + s + b"</a>"), dec(b"<a b=\"" + s + b"\"/>"), dec(b"<a b='" + s + b"'>" + s + b"x</a>"), dec(s)]
    cases.append(c)
    for i in range(100 if quick else 3000):
        c = []
        for _ in range(6):
            body = b"#" + rng.choice([b"", b"x", b"X", b"x0x", b"-", b"x-", b"+", b" ", b"x "]) + bytes(
                rng.choice(b"0123456789abcdefABCDEF" if rng.random() < 0.9 else b"gxz -+") for _ in range(rng.randrange(0, 24)))
            c.append(dec(b"<r>&" + body + b";</r>"))
        cases.append(c)
    # 6. exhaustive short strings over markup alphabets
    alphas = [(b"<>/a =\"", 5 if quick else 7), (b"<>/a!-?", 5 if quick else 6), (b"<>/a&#;x1", 4 if quick else 5), (b"<>/ab", 6 if quick else 8)]
    for alpha, maxlen in alphas:
        batch = []
        for L in range(0, maxlen + 1):
            for t in itertools.product(alpha, repeat=L):
                batch.append(dec(bytes(t)))
                if len(batch) == 500:
                    cases.append(batch)
                    batch = []
        if batch:
            cases.append(batch)
    # 6b. exhaustive continuations inside a context (comment, PI, declaration, attribute list, reference, end tag)
    ctxs = [(b"<r><!--", b"<b/></r>", b"->x<!", 5 if quick else 7),
            (b"<r><?", b"<b/></r>", b"?>a <", 5 if quick else 7),
            (b"<!", b"<r/>", b"D<> [-", 5 if quick else 6),
            (b"<a ", b"x</a>", b"b=\"' />&;", 4 if quick else 5),
            (b"<r>&", b";z</r>", b"#x41;a-", 4 if quick else 6),
            (b"<r a='&", b";'/>", b"#x41;a-", 3 if quick else 5),
            (b"<r><a>", b"</r>", b"</a>r ", 5 if quick else 7)]
    for pre, post, alpha, maxlen in ctxs:
        batch = []
        for L in range(0, maxlen + 1):
            for t in itertools.product(alpha, repeat=L):
                batch.append(dec(pre + bytes(t) + post))
                if len(batch) == 500:
                    cases.append(batch)
                    batch = []
        if batch:
            cases.append(batch)
    # 7. DOM trees: encode and decode(encode)  (returned first: a broken round trip is then among the first failures judged)
    other = cases
    cases = []
    fmt1 = []
    for i in range(500 if quick else 25000):
        depth = rng.choice([0, 1, 2, 3, 4, 5, 8, 11])
        sole = rng.random() < 0.5
        t = rtree(rng, depth, sole, plain=(rng.random() < 0.5), fan=3 if depth > 4 else 4)
        tk = " ".join(tokens(t))
        # one case per output format: a failure of the compact round trip is never shrunk away in favour of the indented one
        cases.append(["rt 0 " + tk, "enc 0 " + tk])
        fmt1.append(["rt 1 " + tk, "enc 1 " + tk])
    for i in range(60 if quick else 1500):
        sole = rng.random() < 0.5
        t = rchain(rng, rng.choice([12, 12, 11, 10, 9, 7]), sole)
        tk = " ".join(tokens(t))
        cases.append(["rt 0 " + tk, "enc 0 " + tk])
        fmt1.append(["rt 1 " + tk, "enc 1 " + tk])
    # directed: an attributed element without children (`<e k="v"/>`, closed through WAIT_ATT '/' SLASH) followed by text that the
    # encoder escapes, as sibling text, as a later sibling's text and as the text of a following deeper element
    for i in range(60 if quick else 1500):
        e = ("E", rname(rng), rattrs(rng) or [(rname(rng), rtext(rng, 4))], [])
        txt = bytes(rng.choice(b"&<>\"'")for _ in range(rng.randrange(1, 3))) + rtext(rng, 4)
        shape = rng.randrange(4)
        if shape == 0:
            kids = [e, ("T", txt)]
        elif shape == 1:
            kids = [e, ("E", rname(rng), [], [("T", txt)])]
        elif shape == 2:
            kids = [("E", rname(rng), [], [e]), ("E", rname(rng), [], [("E", rname(rng), [], [("T", txt)])])]
        else:
            kids = [e, ("E", rname(rng), [], []), ("E", rname(rng), [(rname(rng), txt)], [("T", txt)])]
        t = ("E", rname(rng), rattrs(rng) if rng.random() < 0.5 else [], kids)
        tk = " ".join(tokens(t))
        cases.append(["rt 0 " + tk, "enc 0 " + tk])
        fmt1.append(["rt 1 " + tk, "enc 1 " + tk])
    # names outside the accepted classes, empty tags, a text node as root (no reference opinion; model vs code only)
    for i in range(60 if quick else 1500):
        t = rtree(rng, 2, False)
        bad = rng.choice([b"", b"1a", b"a b", b"a>", b"a/b", b"-a", b"a=b", b"a\"", b"<", b"a&b"])
        if rng.random() < 0.5:
            t = ("E", bad, t[2], t[3])
        elif t[3] and t[3][0][0] == "E":
            t[3][0] = ("E", bad, t[3][0][2], t[3][0][3])
        else:
            t = ("E", t[1], [(bad, b"v")] if bad else [], t[3])
        tk = " ".join(tokens(t))
        cases.append(["enc 0 " + tk, "rt 0 " + tk, "rt 1 " + tk])
    cases.append(["enc 0 T 6162", "rt 0 T 6162", "enc 1 T 26", "rt 1 T 26", "enc 0 E - 0 0", "rt 0 E - 0 0"])
    cases = cases + fmt1 + other
    # 10. attribute values and text over the alphabet of everything the encoder / decoder treats specially: every single item, every
    #     ordered pair, and values holding BOTH kinds of quote (a delimiter chosen by content must cope with them); compact and indented
    special = [b"'", b'"', b"&", b"<", b">", b"=", b"/", b" ", b"\t", b"\n", b"]]>", b"--", b"&amp;", b"&apos;", b"&#39;", b"&#x27;"]
    vals = special + [a + b for a in special for b in special] + [b"it's \"quoted\"", b"\"' z=\"1", b"'\" z='1", b"a'b\"c'd\"e",
                                                                 b"\"'", b"'\"", b"x=\"1\" y='2'"]
    grp, special_cases = [], []
    for i, v in enumerate(vals[::-1]):          # the both-quote values first
        t = ("E", b"a", [(b"k", v), (b"z", vals[(i * 7 + 3) % len(vals)])], [("E", b"b", [(b"q", v)], [("T", v)])])
        tk = " ".join(tokens(t))
        grp += ["rt 0 " + tk, "rt 1 " + tk]
        if len(grp) >= 8:
            special_cases.append(grp)
            grp = []
    if grp:
        special_cases.append(grp)
    cases = special_cases + cases               # first: the engine's per-batch failure budget must not be spent before they run
    # 9. ownership histories (extension round): DOM mutators over four handle variables, under ASan/LSan
    for i in range(300 if quick else 20000):
        cases.append([own_history(rng, rng.choice([3, 6, 12, 25, 40])) for _ in range(2)])
    cases.append(["own n0 n1 a01 d0", "own n0 n1 a01 d1 k100 u21 d0", "own n0 n1 n2 a01 a21 d0 u31 d2", "own n0 n1 a01 a01 r00 u21 r00 u21",
                  "own n0 n1 n2 a12 a01 k301 d0 d1 u23", "own n0 n1 a01 c0 u21", "own n0 n1 n2 a01 i020 i021 i025 u32 d0 u32", "own n0 n1 a01 i010 r01 u21 r00 u21", "own n0 n1 n2 a02 a12 e02 u32 d1 u32", "own n0 n1 a01 a01 e01 u21 e01 e01", "own d0 a01 r00 c0 k010 s01 u01 n0 u10"])
    # 8. deeply nested documents built inside the harness / driver (kind 0: closed, 3: closed around the text "x" — text() walks the whole chain, 1: closed then a mismatched end tag so that
    #    the tree is destroyed inside decode, 2: unclosed)
    for n in ([0, 1, 2, 12, 13, 1000, 300000] if quick else [0, 1, 2, 12, 13, 1000, 50000, 300000, 1000000]):
        cases.append(["deep %d %d" % (n, k) for k in (0, 1, 2, 3)])
    return cases


def nontrivial(case):
    return any(len(l.split()) > 1 and l.split()[-1] != "-" and not l.startswith("deep 0") for l in case)


def distribution(cases):
    d = {"ops_by_kind": {}, "dec_len_hist": {}, "dec_features": {}, "tree_depth_hist": {}, "tree_text_features": {}}
    feats = {"comment": b"<!--", "pi": b"<?", "doctype": b"<!DOCTYPE", "xmldecl": b"<?xml", "named_ref": b"&amp;", "dec_ref": b"&#",
             "hex_ref": b"&#x", "empty_end_tag": b"</>", "cdata": b"<![CDATA[", "nul": b"\x00", "single_quote_attr": b"='"}
    for c in cases:
        for l in c:
            t = l.split()
            op = t[0]
            d["ops_by_kind"][op] = d["ops_by_kind"].get(op, 0) + 1
            if op == "own":
                h = d.setdefault("own_history_ops", {})
                for x in t[1:]:
                    h[x[0]] = h.get(x[0], 0) + 1
                k = "1-6" if len(t) <= 7 else "7-12" if len(t) <= 13 else "13-25" if len(t) <= 26 else "26+"
                d.setdefault("own_history_len", {})[k] = d.get("own_history_len", {}).get(k, 0) + 1
            if op == "deep":
                d.setdefault("deep_nesting_levels", {})[t[1]] = d.get("deep_nesting_levels", {}).get(t[1], 0) + 1
            if op == "dec":
                b = unhex(t[1])
                k = "0" if not b else "1-7" if len(b) < 8 else "8-63" if len(b) < 64 else "64-511" if len(b) < 512 else "512+"
                d["dec_len_hist"][k] = d["dec_len_hist"].get(k, 0) + 1
                for f, pat in feats.items():
                    if pat in b:
                        d["dec_features"][f] = d["dec_features"].get(f, 0) + 1
                if any(x >= 0x80 for x in b):
                    d["dec_features"]["non_ascii"] = d["dec_features"].get("non_ascii", 0) + 1
            elif op == "rt" and t[1] == "0":
                try:
                    tr, _ = parse_tokens(t, 2)
                except Exception:
                    continue
                k = str(tree_depth(tr))
                d["tree_depth_hist"][k] = d["tree_depth_hist"].get(k, 0) + 1
                if attributed_empty_then_escaped(tr):
                    d["tree_text_features"]["attributed_empty_element_then_escaped_text"] = \
                        d["tree_text_features"].get("attributed_empty_element_then_escaped_text", 0) + 1
                blob = b"".join(unhex(x) for x in t[2:] if re.fullmatch(r"[0-9a-f]{2,}", x) and len(x) % 2 == 0)
                for f, pat in (("amp", b"&"), ("lt", b"<"), ("gt", b">"), ("dquote", b"\""), ("squote", b"'")):
                    if pat in blob:
                        d["tree_text_features"][f] = d["tree_text_features"].get(f, 0) + 1
                if any(x >= 0x80 for x in blob):
                    d["tree_text_features"]["non_ascii"] = d["tree_text_features"].get("non_ascii", 0) + 1
    return d


EXHAUSTIVE = {"quick": "all strings of length <= 5 over {< > / a space = \"} and over {< > / a ! - ?}, length <= 4 over {< > / a & # ; x 1}, "
                       "length <= 6 over {< > / a b} through Xml::decode; all continuations of length <= 5 over small alphabets inside a comment, a PI, "
                       "a <! declaration, an open element, (<= 4) an attribute list, a reference",
              "thorough": "all strings of length <= 7 over {< > / a space = \"}, <= 6 over {< > / a ! - ?}, <= 5 over {< > / a & # ; x 1}, "
                          "<= 8 over {< > / a b} through Xml::decode; continuations of length <= 5..7 inside comment / PI / declaration / attribute list / "
                          "reference / open element contexts"}


# ------------------------------------------------------------------ independent references

REFERENCE_NAME = ("python3 expat (pyexpat) for well-formed documents; tree normalisation (merge adjacent text, drop blank text) written "
                  "from the property text for decode(encode(t)); textbook compact serialisation for encode(t, false)")


def is_blank(s):
    return all(c in WS for c in s)


def text_of(t):
    """Xml::text(): a text node's text; for an element the text at the end of its first-child chain, else empty"""
    while t[0] == "E":
        if not t[3]:
            return b""
        t = t[3][0]
    return t[1]


def dump_root(t):
    return "R+" + dump(t) + " t=" + hexs(text_of(t))


def dump(t):
    if t[0] == "T":
        return "T" + hexs(t[1])
    attrs = sorted(t[2].items())
    return "E" + hexs(t[1]) + "[" + ",".join(hexs(k) + "=" + hexs(v) for k, v in attrs) + "]{" + " ".join("+" + dump(c) for c in t[3]) + "}"


def normalize(t):
    """what the property promises after a round trip: merge adjacent text nodes, drop whitespace-only text"""
    if t[0] == "T":
        return t
    kids = []
    for c in t[3]:
        c = normalize(c)
        if c[0] == "T" and kids and kids[-1][0] == "T":
            kids[-1] = ("T", kids[-1][1] + c[1])
        else:
            kids.append(c)
    kids = [c for c in kids if not (c[0] == "T" and is_blank(c[1]))]
    return ("E", t[1], dict(t[2]), kids)


def tree_names_ok(t):
    if t[0] == "T":
        return 0 not in t[1]
    return name_ok(t[1]) and all(name_ok(k) and 0 not in v for k, v in t[2]) and all(tree_names_ok(c) for c in t[3])


def text_only_sole(t):
    if t[0] == "T":
        return True
    if any(c[0] == "T" for c in t[3]) and len(t[3]) != 1:
        return False
    return all(text_only_sole(c) for c in t[3])


def xml_escape(s):
    return s.replace(b"&", b"&amp;").replace(b"<", b"&lt;").replace(b">", b"&gt;").replace(b"'", b"&apos;").replace(b'"', b"&quot;")


def compact(t):
    if t[0] == "T":
        return xml_escape(t[1])
    s = b"<" + t[1] + b"".join(b" " + k + b'="' + xml_escape(v) + b'"' for k, v in sorted(dict(t[2]).items()))
    if not t[3]:
        return s + b"/>"
    return s + b">" + b"".join(compact(c) for c in t[3]) + b"</" + t[1] + b">"


def ref_tree(data):
    """expected tree for documents that an XML processor accepts and that stay inside the subset where asl claims XML behaviour"""
    import xml.parsers.expat as expat
    if not data or b"\r" in data or b"\x00" in data or b"<!ENTITY" in data or b"<![CDATA[" in data:
        return None
    if re.search(rb"=\s*(\"[^\"]*[\t\n][^\"]*\"|'[^']*[\t\n][^']*')", data):
        return None   # attribute-value normalisation (XML 1.0 §3.3.3) is not implemented by asl
    if re.search(rb"</[^<>]*[ \t\n][^<>]*>", data):
        return None   # asl compares the raw text between "</" and ">" with the tag: blanks there are not accepted
    m = re.match(rb"<\?xml[^>]*encoding\s*=\s*[\"']([^\"']*)", data)
    if m and m.group(1).lower() not in (b"utf-8", b"utf8"):
        return None
    st = {"stack": [("E", b"", {}, [])], "chunk": [], "bad": False, "doctype": None}
    p = expat.ParserCreate("utf-8")
    p.buffer_text = False

    def flush():
        s = "".join(st["chunk"]).encode("utf-8")
        st["chunk"] = []
        if s and not is_blank(s) and len(st["stack"]) > 1:
            st["stack"][-1][3].append(("T", s))

    def start(name, attrs):
        flush()
        st["stack"].append(("E", name.encode("utf-8"), {k.encode("utf-8"): v.encode("utf-8") for k, v in attrs.items()}, []))

    def end(name):
        flush()
        e = st["stack"].pop()
        st["stack"][-1][3].append(e)

    def chars(s):
        st["chunk"].append(s)

    def comment(s):
        flush()

    def pi(target, data_):
        flush()
        if not (target[:1].isascii() and target[:1].isalpha()):
            st["bad"] = True   # asl only closes a PI whose target starts with an ASCII letter

    def sdoctype(name, sysid, pubid, has_internal):
        st["doctype"] = p.CurrentByteIndex

    def edoctype():
        s = st["doctype"]
        e = p.CurrentByteIndex
        if s is None or b'"' in data[s:e] or b"'" in data[s:e] or b"<!--" in data[s:e] or b"<?" in data[s:e]:
            st["bad"] = True   # a '<' or '>' inside a literal, comment or PI of the internal subset confuses asl's bracket
                               # counting (outside the property): keep the oracle out of it

    def cdata():
        st["bad"] = True

    p.StartElementHandler = start
    p.EndElementHandler = end
    p.CharacterDataHandler = chars
    p.CommentHandler = comment
    p.ProcessingInstructionHandler = pi
    p.StartDoctypeDeclHandler = sdoctype
    p.EndDoctypeDeclHandler = edoctype
    p.StartCdataSectionHandler = cdata
    try:
        p.Parse(data, True)
    except Exception:
        return None
    if st["bad"] or len(st["stack"]) != 1 or len(st["stack"][0][3]) != 1:
        return None
    return st["stack"][0][3][0]


def ref_dec(data):
    t = ref_tree(data)
    return None if t is None else dump_root(t)


def preorder_nodes(t):
    out = [t]
    if t[0] == "E":
        for c in t[3]:
            out += preorder_nodes(c)
    return out


def reference(line):
    t = line.split()
    try:
        if t[0] == "dec":
            return ref_dec(unhex(t[1]))
        if t[0] == "own":
            return own_reference(t[1:])
        if t[0] == "mut":
            tr = ref_tree(unhex(t[1]))
            if tr is None:
                return None
            pre = preorder_nodes(tr)
            p_ = pre[int(t[2]) % len(pre)]
            if p_[0] == "T" or not p_[3]:
                return "skip"
            return "M+" + dump_root(p_[3][int(t[3]) % len(p_[3])])   # detached at once, and still detached after the release
        if t[0] == "desc":
            tr = ref_tree(unhex(t[1]))
            if tr is None:
                return None
            while tr[3] and tr[3][0][0] == "E":
                tr = tr[3][0]
            return dump_root(tr)
        if t[0] == "sub":
            tr = ref_tree(unhex(t[1]))
            if tr is None:
                return None
            pre = preorder_nodes(tr)
            return dump_root(pre[int(t[2]) % len(pre)])   # the survivor has no parent; its subtree is intact
        if t[0] == "deep":
            n = int(t[1])
            if t[2] == "0" and n > 0:
                return "deep depth=%d nodes=%d badparents=0 text=-" % (n, n)
            if t[2] == "3" and n > 0:
                return "deep depth=%d nodes=%d badparents=0 text=78" % (n + 1, n + 1)
            return "deep null"
        if t[0] in ("rt", "enc"):
            tr, n = parse_tokens(t, 2)
            if n != len(t) or tr[0] != "E" or not tree_names_ok(tr):
                return None
            if t[0] == "enc":
                return hexs(compact(tr)) if t[1] == "0" else None
            if t[1] == "1" and not text_only_sole(tr):
                return None
            return dump_root(normalize(tr))
    except Exception:
        return None
    return None


def oracle(case, impl, model, crash):
    """property oracle judged on the implementation's behaviour alone (DESIGN 1.3)"""
    if crash:
        if case and all(l.startswith("mut ") for l in case):
            return True, ("parent() of an element taken out of a decoded tree by remove/clear/put is a memory error once its former "
                          "parent is released: %s" % crash)
        if case and all(l.startswith("desc ") for l in case):
            return True, ("walking down a decoded tree with `e = e.child(0)` on the only handle (or `e = e`) is a memory error: %s" % crash)
        if case and all(l.startswith("sub ") for l in case):
            return True, ("looking at a node of the decoded tree (parent(), children) after the tree itself was released is a memory "
                          "error: %s" % crash)
        if case and all(l.startswith("deep ") for l in case):
            return True, ("decoding a deeply nested document, walking the result (children, parent(), text()) or destroying it is a "
                          "memory error: %s" % crash)
        return True, "Xml::decode / encode did not terminate normally (memory error or abort): %s" % crash
    outs = [o for o in impl if o != "case"]
    for l, o in zip(case, outs):
        if o.startswith("M!") or o.startswith("M+R!"):
            return True, "an element removed from its parent (remove/clear/put) still reports that parent (M!/R! in the output of: %s)" % l[:80]
        if o.startswith("R!"):
            return True, "the returned element's own parent() is not a null object (R! in the dump of: %s)" % l[:80]
        if "!" in o:
            return True, "a child's parent() is not the element that contains it (flag '!' in the dump of: %s)" % l[:80]
    for l, o in zip(case, outs):
        if l.startswith("rt "):
            exp = reference(l)   # python normalisation of the INPUT tree; None outside the clause's hypotheses
            if exp is not None and o != exp:
                return True, ("decode(encode(t)) is not t up to merging adjacent text and dropping blank text "
                              "(expected %s, got %s)" % (exp[:120], o[:120]))
    for l, o in zip(case, outs):
        if l.startswith("own "):
            exp = reference(l)   # reachability-based mirror (no counts); None if the history builds a cycle
            if exp is not None and o != exp:
                return True, ("after a history of DOM mutators and handle drops the handles do not show the expected graph (a parent() that "
                              "is not a live container of the node, a lost or extra child): expected %s, got %s" % (exp[:160], o[:160]))
    return False, ("the implementation no longer behaves as the transcription the theorems are about (outputs differ), but the "
                   "differing outputs do not by themselves contradict the property's clauses")


def simplify_line(line):
    """byte-level shrinking candidates for one op line (largest cuts first)"""
    t = line.split()
    if t[0] in ("rt", "enc") and len(t) > 3:
        try:
            tr, n = parse_tokens(t, 2)
        except Exception:
            return
        if tr[0] != "E":
            return

        def subtrees(x):
            for c in x[3]:
                if c[0] == "E":
                    yield c
                    for y in subtrees(c):
                        yield y
        cands = sorted(subtrees(tr), key=lambda x: len(tokens(x)))[:40]
        cands += [("E", tr[1], [], tr[3]), ("E", b"a", tr[2], tr[3])]
        cands += [("E", tr[1], tr[2], tr[3][:i] + tr[3][i + 1:]) for i in range(len(tr[3]))][:20]
        if t[1] == "1":
            # the compact round trip is promised for every tree: if a (smaller) tree already breaks it, report that one
            for c in cands + [tr]:
                yield "%s 0 %s" % (t[0], " ".join(tokens(c)))
            sole = text_only_sole(tr)
            cands = [c for c in cands if text_only_sole(c) or not sole]   # stay inside the indented clause's side condition
        for c in cands:
            yield "%s %s %s" % (t[0], t[1], " ".join(tokens(c)))
        return
    if t[0] == "mut" and len(t) == 5:
        for k in range(0, min(int(t[2]), 4)):
            yield "mut %s %d 0 %s" % (t[1], k, t[4])
        for l in simplify_line("dec " + t[1]):
            yield "mut %s %s %s %s" % (l.split()[1], t[2], t[3], t[4])
        return
    if t[0] == "desc" and len(t) == 2:
        for l in simplify_line("dec " + t[1]):
            yield "desc " + l.split()[1]
        return
    if t[0] == "sub" and len(t) == 3:
        for k in range(0, min(int(t[2]), 6)):
            yield "sub %s %d" % (t[1], k)
        for l in simplify_line("dec " + t[1]):
            yield "sub %s %s" % (l.split()[1], t[2])
        return
    if t[0] != "dec" or len(t) != 2:
        return
    b = unhex(t[1])
    n = len(b)
    k = n // 2
    seen = 0
    while k >= 1 and seen < 120:
        for i in range(0, n, k):
            cand = b[:i] + b[i + k:]
            if len(cand) < n:
                seen += 1
                yield "dec " + hexs(cand)
        k //= 2


KNOWN = [
    {"key": "raw-children-array",
     "desc": "children().remove(0) on <b> of <a><b><c/></b><d/></a>, release the tree, c.parent()",
     "case": ["mut 3c613e3c623e3c632f3e3c2f623e3c642f3e3c2f613e 1 0 araw_remove"]},
]


def extra(ctx):
    """statistics only: how the implementation answered the generated `dec` inputs (share of non-null trees, sizes)"""
    import subprocess
    from lib import core
    rng = ctx["rng"]
    cases = gen(__import__("random").Random(ctx["seed"] * 1000003 + 7), ctx["tier"])
    lines = [l for c in cases for l in c if l.startswith("dec ")][:60000]
    out, crash, err = core.run_impl(ctx["exe"], ["case 0"] + lines, timeout=600)
    res = {"null": 0, "tree": 0, "tree_with_children": 0, "tree_with_text": 0, "tree_with_attrs": 0, "max_children_dump_len": 0}
    for o in out[1:]:
        if o == "null":
            res["null"] += 1
        elif o.startswith("R"):
            res["tree"] += 1
            if "+" in o:
                res["tree_with_children"] += 1
            if "T" in o:
                res["tree_with_text"] += 1
            if "=" in o:
                res["tree_with_attrs"] += 1
            res["max_children_dump_len"] = max(res["max_children_dump_len"], len(o))
    ctx["stats"]["impl_answers_on_dec_sample"] = res
    return []


LEVEL_TEXT = ("Proved in Lean 4 about the executable transcription of Xml::decode / XmlCodec::encode that is run against the real "
              "library on every check: (1) xml_decode_safe — for every byte string the 20-state decoder never pops the seeded root and never "
              "reads top() of an empty stack (invariant over state x stack depth), and the character-reference buffer char bytes[5] always "
              "suffices (ref_buffer_fits, every int); termination is structural (one step per input byte); (2) xml_parent_links — in every "
              "returned tree, at every depth, each child's parent pointer is the identity of the element containing it; "
              "(2b) xml_root_parent_null — the returned element's own parent is null (code after fix 5247de7; before it parent() read freed "
              "memory); (2c) [content only in the second half; see POSTULATED below] xml_survivor_links / xml_descend_links / "
              "xml_detached_child_links — every parent link BELOW a node that outlives the returned tree (kept handle, node reached by "
              "`e = e.child(0)`, child taken out by a mutator) still holds; "
              "(2d) xml_text_roundtrip — text() of "
              "decode(encode(t)) is the first-child-chain text of normalize(t) (text() is observed on every decoded result by K, incl. a "
              "300000-deep chain: recursive before fix f16a8e9); (3) xml_roundtrip_compact — for EVERY element tree (any depth/fan-out) whose tag and attribute names pass the decoder's own "
              "name tests (xml_names_accepted: every XML 1.0 Name as UTF-8 bytes does), with arbitrary NUL-free attribute values and text, decode(encode(t,false)) is a tree whose erasure equals "
              "normalize(t) (merge adjacent text, drop whitespace-only text; normalize is an independent specification, proved equal to what "
              "the decoder rebuilds); (4) xml_roundtrip_indented — the same for encode(t,true) when text occurs only as a sole child; "
              "(5) escape_unescape — reference expansion inverts escape on all NUL-free bytes incl. & < > ' \" and bytes >= 0x80, in text and "
              "in attribute values; (6) xml_close_underflow_counterexample — without the end-tag guard of fix 836cb23 the model faults on </>. "
              "POSTULATED in the model and observed by K only (not proved about the code): that ~_Xml (fix c581d77) and orphan() in "
              "remove(int)/remove(Xml)/clear()/put() (fix dcdfbd7) null the raw parent pointer of a node that outlives its container, and "
              "that NodeBase::operator= acquires before it releases (fix e5e901a): `survivor` and `detachedBy m` for an orphaning mutator "
              "are DEFINED as clearParent, so the null-parent conjuncts of the three (2c) theorems are definitional; the K ops sub / "
              "desc / mut run the real library under ASan (about half of ~1000 ops of each kind per quick run reach a node; the expat "
              "reference has an opinion on ~5-7% of them, the rest is model-vs-code plus the parent-flag oracle). "
              "(2e) xml_parent_never_dangles / xml_handle_parent_live — on the OWNERSHIP model (AslModel/XmlOwn.lean: nodes with a stored count, an owning "
              "child array and a raw parent pointer; orphan(), insert(i, e), remove(int), remove(Xml), clear(), operator<<(Xml), child(i), parent(), handle assignment "
              "(acquire before release) and destruction, ~_Xml's orphan-then-release loop, all transcribed; four handle variables): after EVERY "
              "history, every non-null parent pointer designates a node that is allocated, not destroyed, and holds the pointing node in its child "
              "array — also for a child shared by two elements or appended twice, and whatever dies first. Tied by the K op `own` (600 random + 7 "
              "directed histories per quick run under ASan/LSan, per step: which variable holds which node, parent(), children) and an independent "
              "count-free python mirror. ownership_counts_partial: a node is destroyed only at count zero, never counted again, and owns nothing afterwards. "
              "xml_raw_children_array_dangles states the known finding raw-children-array on the model. "
              "Tie to the code: correspondence check K (model driver vs real library under ASan/UBSan/LSan on generated documents, "
              "mutations, truncations, exhaustive short strings, DOM trees to depth 12) plus independent python oracles (expat, "
              "normalisation, compact serialisation).")
LEVEL_NOTE = ("Trusted: Lean kernel; the reading that produced the transcription, validated by K on the generated inputs only; the harness. "
              "Modelled, not proved: libc strtoul, wrap-around of myatoi's signed overflow, String/Map/Array/Stack primitives (ASSUMPTIONS). "
              "The DOM is modelled as a tree whose nodes carry an object identity and an explicit parent field (no shared sub-objects); that "
              "the real decoder never shares a node between two parents, and that reference counting frees each node once, is observed by "
              "K/ASan/LSan, not proved. Memory safety of the C++ beyond the modelled stack/buffer accesses (String growth, Array realloc) "
              "and of tree destruction (recursive before fix dede87b: stack overflow at ~10^5 nesting levels) is checked by the sanitizers on the "
              "explored inputs only. "
              "The decoder model has no heap, no reference count and no destructor: handle lifetimes (survivor, descend, detachedBy) are postulates "
              "of THAT model checked by K only; the separate ownership model (XmlOwn, op `own`) has them and proves 'every parent pointer is null or "
              "a live container of the node' over all histories of its mutators, but it starts from nodes made with Xml(tag), not from a decoded "
              "tree, and does not cover put, clone, Xml(tag, Array<Xml>). NOT proved there (ownership_counts_full: computed by "
              "the driver at every step, ASan/LSan on the code): stored count = handles + owning slots, no use of a dead node, every node freed once; "
              "a cycle of handles (a << a) leaks by construction, the generator builds none. KNOWN FINDING raw-children-array: mutating the array handed "
              "out by the non-const children() (remove/clear/resize/element assignment) runs no Xml code, the removed child keeps its "
              "parent pointer, and parent() on it reads freed memory once the former parent is destroyed; no small safe repair (the "
              "accessor exposes the raw Array<Xml>&); the generator never mutates through children(), the KNOWN probe replays it. "
              "The mut op does not look at parent() of the detached child's former siblings after put/clear. "
              "Round-trip theorems cover names in the decoder's accepted class "
              "(a superset of XML names), NUL-free strings; identity of object ids is erased in their conclusion.")
