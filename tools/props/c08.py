"""C08 — UTF-8/16/32 conversions, count/chars/iteration, case mapping: plugin for tools/check.py"""
import itertools
import re

from lib import cparse
from lib.core import hexs, unhex
from lib.engine import TranslateError

ID = "C08"
PROPS_MODULE = "AslProps.C08"
DRIVER = "c08"

# ---------------------------------------------------------------------------------------------- G


def _table(src, name):
    m = re.search(r'char\s+' + name + r'\s*\[\s*\]\s*=\s*((?:\s*"(?:[^"\\]|\\.)*")+)\s*;', src)
    if not m:
        raise TranslateError("table %s not found in src/unicodedata.cpp (expected `char %s[] = \"…\" …;`)" % (name, name))
    vals = []
    for lit in re.findall(r'"((?:[^"\\]|\\.)*)"', m.group(1)):
        # only \xHH escapes are accepted (a longer hex run or another escape would change the C meaning)
        if not re.fullmatch(r'(?:\\x[0-9a-fA-F]{2})*', lit):
            raise TranslateError("table %s: literal piece is not a sequence of \\xHH escapes: %r" % (name, lit[:40]))
        vals += [int(x, 16) for x in re.findall(r'\\x([0-9a-fA-F]{2})', lit)]
    vals.append(0)  # the terminator of the string literal is part of the array
    return vals


def _lean_u8_array(name, vals, per=32):
    rows = ["  " + ", ".join(str(v) for v in vals[i:i + per]) for i in range(0, len(vals), per)]
    return "def %s : Array UInt8 := #[\n%s]\n" % (name, ",\n".join(rows))


def _cut(body, what, regex):
    ms = re.findall(regex, body)
    if len(ms) != 1:
        raise TranslateError("%s: expected exactly one `%s`, found %d" % (what, regex, len(ms)))
    return ms[0]


# --- allocation-size / offset expressions of the callers of the converters (C arithmetic -> Lean Nat term)

def _cexpr(text, what, subst):
    """translate a C integer expression over + - * & ( ) literals and the identifiers named in `subst` into a fully
    parenthesised Lean `Nat` term.  `a - b` is accepted only as `LITERAL - (e & MASK)` with MASK <= LITERAL (then the
    truncated subtraction of `Nat` is the C one).  Anything else raises."""
    src = text
    for k, v in subst:
        src = src.replace(k, " " + v + " ")
    toks = re.findall(r"\s*(0[xX][0-9a-fA-F]+|\d+|[A-Za-z_]\w*|[-+*&()])", src)
    if "".join(toks) != re.sub(r"\s+", "", src):
        raise TranslateError("%s: unrecognised token in `%s`" % (what, text))
    names = set(v for _, v in subst)
    pos = [0]

    def peek():
        return toks[pos[0]] if pos[0] < len(toks) else None

    def eat():
        pos[0] += 1
        return toks[pos[0] - 1]

    def atom():
        t = peek()
        if t is None:
            raise TranslateError("%s: truncated expression `%s`" % (what, text))
        eat()
        if t == "(":
            e = band()
            if peek() != ")":
                raise TranslateError("%s: `)` expected in `%s`" % (what, text))
            eat()
            return e
        if re.fullmatch(r"0[xX][0-9a-fA-F]+|\d+", t):
            return ("lit", int(t, 0))
        if t in names:
            return ("var", t)
        raise TranslateError("%s: unknown identifier `%s` in `%s`" % (what, t, text))

    def mul():
        e = atom()
        while peek() == "*":
            eat()
            e = ("*", e, atom())
        return e

    def add():
        e = mul()
        while peek() in ("+", "-"):
            op = eat()
            r = mul()
            if op == "-" and not (e[0] == "lit" and r[0] == "&&&" and r[2][0] == "lit" and r[2][1] <= e[1]):
                raise TranslateError("%s: subtraction other than LITERAL - (e & MASK<=LITERAL) in `%s`" % (what, text))
            e = (op, e, r)
        return e

    def band():
        e = add()
        while peek() == "&":
            eat()
            e = ("&&&", e, add())
        return e

    e = band()
    if pos[0] != len(toks):
        raise TranslateError("%s: trailing tokens in `%s`" % (what, text))

    def show(e):
        if e[0] == "lit":
            return str(e[1])
        if e[0] == "var":
            return e[1]
        return "(%s %s %s)" % (show(e[1]), e[0], show(e[2]))
    return show(e)


def _alloc_exprs(sc):
    """the buffer sizes, budgets and the scratch offset the String methods hand to the converters (assumption stated in
    ASSUMPTIONS: sizeof(wchar_t) = 4)"""
    def one(body, what, regex):
        ms = re.findall(regex, body, re.S)
        if len(ms) != 1:
            raise TranslateError("%s: expected exactly one `%s`, found %d" % (what, regex, len(ms)))
        return ms[0].strip()
    L = [("sizeof(wchar_t)", "4"), ("_len", "len")]
    N = [("(int)wcslen(s)", "n"), ("txt.length()", "n"), ("codes.length()", "n"), ("a.length()", "(n + 1)"), ("length()", "len")]
    dw = cparse.find_function(sc, r"const\s+wchar_t\s*\*\s*String::dataw\s*\(\s*\)\s*const\s*\{")
    fw = cparse.find_function(sc, r"String\s*&\s*String::fixW\s*\(\s*\)\s*\{")
    cw = cparse.find_function(sc, r"String::String\s*\(\s*const\s+wchar_t\s*\*\s*s\s*\)\s*\{")
    ca = cparse.find_function(sc, r"String::String\s*\(\s*const\s+Array\s*<\s*wchar_t\s*>\s*&\s*txt\s*\)\s*\{")
    ch = cparse.find_function(sc, r"Array\s*<\s*int\s*>\s*String::chars\s*\(\s*\)\s*const\s*\{")
    def ansi_off(fn):
        body = cparse.find_function(sc, fn)
        m = re.search(r"#ifndef\s+ASL_ANSI(.*?)#else", body, re.S)
        if not m:
            raise TranslateError("no #ifndef ASL_ANSI … #else branch in " + fn)
        return m.group(1)
    fc = ansi_off(r"String\s+String::fromCodes\s*\([^)]*\)\s*\{")
    f1 = ansi_off(r"String\s+String::fromCode\s*\(\s*int\s+code\s*\)\s*\{")
    out = []
    def emit(name, params, doc, text, what, subst):
        out.append("/-- `%s` in `%s` -/\ndef %s %s: Nat := %s\n" % (text, what, name, params, _cexpr(text, what, subst)))
    emit("datawResizeArg", "(len : Nat) ", "", one(dw, "dataw", r"->\s*resize\s*\((.*?),\s*true\s*,\s*false\s*\)\s*;"), "String::dataw", L)
    emit("datawOffset", "(len : Nat) ", "", one(dw, "dataw", r"int\s+offset\s*=\s*(.*?);"), "String::dataw", L)
    if not re.search(r"wchar_t\s*\*\s*wstr\s*=\s*\(\s*wchar_t\s*\*\s*\)\s*\(\s*str\s*\(\s*\)\s*\+\s*offset\s*\)\s*;\s*from8bit\s*\(\s*str\s*\(\s*\)\s*,\s*wstr\s*,\s*_len\s*\)\s*;", dw):
        raise TranslateError("dataw no longer converts with from8bit(str(), (wchar_t*)(str() + offset), _len)")
    emit("fixWOffset", "(len : Nat) ", "", one(fw, "fixW", r"int\s+offset\s*=\s*(.*?);"), "String::fixW", L)
    if not re.search(r"to8bit\s*\(\s*\(\s*wchar_t\s*\*\s*\)\s*\(\s*str\s*\(\s*\)\s*\+\s*offset\s*\)\s*,\s*str\s*\(\s*\)\s*,\s*cap\s*\(\s*\)\s*\)\s*;", fw):
        raise TranslateError("fixW no longer converts with to8bit((wchar_t*)(str() + offset), str(), cap())")
    emit("fromWideInit", "(n : Nat) ", "", one(cw, "String(const wchar_t*)", r"init\s*\((.*?)\)\s*;"), "String::String(const wchar_t*)", N)
    if not re.search(r"_len\s*=\s*to8bit\s*\(\s*s\s*,\s*str\s*\(\s*\)\s*,\s*cap\s*\(\s*\)\s*\)\s*;", cw):
        raise TranslateError("String(const wchar_t*) no longer converts with to8bit(s, str(), cap())")
    emit("fromWideArrInit", "(n : Nat) ", "", one(ca, "String(Array<wchar_t>)", r"init\s*\((.*?)\)\s*;"), "String::String(const Array<wchar_t>&)", N)
    if not re.search(r"_len\s*=\s*to8bit\s*\(\s*a\.data\s*\(\s*\)\s*,\s*str\s*\(\s*\)\s*,\s*cap\s*\(\s*\)\s*\)\s*;", ca):
        raise TranslateError("String(const Array<wchar_t>&) no longer converts with to8bit(a.data(), str(), cap())")
    emit("fromCodesSize", "(n : Nat) ", "", one(fc, "fromCodes", r"String\s+s\s*\((.*?),\s*0\s*\)\s*;"), "String::fromCodes", N)
    emit("fromCodesBudget", "(n : Nat) ", "", one(fc, "fromCodes", r"utf32toUtf8\s*\(\s*a\.data\s*\(\s*\)\s*,\s*s\.str\s*\(\s*\)\s*,(.*?)\)\s*\)\s*;"), "String::fromCodes", N)
    emit("fromCodeSize", "", "", one(f1, "fromCode", r"String\s+s\s*\((.*?),\s*0\s*\)\s*;"), "String::fromCode", N)
    emit("fromCodeBudget", "", "", one(f1, "fromCode", r"utf32toUtf8\s*\(\s*codes\s*,\s*s\.str\s*\(\s*\)\s*,(.*?)\)\s*\)\s*;"), "String::fromCode", N)
    emit("charsRoom", "(len : Nat) ", "", one(ch, "chars", r"Array\s*<\s*int\s*>\s*c\s*\((.*?)\)\s*;"), "String::chars", N)
    emit("charsBudget", "(len : Nat) ", "", one(ch, "chars", r"utf8toUtf32\s*\(\s*str\s*\(\s*\)\s*,\s*c\.data\s*\(\s*\)\s*,(.*?)\)\s*;"), "String::chars", N)
    return "\n".join(out)


def translate(repo):
    ud = cparse.read(repo, "src/unicodedata.cpp")
    up = _table(ud, "toUppercaseU8")
    lo = _table(ud, "toLowercaseU8")
    sc = cparse.read(repo, "src/String.cpp")
    # the non-ANSI branches of the three case functions
    def non_ansi(fn):
        body = cparse.find_function(sc, fn)
        m = re.search(r"#else(.*?)#endif", body, re.S)
        if not m:
            raise TranslateError("no #else…#endif (non-ANSI) branch in " + fn)
        return m.group(1)
    ub = non_ansi(r"String\s+String::toUpperCase\s*\(\s*\)\s*const\s*\{")
    lb = non_ansi(r"String\s+String::toLowerCase\s*\(\s*\)\s*const\s*\{")
    nb = non_ansi(r"bool\s+String::equalsNocase\s*\([^)]*\)\s*const\s*\{")
    ucut = int(_cut(ub, "toUpperCase", r"if\s*\(\s*code\s*<\s*(\d+)\s*\)"))
    lcut = int(_cut(lb, "toLowerCase", r"if\s*\(\s*code\s*<\s*(\d+)\s*\)"))
    n1, n2 = _cut(nb, "equalsNocase", r"if\s*\(\s*code1\s*>\s*(\d+)\s*\|\|\s*code2\s*>\s*(\d+)\s*\)")
    for body, tbl, what in ((ub, "toUppercaseU8", "toUpperCase"), (lb, "toLowercaseU8", "toLowerCase")):
        if not re.search(r"char\s+c1\s*=\s*%s\s*\[\s*code\s*\*\s*2\s*\]\s*;\s*char\s+c2\s*=\s*%s\s*\[\s*code\s*\*\s*2\s*\+\s*1\s*\]\s*;" % (tbl, tbl), body):
            raise TranslateError("%s no longer reads %s[code*2], %s[code*2+1]" % (what, tbl, tbl))
    for body, what in ((ub, "toUpperCase"), (lb, "toLowerCase")):
        if not re.search(r"if\s*\(\s*code\s*==\s*0\s*\)[^{]*\{\s*for\s*\(\s*int\s+i\s*=\s*0\s*;\s*i\s*<\s*e\.n\s*;\s*i\+\+\s*\)\s*\*p\+\+\s*=\s*e\.u\[i\]\s*;\s*\}\s*else\s+if\s*\(\s*code\s*<", body):
            raise TranslateError("%s: the `if (code == 0)` copy-through branch before the table lookup was not found" % what)
    if not re.search(r"if\s*\(\s*code1\s*==\s*0\s*\|\|\s*code2\s*==\s*0\s*\)[^{]*\{\s*if\s*\(\s*code1\s*!=\s*code2\s*\|\|\s*e1\.n\s*!=\s*e2\.n\s*\|\|\s*memcmp\s*\(\s*e1\.u\s*,\s*e2\.u\s*,\s*e1\.n\s*\)\s*!=\s*0\s*\)\s*return\s+false\s*;\s*\}\s*else\s+if\s*\(\s*code1\s*>", nb):
        raise TranslateError("equalsNocase: the `if (code1 == 0 || code2 == 0)` verbatim comparison before the cut-over test was not found")
    if not re.search(r"toLowercaseU8\[code1 \* 2\] != toLowercaseU8\[code2 \* 2\]\s*\|\|\s*toLowercaseU8\[code1 \* 2 \+ 1\] != toLowercaseU8\[code2 \* 2 \+ 1\]", nb):
        raise TranslateError("equalsNocase no longer compares toLowercaseU8[code*2], [code*2+1] of both codes")
    txt = ("/- GENERATED by tools/props/c08.py from src/unicodedata.cpp and src/String.cpp — do not edit -/\n"
           "namespace Gen.Unicode\n\n")
    txt += "/-- `toUppercaseU8[]` (two bytes per code point, plus the literal's terminator) -/\n" + _lean_u8_array("toUppercaseU8", up) + "\n"
    txt += "/-- `toLowercaseU8[]` -/\n" + _lean_u8_array("toLowercaseU8", lo) + "\n"
    txt += "/-- `if (code < %d)` in `String::toUpperCase` -/\ndef upperCut : Nat := %d\n" % (ucut, ucut)
    txt += "/-- `if (code < %d)` in `String::toLowerCase` -/\ndef lowerCut : Nat := %d\n" % (lcut, lcut)
    txt += "/-- `if (code1 > %s || code2 > %s)` in `String::equalsNocase` -/\ndef nocaseCut1 : Nat := %s\ndef nocaseCut2 : Nat := %s\n" % (n1, n2, n1, n2)
    txt += "\n/-! buffer sizes, unit budgets and the scratch offset of the String methods that call the converters -/\n\n" + _alloc_exprs(sc)
    txt += "\nend Gen.Unicode\n"
    return {"Gen/UnicodeGen.lean": txt}

# ---------------------------------------------------------------------------------------------- K: generator

RULE = ("cases = (1) digest blocks covering every Unicode scalar value through fromCodes/chars/count/iteration/dataw/String(wchar_t*), "
        "(2) explicit sequences of boundary scalars (all ordered pairs across the 1-2-3-4-byte boundaries), (3) digest blocks over all byte "
        "strings up to a length and over the boundary alphabet {00 7F 80 BF C0 C2 DF E0 EF F0 F4 F7 F8 FF 41 61}, (4) single strings: random "
        "valid text, random bytes, mutated/truncated/overlong/surrogate/NUL-containing text, long strings, (5) the four free converters with "
        "arbitrary 32-bit inputs and budgets, (5b) dataw()/fixW() in place for every initial length 0..40 and every SafeString size 0..63 with the "
        "scratch area filled to the brim with 1-, 2-, 3-byte units and surrogate pairs, String(Array<wchar_t>), (6) equalsNocase pairs (alphabet pairs, case-flipped text, cut-over and colliding entries), (7) valid text with U+0000 inside through "
        "fromCodes/conv, wlength() (wlen) and the counts / well-formedness after case mapping (cvalid) on valid, NUL-containing, mutated and table-range text; "
        "non-trivial = distinct case containing an op with a non-empty argument")

BND = bytes([0x00, 0x7F, 0x80, 0xBF, 0xC0, 0xC2, 0xDF, 0xE0, 0xEF, 0xF0, 0xF4, 0xF7, 0xF8, 0xFF, 0x41, 0x61])
BSCAL = [1, 0x41, 0x61, 0x7F, 0x80, 0xFF, 0x7FF, 0x800, 0xD7FF, 0xE000, 0xFFFD, 0xFFFF, 0x10000, 0x10FFFF]
CUT = [1413, 1414, 1415, 1416, 1417]


def ilist(v):
    return ",".join(str(x) for x in v) if v else "-"


def is_scalar(c):
    return 0 < c <= 0x10FFFF and not (0xD800 <= c <= 0xDFFF)


def rscalar(rng):
    k = rng.random()
    if k < 0.25:
        return rng.randrange(1, 0x80)
    if k < 0.5:
        return rng.randrange(0x80, 0x800)
    if k < 0.6:
        return rng.choice(BSCAL + CUT)
    if k < 0.85:
        c = rng.randrange(0x800, 0x10000)
        return c if not 0xD800 <= c <= 0xDFFF else 0xE000
    return rng.randrange(0x10000, 0x110000)


def rtext(rng, n):
    return [rscalar(rng) for _ in range(n)]


def u8(cs):
    return "".join(chr(c) for c in cs).encode("utf-8")


def overlong(c, k):
    """k-byte (possibly overlong) encoding of c"""
    if k == 2:
        return bytes([0xC0 | (c >> 6) & 0x1F, 0x80 | c & 0x3F])
    if k == 3:
        return bytes([0xE0 | (c >> 12) & 0x0F, 0x80 | (c >> 6) & 0x3F, 0x80 | c & 0x3F])
    return bytes([0xF0 | (c >> 18) & 0x07, 0x80 | (c >> 12) & 0x3F, 0x80 | (c >> 6) & 0x3F, 0x80 | c & 0x3F])


def mutate(rng, b):
    b = bytearray(b)
    k = rng.randrange(8)
    if k == 0 and b:      # truncate inside the last character
        while b and (b[-1] & 0xC0) == 0x80:
            b.pop()
            if rng.random() < 0.5:
                break
        if b and b[-1] >= 0xC0 and rng.random() < 0.3:
            b.pop()
    elif k == 1 and b:    # replace a byte by a boundary byte
        b[rng.randrange(len(b))] = rng.choice(BND)
    elif k == 2:          # insert a boundary byte
        b.insert(rng.randrange(len(b) + 1), rng.choice(BND))
    elif k == 3 and b:    # delete a byte
        del b[rng.randrange(len(b))]
    elif k == 4:          # append a dangling lead byte
        b += bytes([rng.choice([0xC2, 0xDF, 0xE0, 0xE2, 0xEF, 0xF0, 0xF4, 0xF7])]) + bytes(rng.choice([0x80, 0xBF, 0x9F]) for _ in range(rng.randrange(0, 3)))
    elif k == 5:          # overlong form / encoded surrogate / beyond 10FFFF
        c = rng.choice([0, 0x2F, 0x41, 0x7F, 0x80, 0x7FF, 0xD800, 0xDFFF, 0xDC00, 0x110000, 0x1FFFFF, 0xFFFF])
        ks = [k for k in (2, 3, 4) if c < (1 << (11 if k == 2 else 16 if k == 3 else 21))]
        pos = rng.randrange(len(b) + 1)
        b[pos:pos] = overlong(c, rng.choice(ks))
    elif k == 6:          # embedded NUL
        b.insert(rng.randrange(len(b) + 1), 0)
    else:                 # swap two bytes
        if len(b) >= 2:
            i, j = rng.randrange(len(b)), rng.randrange(len(b))
            b[i], b[j] = b[j], b[i]
    return bytes(b)


def str_ops(b):
    h = hexs(b)
    return ["conv " + h, "cmap " + h]


def budgets(rng, n):
    return [rng.choice([-1, 0, 1, 2, max(n - 1, 1), n, n + 1, n + 7]) for _ in range(2)]


# lower-case entries that coincide or are prefixes of re-encoded code points (see AslProps/C08.lean)
NOCASE_ATOMS = [b"\xc8\xba", b"\xc8\xbe", b"\xe2\xb1\x80", b"\xe2\xb1\xa5", b"\xe2\xb1", b"\x41", b"\x61", b"\x80", b"\xd6\x87",
                b"\xc4\xb0", b"\x69", b"\xc4\xb1", b"\x49", b"\xc3\x89", b"\xc3\xa9", b"\xd6\x86", b"\xd5\x96", b"\xd6\x88", b"\xc2", b"\xe2",
                b"\xf0\x90\x90\x80", b"\xf0\x90\x90\xa8", b"\xc1\x81", b"\xe0\x81\x81", b"\x00", b"\xce\xa3", b"\xcf\x83", b"\xcf\x82"]


def gen(rng, tier):
    quick = tier == "quick"
    cases = []
    # (E) single strings with an independent reference first (the reference pass looks at the first 200k lines)
    for n in list(range(0, 40)) * (2 if quick else 12):
        t = rtext(rng, n)
        b = u8(t)
        c = ["codes " + ilist(t)] + str_ops(b)
        for k in budgets(rng, n):
            c.append("e32 %d %s" % (k, ilist(t)))
            c.append("d32 %d %s" % (k, hexs(b)))
            c.append("d16 %d %s" % (k, hexs(b)))
        u16 = list(memoryview("".join(chr(x) for x in t).encode("utf-16-le")).cast("H")) if t else []
        for k in budgets(rng, len(u16)):
            c.append("e16 %d %s" % (k, ilist(u16)))
        if t:
            c.append("code %d" % t[0])
        cases.append(c)
    # ASCII case mapping: every ASCII byte alone and in text
    cases.append(["cmap " + hexs(bytes([a])) for a in range(1, 128)])
    for i in range(60 if quick else 600):
        b = bytes(rng.randrange(1, 128) for _ in range(rng.randrange(1, 50)))
        b2 = bytes((x ^ 0x20) if chr(x).isalpha() and rng.random() < 0.5 else x for x in b)
        cases.append(["cmap " + hexs(b), "nocase %s %s" % (hexs(b), hexs(b2)), "nocase %s %s" % (hexs(b), hexs(mutate(rng, b2)))])
    # (B) all ordered pairs (and some triples) of boundary scalars
    for a in BSCAL:
        cases.append(["codes %d,%d" % (a, b) for b in BSCAL])
    for i in range(40 if quick else 400):
        t = [rng.choice(BSCAL) for _ in range(rng.randrange(3, 9))]
        cases.append(["codes " + ilist(t)] + str_ops(u8(t)))
    # (N) U+0000 inside valid text (nul_truncates) and wlength() (wlength_std / wlength_safe): valid, NUL inside, mutated
    for i in range(60 if quick else 600):
        t1 = rtext(rng, rng.randrange(0, 12))
        t2 = rtext(rng, rng.randrange(0, 6))
        b = u8(t1) + b"\0" + u8(t2)
        c = ["codes " + ilist(t1 + [0] + t2), "conv " + hexs(b), "wlen " + hexs(b), "wlen " + hexs(u8(t1 + t2)),
             "wlen " + hexs(mutate(rng, u8(t1 + t2))), "cvalid " + hexs(u8(t1 + t2)), "cvalid " + hexs(b),
             "cvalid " + hexs(mutate(rng, u8(t1 + t2)))]
        lowt = [rng.randrange(1, 1500) for _ in range(rng.randrange(1, 12))]      # code points inside / around the tables
        c.append("cvalid " + hexs(u8(lowt)))
        if i % 4 == 0:
            c.append("wlen " + hexs(bytes(rng.choice(BND) for _ in range(rng.randrange(0, 24)))))
        cases.append(c)
    # (A) every scalar value, digest blocks of 256 (quick: every block too — it is cheap)
    blk = []
    for lo in range(0, 0x110000, 256):
        blk.append("sblk %d 256" % lo)
        if len(blk) == 8:
            cases.append(blk)
            blk = []
    if blk:
        cases.append(blk)
    # (C) all byte strings of length <= 3 (thorough) / length <= 2 + boundary-led length 3 + random blocks (quick)
    cases.append(["bblk - all"])
    for a0 in range(0, 256, 8):
        cases.append(["bblk %02x all" % a for a in range(a0, a0 + 8)])
    if quick:
        lead = sorted(set(BND) | {0xC3, 0xE2, 0xED, 0xF1, 0x01, 0x9F, 0xA0, 0x8F, 0x90})
        pre = [bytes([a, b]) for a in lead for b in lead]
        pre += [bytes([rng.randrange(256), rng.randrange(256)]) for _ in range(700)]
    else:
        pre = [bytes([a, b]) for a in range(256) for b in range(256)]
    for i in range(0, len(pre), 8):
        cases.append(["bblk %s all" % hexs(p) for p in pre[i:i + 8]])
    # (D) all strings of length <= 5 (thorough) / <= 4 + sample of length 5 (quick) over the boundary alphabet
    pres = [b""]
    for L in range(1, 4 if quick else 5):
        pres += [bytes(t) for t in itertools.product(BND, repeat=L)]
    if quick:
        pres += [bytes(rng.choice(BND) for _ in range(4)) for _ in range(2500)]
    for i in range(0, len(pres), 8):
        cases.append(["bblk %s bnd" % hexs(p) for p in pres[i:i + 8]])
    # (E') random bytes, mutated text, long strings
    for i in range(1500 if quick else 20000):
        k = rng.random()
        if k < 0.3:
            b = bytes(rng.getrandbits(8) for _ in range(rng.randrange(0, 24)))
        elif k < 0.5:
            b = bytes(rng.choice(BND) for _ in range(rng.randrange(4, 14)))
        else:
            b = u8(rtext(rng, rng.randrange(0, 20)))
            for _ in range(rng.randrange(1, 4)):
                b = mutate(rng, b)
        c = ["str " + hexs(b)]
        n = len(b)
        k = rng.choice([-1, 0, 1, 2, n, n + 1])
        c += ["d32 %d %s" % (k, hexs(b)), "d16 %d %s" % (k, hexs(b))]
        cases.append(c)
    for n in ([100, 1000, 4097, 70000] if quick else [100, 1000, 4097, 70000, 300000, 1 << 20]):
        t = rtext(rng, n)
        b = u8(t)
        cases.append(["conv " + hexs(b), "cmap " + hexs(b)])
        m = mutate(rng, mutate(rng, b))
        cases.append(["str " + hexs(m), "str " + hexs(b[:-1]) if b else "str -"])
    # (G) the free converters on arbitrary 32-bit values
    SPECIAL = [-2147483648, -257, -256, -255, -128, -1, 1, 0x7F, 0x80, 0x7FF, 0x800, 0xD7FF, 0xD800, 0xDBFF, 0xDC00, 0xDFFF, 0xE000,
               0xFFFF, 0x10000, 0x10FFFF, 0x110000, 0x1FFFFF, 0x200000, 0x3FFFFFF, 0x7FFFFFFF]
    for i in range(400 if quick else 6000):
        n = rng.randrange(0, 10)
        v = [rng.choice(SPECIAL) if rng.random() < 0.5 else (rng.getrandbits(32) - (1 << 31)) if rng.random() < 0.3 else rscalar(rng) for _ in range(n)]
        w = [rng.choice(SPECIAL) if rng.random() < 0.3 else rng.randrange(0xD800, 0xE000) if rng.random() < 0.5 else rng.randrange(1, 0x10000) for _ in range(n)]
        k = rng.choice([-1, 0, 1, 2, n, n + 1])
        c = ["e32 %d %s" % (k, ilist(v)), "codes " + ilist(v), "e16 %d %s" % (k, ilist(w))]
        if v:
            c.append("code %d" % v[0])
        cases.append(c)
    # every high surrogate boundary x low surrogate boundary through utf16toUtf8
    hs = [0xD7FF, 0xD800, 0xD801, 0xDBFF, 0xDC00, 0xDFFF, 0xE000, 0x41]
    cases.append(["e16 9 %d,%d,65" % (a, b) for a in hs for b in hs])
    # (F) equalsNocase
    alpha1 = [b""] + [bytes([x]) for x in BND]
    if quick:
        cases.append(["nocase %s %s" % (hexs(a), hexs(b)) for a in alpha1 for b in alpha1])
        al2 = [bytes(t) for L in range(0, 3) for t in itertools.product(BND, repeat=L)]
        for i in range(150):
            cases.append(["nocase %s %s" % (hexs(rng.choice(al2)), hexs(rng.choice(al2))) for _ in range(20)])
    else:
        al2 = [bytes(t) for L in range(0, 3) for t in itertools.product(BND, repeat=L)]
        for a in al2:
            cases.append(["nocase %s %s" % (hexs(a), hexs(b)) for b in al2])
    RAWS = [b"\xc3", b"\xe2\x82", b"\xf0\x9f\x98", b"\xc0\x80", b"\xe0\x80\x80", b"\xf0\x80\x80\x80", b"\x80", b"\x80\x40\x40\x40",
            b"\xf8\x80\x80\x80", b"\xbf\x41", b"\xe2", b"\xc2", b"\x88\xc0\xc0\xc0", b"\xe0\x40\x40", b"\xe2\xb1\x80", b"\xc8\xba", b"\xc8\xbe"]
    for i in range(200 if quick else 3000):
        pre = u8(rtext(rng, rng.randrange(0, 5)))
        pre2 = pre.decode().swapcase().encode() if all(len(ch.swapcase()) == 1 for ch in pre.decode()) else pre
        r1 = b"".join(rng.choice(RAWS) for _ in range(rng.randrange(1, 4)))
        r2 = r1 if rng.random() < 0.4 else b"".join(rng.choice(RAWS) for _ in range(rng.randrange(1, 4)))
        post = bytes(rng.choice(b"aAzZ@") for _ in range(rng.randrange(0, 3)))
        a, b = pre + r1 + post, pre2 + r2 + (post.swapcase() if rng.random() < 0.5 else post)
        cases.append(["nocase %s %s" % (hexs(a), hexs(b)), "cmap " + hexs(a), "cmap " + hexs(b)])
    cases.append(["nocase %s %s" % (hexs(a), hexs(b)) for a in RAWS for b in RAWS])
    cut = [u8([c]) for c in CUT + [304, 305, 383, 570, 574, 575, 576, 0x2C65, 0x2C66, 0x2C40, 0x130, 0x69, 0x49, 0x4B, 0x212A, 0xDF, 0x1E9E]]
    cases.append(["nocase %s %s" % (hexs(a), hexs(b)) for a in cut for b in cut])
    for i in range(300 if quick else 5000):
        a = b"".join(rng.choice(NOCASE_ATOMS) for _ in range(rng.randrange(0, 6)))
        if rng.random() < 0.5:
            b = b"".join(rng.choice(NOCASE_ATOMS) for _ in range(rng.randrange(0, 6)))
        else:
            s = a.decode("utf-8", "ignore")
            s = "".join((ch.upper() if rng.random() < 0.5 else ch.lower()) if len(ch.upper()) == 1 and len(ch.lower()) == 1 else ch for ch in s)
            b = s.encode("utf-8")
        t = rtext(rng, rng.randrange(0, 12))
        s = "".join(chr(c) for c in t)
        s2 = "".join((ch.swapcase() if len(ch.swapcase()) == 1 and rng.random() < 0.6 else ch) for ch in s)
        cases.append(["nocase %s %s" % (hexs(a), hexs(b)), "nocase %s %s" % (hexs(s.encode()), hexs(s2.encode())),
                      "nocase %s %s" % (hexs(s.encode()), hexs(mutate(rng, s2.encode())))])
    # (H) the wide scratch area: dataw()/fixW() in place (also through SafeString(s, n)), String(Array<wchar_t>)
    def runits(k):
        r = rng.random()
        if r < 0.25:
            return [rng.choice([0x20AC, 0xFFFF, 0x800, 0xD7FF, 0xE000])] * k              # 3 bytes per unit: tightest for the cursors
        if r < 0.4:
            return [x for _ in range(k // 2 + 1) for x in (0xD800 + rng.randrange(0x400), 0xDC00 + rng.randrange(0x400))][:k]
        if r < 0.6:
            return list(memoryview("".join(chr(c) for c in rtext(rng, k)).encode("utf-16-le")).cast("H")) if k else []
        return [rng.choice(SPECIAL) if rng.random() < 0.3 else rng.randrange(0xD800, 0xE000) if rng.random() < 0.3 else rng.randrange(1, 0x10000) for _ in range(k)]
    for L in range(0, 41):                      # every initial length across the inline/heap boundary, scratch filled to the brim
        b = bytes(rng.randrange(1, 256) for _ in range(L))
        c = []
        for fill in (0x20AC, 0x41, 0x3A9):
            c.append("fixw %s %s" % (hexs(b), ilist([fill] * (L + 3))))
        c.append("fixw %s %s" % (hexs(b), ilist([x for _ in range(L) for x in (0xD83D, 0xDE00)][:L + 3])))
        c.append("fixw %s %s" % (hexs(b), ilist(runits(rng.randrange(0, L + 4)))))
        cases.append(c)
    for L in range(0, 41):                      # const SafeString (read-only wide view + fixW()) at every length
        t = rtext(rng, L)
        b = u8(t)[:L] if rng.random() < 0.3 else u8(t)
        cases.append(["safec " + hexs(u8(t)), "safec " + hexs(bytes([0x61]) * L), "safec " + hexs(mutate(rng, b))])
    for n in range(0, 64):                      # every SafeString size
        c = ["safe %d %s" % (n, ilist([0x20AC] * (3 * n + 3))), "safe %d %s" % (n, ilist(runits(rng.randrange(0, 3 * n + 4))))]
        c.append("safe %d %s" % (n, ilist(runits(max(n - 1, 0)))))
        cases.append(c)
    for i in range(300 if quick else 4000):
        k = rng.randrange(0, 30)
        L = rng.randrange(0, 60)
        b = bytes(rng.getrandbits(8) for _ in range(L))
        cases.append(["fixw %s %s" % (hexs(b), ilist(runits(k))), "safe %d %s" % (rng.randrange(0, 64), ilist(runits(k))),
                      "warr " + ilist(runits(k)), "warr " + ilist(runits(rng.randrange(0, 6)))])
    return cases


def nontrivial(case):
    return any(len(l.split()) > 1 and l.split()[-1] != "-" for l in case)


def _classify(b):
    if 0 in b:
        return "with-NUL"
    try:
        b.decode("utf-8")
        return "ascii" if all(x < 128 for x in b) else "valid-utf8"
    except UnicodeDecodeError as e:
        return "truncated-at-end" if e.reason == "unexpected end of data" and e.end == len(b) else "ill-formed"


def distribution(cases):
    ops = {}
    cls = {}
    lens = {}
    strings = 0
    for c in cases:
        for l in c:
            t = l.split()
            ops[t[0]] = ops.get(t[0], 0) + 1
            if t[0] in ("conv", "cmap", "str", "d32", "d16", "nocase", "safec", "wlen", "cvalid"):
                for h in (t[1:] if t[0] == "nocase" else t[-1:]):
                    b = unhex(h)
                    k = _classify(b)
                    cls[k] = cls.get(k, 0) + 1
                    n = len(b)
                    bk = "0" if n == 0 else "1-4" if n <= 4 else "5-15" if n <= 15 else "16-23" if n <= 23 else "24-255" if n < 256 else ">=256"
                    lens[bk] = lens.get(bk, 0) + 1
            elif t[0] == "bblk":
                strings += 256 if t[2] == "all" else 16
    return {"ops_by_kind": ops, "single_string_classes": cls, "single_string_lengths": lens,
            "strings_inside_byte_blocks": strings, "scalars_inside_scalar_blocks": ops.get("sblk", 0) * 256}


def _windows(seq, cap=160):
    """small sub-sequences first: singles, then windows of 2..4, then halves"""
    out = []
    n = len(seq)
    for w in (1, 2, 3, 4):
        for i in range(0, max(n - w + 1, 0)):
            out.append(seq[i:i + w])
            if len(out) >= cap:
                return out
    if n > 8:
        out += [seq[:n // 2], seq[n // 2:]]
    return out


def simplify_line(line):
    """expand a digest block into its individual strings so that a failing block shrinks to one input;
    shrink the argument of a single-string op to a short window of it"""
    t = line.split()
    if t[0] == "sblk":
        lo, cnt = int(t[1]), int(t[2])
        return ["codes %d" % c for c in range(lo, lo + cnt) if is_scalar(c)]
    if t[0] == "bblk":
        p = unhex(t[1])
        al = range(256) if t[2] == "all" else BND
        return ["str " + hexs(p + bytes([x])) for x in al]
    if t[0] == "str":
        return ["conv " + t[1], "cmap " + t[1]] + ["str " + hexs(w) for w in _windows(unhex(t[1])) if len(w) < len(unhex(t[1]))]
    if t[0] in ("conv", "cmap", "safec", "wlen", "cvalid"):
        b = unhex(t[1])
        return [t[0] + " " + hexs(w) for w in _windows(b) if len(w) < len(b)]
    if t[0] in ("d32", "d16"):
        b = unhex(t[2])
        return ["%s 0 %s" % (t[0], hexs(w)) for w in _windows(b) if len(w) < len(b)]
    if t[0] in ("fixw", "safe") and t[2] != "-":
        v = t[2].split(",")
        return ["%s %s %s" % (t[0], t[1], ",".join(w)) for w in _windows(v) if len(w) < len(v)]
    if t[0] == "warr" and t[1] != "-":
        v = t[1].split(",")
        return ["warr " + ",".join(w) for w in _windows(v) if len(w) < len(v)]
    if t[0] in ("e32", "e16") and t[2] != "-":
        v = t[2].split(",")
        return ["%s 0 %s" % (t[0], ",".join(w)) for w in _windows(v) if len(w) < len(v)]
    if t[0] == "nocase":
        return ["str " + t[1], "str " + t[2]]
    if t[0] == "codes" and t[1] != "-":
        v = t[1].split(",")
        return ["codes " + ",".join(w) for w in _windows(v) if len(w) < len(v)]
    return []


EXHAUSTIVE = {
    "quick": "all 1,112,064 scalar values (digest blocks, fromCodes -> chars/count/iteration/dataw/String(wchar_t*)); all ordered pairs of 14 boundary "
             "scalars; all byte strings of length <= 2 and all of length 3 whose first two bytes are boundary bytes; all strings of length <= 4 over the "
             "16-byte boundary alphabet; equalsNocase on all pairs of alphabet strings of length <= 1",
    "thorough": "all 1,112,064 scalar values; all ordered pairs of 14 boundary scalars; all 16,843,008 byte strings of length <= 3; all 1,118,481 strings of "
                "length <= 5 over the 16-byte boundary alphabet; equalsNocase on all 273x273 pairs of alphabet strings of length <= 2",
}

# ---------------------------------------------------------------------------------------------- independent reference

REFERENCE_NAME = "python3 codecs (utf-8 strict, utf-16-le), bytes.upper/lower (C locale) on ASCII"


def _u16(s):
    return list(memoryview(s.encode("utf-16-le")).cast("H")) if s else []


def _conv_expected(text):
    """expected `conv` fields for a str of non-NUL scalar values"""
    b = text.encode("utf-8")
    cs = [ord(ch) for ch in text]
    it = ",".join("%d:%d" % (ord(ch), len(ch.encode("utf-8"))) for ch in text) or "-"
    return "count=%d chars=%s iter=%s wide=%s back=%d %s" % (len(cs), ilist(cs), it, ilist(_u16(text)), len(b), hexs(b))


def _strict(b):
    """the text of the C string inside b (up to the first NUL) if it is well-formed UTF-8, else None"""
    b = b.split(b"\0")[0]
    try:
        return b.decode("utf-8", "strict")
    except UnicodeDecodeError:
        return None


def _take(n, total):
    return total if n <= 0 else min(n, total)


def reference(line):
    t = line.split()
    op = t[0]
    try:
        if op == "conv":
            s = _strict(unhex(t[1]))
            return None if s is None else _conv_expected(s)
        if op == "cvalid":
            b = unhex(t[1])
            if 0 in b:
                return None
            s = _strict(b)
            return None if s is None else "%d %d %d 1 1" % (len(s), len(s), len(s))
        if op == "wlen":
            s = _strict(unhex(t[1]))
            return None if s is None else "%d" % len(_u16(s))
        if op == "codes":
            v = [int(x) for x in t[1].split(",")] if t[1] != "-" else []
            if 0 in v:
                v = v[:v.index(0)]
            if not all(is_scalar(c) for c in v):
                return None
            s = "".join(chr(c) for c in v)
            b = s.encode("utf-8")
            return "s=%d %s %s" % (len(b), hexs(b), _conv_expected(s))
        if op == "code":
            c = int(t[1])
            if c == 0:
                return "0 -"
            if not is_scalar(c):
                return None
            b = chr(c).encode("utf-8")
            return "%d %s" % (len(b), hexs(b))
        if op == "cmap":
            b = unhex(t[1])
            if all(0 < x < 128 for x in b):
                return "up=%d %s lo=%d %s le=1" % (len(b), hexs(b.upper()), len(b), hexs(b.lower()))
            return None
        if op == "nocase":
            a, b = unhex(t[1]), unhex(t[2])
            if all(0 < x < 128 for x in a + b):
                e = a.lower() == b.lower()
                return "eq=%d lower_eq=%d" % (e, e)
            return None
        if op == "e32":
            n = int(t[1])
            v = [int(x) for x in t[2].split(",")] if t[2] != "-" else []
            if 0 in v:
                v = v[:v.index(0)]
            if not all(is_scalar(c) for c in v):
                return None
            b = "".join(chr(c) for c in v[:_take(n, len(v))]).encode("utf-8")
            return "%d %s" % (len(b), hexs(b))
        if op == "d32":
            n = int(t[1])
            s = _strict(unhex(t[2]))
            if s is None:
                return None
            cs = [ord(ch) for ch in s][:_take(n, len(s))]
            return "%d %s" % (len(cs), ilist(cs))
        if op == "d16":
            n = int(t[1])
            s = _strict(unhex(t[2]))
            if s is None:
                return None
            u = _u16(s[:_take(n, len(s))])
            return "%d %s" % (len(u), ilist(u))
        if op == "safec":
            raw = unhex(t[1])
            txt = _strict(raw)
            if txt is None:
                return None
            ln = len(raw)
            size0 = 0 if ln < 16 else max(ln + 1, 20)
            need = ln + 1 + (ln + 2) * 4
            if size0 == 0:
                size = 0 if need < 16 else max(need + 1, 24)
            else:
                size = max(2 * size0, need + 1) if need + 1 > size0 else size0
            off = (ln + 1) + ((4 - ((ln + 1) & 3)) & 3)
            b = txt.encode("utf-8")
            return "off=%d cap=%d wide=%s %d %s" % (off, size or 16, ilist(_u16(txt)), len(b), hexs(b))
        if op == "warr":
            v = [int(x) for x in t[1].split(",")] if t[1] != "-" else []
            if 0 in v:
                v = v[:v.index(0)]
            if not all(0 < x < 0x10000 for x in v):
                return None
            try:
                b = b"".join(x.to_bytes(2, "little") for x in v).decode("utf-16-le", "strict").encode("utf-8")
            except UnicodeDecodeError:
                return None
            return "%d %s" % (len(b), hexs(b))
        if op in ("fixw", "safe"):
            # content after fixW() for well-formed UTF-16 that fits the scratch area (offset/capacity taken from the python copy of resize())
            v = [int(x) for x in t[2].split(",")] if t[2] != "-" else []
            if op == "fixw":
                ln = len(unhex(t[1]))
                size0 = 0 if ln < 16 else max(ln + 1, 20)
            else:
                ln = 3 * (int(t[1]) % 64)
                size0 = 0 if ln < 16 else max(ln + 1, 24)
            need = ln + 1 + (ln + 2) * 4
            if size0 == 0:
                size = 0 if need < 16 else max(need + 1, 24)
            else:
                size = max(2 * size0, need + 1) if need + 1 > size0 else size0
            cap = size or 16
            off = (ln + 1) + ((4 - ((ln + 1) & 3)) & 3)
            v = v[:(cap - off) // 4 - 1]
            if 0 in v:
                v = v[:v.index(0)]
            if not all(0 < x < 0x10000 for x in v):
                return None
            try:
                b = b"".join(x.to_bytes(2, "little") for x in v).decode("utf-16-le", "strict").encode("utf-8")
            except UnicodeDecodeError:
                return None
            return "off=%d cap=%d %d %s" % (off, cap, len(b), hexs(b))
        if op == "e16":
            n = int(t[1])
            v = [int(x) for x in t[2].split(",")] if t[2] != "-" else []
            if 0 in v:
                v = v[:v.index(0)]
            if not all(0 < x < 0x10000 for x in v):
                return None
            try:
                s = bytes(memoryview(bytearray(2 * len(v))).cast("H").tolist() and b"".join(x.to_bytes(2, "little") for x in v)).decode("utf-16-le", "strict")
            except UnicodeDecodeError:
                return None
            b = s[:_take(n, len(s))].encode("utf-8")
            return "%d %s" % (len(b), hexs(b))
    except Exception:
        return None
    return None


TECHNIQUE = ("Lean 4 theorems (structural induction over byte/unit lists, bit-operation lemmas, linear passes over the regenerated case tables "
             "discharged by decide +kernel) + differential correspondence check against the real library under AddressSanitizer with the bytes "
             "after every terminator poisoned")
TRUSTED = ["tools/props/c08.py translate(): regex extraction of toUppercaseU8/toLowercaseU8 (src/unicodedata.cpp, \\xHH literals only) and of the three "
           "cut-over constants of toUpperCase/toLowerCase/equalsNocase (src/String.cpp) into lean/Gen/UnicodeGen.lean; _cexpr(): recursive-descent translation "
           "of the C size/offset/budget expressions of dataw, fixW, String(wchar_t*), String(Array<wchar_t>), fromCodes, fromCode, chars (+ - * & over literals, "
           "_len/length()/wcslen; sizeof(wchar_t) read as 4) into Lean Nat terms, raising on anything else",
           "harness/c08.cpp: ASAN_POISON_MEMORY_REGION over [terminator+1, end of the String's buffer) while const methods run"]
ASSUMPTIONS = ["wchar_t and int are 32-bit two's-complement; a store into a char keeps the low 8 bits; plain char masks (c & 0xe0 …) give the same value on "
               "the sign-extended char as on the unsigned byte (exercised by K on all 256 lead bytes)",
               "fewer than 2^31 loop iterations (the int budget `--n` does not wrap)",
               "String length/capacity/allocation semantics (C03): String(n, n) and init(n) provide n+1 writable bytes; Array<int>(n) provides n ints",
               "wcslen returns the index of the first zero unit"]
LEVEL_TEXT = ("Proved in Lean 4 about the executable model the driver runs (all inputs, no bounds): for every sequence of non-NUL Unicode scalar values "
              "(Lean `Char`) fromCodes/utf32toUtf8 write exactly Lean core's UTF-8 (String.utf8EncodeChar), chars()/utf8toUtf32 return the code points "
              "(UTF-32->UTF-8->UTF-32 = id), dataw()/utf8toUtf16 give the standard UTF-16 with surrogate pairs, String(wchar_t*)/utf16toUtf8 give back the "
              "UTF-8 (UTF-8->UTF-16->UTF-8 = id), likewise String(Array<wchar_t>) and the in-place fixW(), count() = chars().length = number of iteration steps and the iteration advances by utf8Size; the unit "
              "budget n yields exactly the first n characters (also for the 16-bit converters, where a surrogate pair costs one: budget_utf8toUtf16, budget_utf16toUtf8); toUpperCase/toLowerCase of valid text are valid text "
              "(standard UTF-8 of non-NUL scalar values) with the same count()/chars()/iteration length (case_valid_text, case_preserves_count; K op cvalid); "
              "U+0000 (the one scalar value a C string cannot hold) acts as terminator in fromCodes, count, chars, iteration and dataw "
              "(nul_truncates); wlength() = number of UTF-16 units on valid text and <= length() on all bytes (op wlen). "
              "For EVERY byte string / 32-bit unit string containing a terminator (ill-formed, truncated, "
              "overlong, NUL inside): no converter, count(), enumerator, case function or equalsNocase reads outside the allocation, outputs fit the "
              "buffers the callers allocate (len+1 ints, wide scratch area, 4n+1, cap()); fixW()'s in-place conversion (model with explicit read and write cursors over one "
              "buffer: a store at/after the read cursor or outside the buffer, or a read outside it, is a fault) never faults for any offset, capacity and "
              "scratch content holding a terminator and equals the out-of-place conversion; table reads are inside the tables, case mapping never yields "
              "more bytes than its input and never contains a NUL (undecodable bytes are copied through), equalsNocase(s,t) <-> toLowerCase(s) = toLowerCase(t) for all byte strings, and on ASCII the mappings are the "
              "C-locale ones; equalsNocase is reflexive, symmetric and transitive on all byte strings (nocase_equivalence). The buffer sizes, unit budgets and the scratch "
              "offset that dataw/fixW/String(wchar_t*)/String(Array<wchar_t>)/fromCodes/fromCode/chars hand to the converters are regenerated from src/String.cpp on "
              "every run, proved equal to the model's (alloc_exprs_from_source) and the in-bounds statements are restated over the regenerated expressions "
              "(utf_safe_source_sizes). "
              "The case tables and the three cut-over constants are regenerated from /repo on every run and their per-entry facts "
              "re-decided by the kernel; the loop models are tied to the code by the correspondence check (every scalar value, all short byte strings, "
              "boundary alphabet, random long strings, poisoned bytes after every terminator).")
LEVEL_NOTE = ("Trusted: Lean kernel, the table/cut-over translator, the harness (incl. manual ASan poisoning). Assumed and exercised by K: 32-bit signed "
              "wchar_t/int, char stores keep the low 8 bits, < 2^31 loop iterations, String/Array allocation sizes (C03). The bit-operation forms of the "
              "code are kept in the model and converted to arithmetic by proved lemmas (no separate arithmetic copy). Termination is by construction "
              "(structural recursion of the model); a hang of the real code would be reported by K as a timeout. The enumeration loop is transcribed "
              "with `operator*`, `operator++` and `operator bool` fused into one structural recursion. Not claimed: correctness of the non-ASCII case "
              "images themselves (the property does not ask for it; unassigned code points mapping to U+0243 are in outside_findings.txt). Repaired in /repo and now proved: "
              "undecodable bytes copied through instead of a NUL (8124a21, case_no_nul), two-byte table entries no longer cut-off 3-byte images (b3f3f80); "
              "upper_shape2/lower_shape2 re-decide on every run that each entry is one ASCII byte or a C2-DF lead plus an 80-BF continuation byte. fixW(): the scratch area is modelled as a list of 32-bit units at a 4-aligned offset, so a store below the read cursor cannot change an unread "
              "unit by construction (stores at/after it are the `overtake` fault); the capacity arithmetic of resize() is modelled (sizes < 2^30) and tied by K "
              "(offset and cap() are printed by both sides). The const SafeString conversion (repaired in 35b682d: it returned the String object's address) is the `safec` op, proved by safe_const_safe / safe_const_std. fixW() called on a String whose scratch area was never created by dataw() is a broken caller contract, not modelled. Outside the property (outside_findings.txt): the locale-dependent toLocal/fromLocal/localToUtf8/utf8ToLocal paths, and native 32-bit wchar_t text above U+FFFF (units are treated as UTF-16 on every platform; the model transcribes exactly that: fromWide [0x1F600,0] = FF 98 80). count_trunc2_counterexample keeps the pre-4ac590f "
              "count() as a witness of the repaired over-read.")


# ---------------------------------------------------------------------------------------------- broken obligation -> concrete input

def obligation_search(ctx):
    """a theorem or a regenerated table fact no longer checks: look for an input on which the *implementation alone*
    violates a clause of the property (ASCII case images, output length, equalsNocase <-> lower-cased equality)"""
    from lib import core
    from lib.engine import Failure
    exe = ctx["exe"]

    def enc(c):
        return bytes([c]) if c < 0x80 else overlong(c, 2) if c < 0x800 else overlong(c, 3)
    lines = []
    for c in range(1, 1500):
        lines.append("cmap " + hexs(enc(c)))
    codes = list(range(1380, 1460)) + [0x41, 0x61, 0x130, 0x131, 0x17F, 0x23A, 0x23E, 0x2C65, 0x2C66, 0x378, 0x588]
    for a in codes:
        for b in codes:
            lines.append("nocase %s %s" % (hexs(enc(a)), hexs(enc(b))))
    out0, _, _ = core.run_impl(exe, ["cmap " + hexs(enc(c)) for c in range(128, 1443)], timeout=300)
    for c, o in zip(range(128, 1443), out0):
        # a lower/upper-case image that is the cut-off beginning of a longer sequence swallows the byte that follows it
        m = re.match(r"up=\d+ (\S+) lo=\d+ (\S+) ", o)
        if not m:
            continue
        for img in (m.group(2), m.group(1)):
            ib = unhex(img)
            if ib and ib[0] >= 0xE0 and len(ib) < (3 if ib[0] < 0xF0 else 4):
                lines.append("nocase %s %s" % (hexs(enc(c) + b"\x80"), hexs(ib + b"\x80" * ((3 if ib[0] < 0xF0 else 4) - len(ib)))))
    out, crash, err = core.run_impl(exe, lines, timeout=300)
    for l, o in zip(lines, out):
        bad = None
        exp = reference(l)
        if exp is not None and o != exp:
            bad = "independent reference (%s) expects %s" % (REFERENCE_NAME, exp)
        elif l.startswith("cmap") and re.search(r"(?:up|lo)=\d+ (?:[0-9a-f]{2})*00(?:[0-9a-f]{2})* ", o + " ") and not any(x == 0 for x in unhex(l.split()[1])):
            bad = "case mapping wrote a NUL byte: length() is not the offset of the terminator"
        elif l.startswith("cmap") and o.endswith("le=0"):
            bad = "case mapping produced more bytes than its input"
        elif l.startswith("nocase") and o.startswith("eq=") and o.split()[0][3:] != o.split()[1][9:]:
            bad = "equalsNocase disagrees with equality of the lower-cased forms"
        elif o.startswith("err"):
            bad = "harness self-check failed: " + o
        if bad:
            return Failure("diverge", [l], ["case", o], [], clause=bad)
    if crash is not None and len(out) < len(lines):
        return Failure("crash", [lines[len(out)]], out[-1:], [], crash=crash, clause="memory error / abnormal termination: " + crash, stderr=err[-3000:])
    return None
