"""C09 — HTTP request parsing is total and safe and never yields a path containing '..': plugin for tools/check.py"""
import re
import zlib

from lib.core import hexs, unhex

ID = "C09"
PROPS_MODULE = "AslProps.C09"
DRIVER = "c09"
HARNESS_TIMEOUT = 900

RULE = ("cases = groups of independent ops, each op one complete connection: `req` = HttpRequest(Socket&) on a socketpair "
        "fed with a byte stream that the peer half-closes (generated well-formed requests; the same with mutated request "
        "lines, header blocks, Content-Length/chunked framings, Range/Expect headers; every such stream also cut at every "
        "byte offset); `srv` = HttpServer::serve(Socket) on a socketpair with 1-5 pipelined requests (keep-alive, close, "
        "HTTP/1.0, OPTIONS) and their mutations/cuts; `tcp` = the same streams through a real concurrent HttpServer on "
        "loopback TCP, 1-4 connections at once; `tg` = request targets (all token strings over . / %2e %2f %25 a up to a "
        "byte length, random longer ones with %00 %zz ? # ..); `url`/`dec` = Url(s) / Url::decode(s) over URL "
        "metacharacters; `file` = static file server with traversal attempts and Range/If-Modified-Since headers; "
        "valid requests (no body, Content-Length, chunked, keep-alive pairs, HTTP/1.0, OPTIONS first) cut at EVERY byte "
        "position through srv/req/tcp for the dispatch clause; every percent escape %00-%ff in both letter cases; query strings with "
        "escaped & = + inside keys and values; Content-Length that is not a length / together with chunked, each followed by a "
        "pipelined request; folded header lines, Content-Length with leading zeros, Transfer-Encoding spellings; `rng` = GET of a fixture file (36, 4, 0 bytes) with a generated Range value (number pairs around the size, 2^31, 2^32+5, 2^63, 18/19/20 digits, signs, blanks, one/three/four parts, suffix forms, other units, commas, NUL, random bytes without CR/LF); `upg` = a request head with Upgrade: websocket (or near misses, cut or mutated heads, a Content-Length body) and 0-200 first-frame bytes in ONE segment to an HttpServer with a linked WebSocketServer; `upgf` = the same in two segments (cut anywhere, second segment 15 ms later); `fmap` = GET of every short token path on the file-server fixture (status and length); well-formed requests (no body, Content-Length, chunked) with an Expect field (100-continue mostly; other case, lists, other values) at a random header position through req (whole, with trailing bytes, cut) and srv (pipelined); non-trivial = distinct case with a non-empty stream")

TRUSTED = ["tools/props/c09.py _frame(): lenient RFC 7230 framing parser used by the dispatch clause (no opinion where framing is a matter of interpretation: NUL in the head, folded or duplicate Content-Length/Transfer-Encoding, non-decimal lengths, chunk extensions/trailers)",
           "harness/c09.cpp watchdog (12 s kill) and SLOW flag (>5 s wall or >1.5 s CPU per connection) for the 'terminates promptly' clause",
           "the python reference parser in tools/props/c09.py (judges well-formed requests on the implementation alone)"]

ASSUMPTIONS = [
    "the whole stream has arrived and the peer has closed its write side before the server reads: available() = unread bytes, "
    "waitInput()/select() report readability at once (socket timeouts and partial arrival are outside the model)",
    "POSIX read() on a stream socket returns the next min(n, pending) bytes and 0 at EOF; send() on a closed descriptor fails",
    "libc strtoul(.,16) as modelled (blanks, sign, 0x prefix, saturation at 2^64-1); isspace/toupper/tolower in the C locale",
    "myatoi/myatol overflow wraps modulo 2^32 / 2^64 (what the compiled code does; formally undefined in C++)",
    "String::toLowerCase is modelled for ASCII only (Connection header values with bytes >= 0x80 are not generated for srv/tcp)",
    "Map<String,String> keeps keys sorted by strcmp and finds by strcmp-equality (C02 proves the binary search)",
    "HttpResponse::putFile(path, begin, end) on a file of n bytes announces what AslModel.HttpFrame.rangeOf n begin end says (C10's model, tied there by C10's K and here by `rng`); String::split(sep) finds separators by strstr, i.e. up to the first NUL (splitC)",
]

TECHNIQUE = "Lean 4 theorems over an executable transcription of the reader (fuel-indexed loops, checked indices) + differential correspondence check through socketpairs / loopback TCP"

LEVEL_TEXT = ("Proved in Lean 4 about the model that the driver runs, for ALL byte lists (the stream a peer sends before it closes, "
              "cut anywhere). PATH: (no_dotdot, no_dotdot_served, no_dotdot_target, replace_removes_all, path_has_no_nul) the path "
              "handed to the application never contains `..` nor NUL; (decoded_path_is_path_sent, percent_escape_value, "
              "plain_target_unchanged, urldecode_total) it IS the percent-decoded target (%xy = 16x+y for hex digits of either case; "
              "the decode function is stated) whenever that has no `..`; (served_file_under_root) the name serveFile appends to the "
              "root is `/` + a string without `..`/NUL for every dispatched request, so the file lies under the root. TOTALITY: "
              "(read_total, readHeaders_total, readBody_total, serve_total) HttpRequest::read and the keep-alive loop of "
              "HttpServer::serve (serveLoop) never index outside a string, end within |stream|+2 passes, and leave a SUFFIX of the "
              "stream unread (for serve this clause is stated on the loop, before closeBehind drops the rest; about serve itself "
              "serve_total states that it returns with the connection closed); (url_total, requestline_total, target_total, query_total) Url::Url, the request-line/target splits and "
              "Url::parseQuery never index outside their argument. HEADERS: (header_lookup_any_case, capitalized_case_invariant, "
              "header_lookup_case_insensitive, header_set_get) lookup ignores letter case altogether. QUERY: "
              "(query_is_c15_parseQuery, query_roundtrip) query() computes C15's parseQuery on every NUL-free query string, hence "
              "parseQuery(params d) = d for every sorted d with non-empty keys (escaped & = + % inside keys/values included). "
              "FAITHFUL: (readLine_faithful, requestline_faithful, headers_faithful, body_content_length_exact, read_faithful, "
              "read_faithful_chunked, read_faithful_chunked_any_spelling, serve_faithful) read(serialize q ++ rest) = (q, rest) for "
              "well-formed q with no body, a Content-Length body or a chunked body, and the loop hands every pipelined well-formed "
              "request over in order and has itself read the whole stream (stated on serveLoop). DISPATCH: (dispatch_implies_complete, read_dispatch_complete, "
              "dispatch_requires_valid_content_length, dispatch_requires_framed_transfer_encoding, field_name_spec, cut_in_request_line_not_dispatched) every request handed to the application is "
              "a segment of the stream consisting of a full request line that splits into the method/target/protocol handed over, a "
              "complete header block whose line-by-line fold IS the header dictionary handed over (HeaderBlockD; a field name is a non-empty run of bytes 0x21-0x7e or >= 0x80, "
              "isFieldName, stated in the spec file and proved equal to the model's validName; a continuation line needs a field before it), and the complete "
              "body those headers announce, which is the body handed over: the chunk sequence (valid size lines, exactly that many "
              "data bytes, CRLF after each chunk, terminating 0 chunk) when Transfer-Encoding is chunked (Content-Length is then ignored), else exactly the decimal Content-Length (< 2^31; signed, non-digit or longer values "
              "are never dispatched), else nothing. The same clause is judged on the real server by an independent RFC 7230 framing "
              "parser over every req/srv/tcp stream of every run. The model is tied to the code by the correspondence check on all "
              "observable fields, socket state, bytes written back, bytes left unread (req: after one read; srv: where the reader itself closed the connection - on the other exits "
              "closeBehind drops them, there the bytes unread at each dispatch, at=, are compared and judged against the framed end by the framing parser; tcp: not observed), and (fmap) status/length of the static file "
              "answer for every short token path on a fixture tree. RANGE: (range_parser_safe, range_of_any_stream, range_args_in_bounds, range_canonical_forms) for every "
              "Range value (any bytes) and file size n the parser of HttpServer::serve ends, reads parts[0]/parts[1] of the split only where they exist "
              "(checked array access partAt?), and answers whole file, unsatisfiable, or begin <= end < n - through the same rangeOf as C10's model, and on `bytes=first-last` / `bytes=first-` with up to 9 digits the answer is first..min(last, n-1) or unsatisfiable (canonicalAnswer; last = 0 reads as `to the end`, C10's known range-end-zero); tied by "
              "the op `rng` (status, Content-Range, Content-Length, body length of the real answer on files of 36, 4 and 0 bytes). UPGRADE: "
              "(upgrade_handoff_exact, upgrade_handoff_any_fragmentation, upgrade_handoff_consumes_prefix) a well-formed request with Upgrade: websocket followed by ANY bytes (the first frame, whole, "
              "in part, or none) is handed to the WebSocket server with exactly those bytes unread - the HTTP reader consumed the request and nothing of the frame; "
              "tied by the op `upg` (head + frame bytes written in one segment, a WebSocketServer subclass linked to the HttpServer reads what is left on the "
              "descriptor at the hand-off; `upgf`: the same stream delivered in two segments cut inside the head or the frame, the second arriving while the server "
              "reads - the answer must not depend on the cut; in the model a fragmentation is a list of segments whose concatenation the blocking reads see). ONE DECODING: (path_decoded_once, path_decoded_once_any, path_is_one_pass_decoding, decode_inverts_one_escape) a path text sent with its `%` escaped as `%25` arrives as "
              "that text (`%252e%252e` is `%2e%2e`, never `..`), for every path; tied by tg/req/dec as before. EXPECT: (read_faithful_expect, read_faithful_chunked_expect, serve_faithful_expect, expect_interim_answer, "
              "wellformed_is_expect_free) read(serialize q ++ rest) = (q, rest) also for every well-formed q that carries an Expect field (WellFormedX / HeadOkX = WellFormed / HeadOk without their no-Expect clause; no body, a Content-Length body, or a chunked body in any accepted spelling - there the answer to 100-continue is always 100 Continue), "
              "and the only bytes written to the peer are the interim answer: `HTTP/1.1 100 Continue` for `Expect: 100-continue` and a body shorter than 128000000 bytes, `HTTP/1.1 417 Too big` from there on (the body is read all the same), "
              "nothing for any other Expect value or none; tied by req/srv/tcp (out= compares the bytes written back) on generated well-formed requests with an Expect field at a random header position, whole, pipelined and cut, and on "
              "fixed Content-Length values around 128000000 / 2^63 / signs / non-numbers; the python reference judges the interim answer of the strictly well-formed ones on the implementation alone.")

LEVEL_NOTE = ("Trusted: Lean kernel, harness + watchdog, the python framing parser, libc/OS as listed in assumptions. The query theorems "
              "import C15's model/proofs (AslModel.Codec incl. the regenerated Gen/TablesGen, AslProofs.Query*). The Upgrade: websocket hand-off "
              "(HttpServer.cpp ~60-65) is modelled up to the call of WebSocketServer::process (upgradeHandOff: which headers and which unread bytes it receives; "
              "what process does with them is C11's); segment boundaries are not in the model's socket (it holds the concatenation; upgrade_handoff_any_fragmentation says just that and rests on the "
              "assumption that blocking reads of a stream socket deliver the concatenation; `upgf` exercises two-segment deliveries 15 ms apart on the real server); "
              "a segment later than the 5 s waitData/waitInput limits is runtime behaviour outside the model. Not modelled and not exercised: "
              "CORS headers, socket timeouts/select and partial arrival (EOF only). Transfer-Encoding is chunked when its last "
              "coding is `chunked`, ASCII case-insensitively (fix 7dcf721; String::toLowerCase is UTF-8 aware, the model ASCII: values "
              "with bytes >= 0x80 are not generated); a request with a Transfer-Encoding whose last coding is not chunked (gzip, `chunked, gzip`, xchunked, empty) is "
              "dropped, the connection closed (4dff910, theorem dispatch_requires_framed_transfer_encoding); gzip/deflate codings before chunked are not decoded. "
              "A header line whose name is empty or holds a blank/tab/control character (`Content-Length : 5`) ends the block like a line without colon, the connection is closed (9bf376e); so does a line that starts with white space before any field was read (c2e6d14). "
              "HttpServer::serve ends every connection through closeBehind (7f6f841; model `closeBehind`: closed, the peer's remaining bytes dropped unless the socket is in error or closed by the reader); "
              "serveLoopAt (the at= observable) is K-only, tied to serveLoop by serveLoopAt_loop. isFieldName is RFC 7230 `token` widened by the delimiters \"(),/;<=>?@[\\]{} and bytes >= 0x80, which the library accepts in field names (they hide no framing header). Repeated header fields keep the last value (single-valued Dic interface; outside_findings.txt): the oracle gives no opinion on streams that repeat Content-Length/Transfer-Encoding. Folded header lines are joined to the "
              "field value with one space (350c8ee) and received empty values are kept (988a64d); query tokens without `=` are "
              "dropped by Url::parseQuery by design (outside_findings.txt). Chunk framing is validated (4dbedbe, d0ace7d): size lines are 1-8 hex digits (<= 0x7fffffff) + blanks/;ext, each chunk must "
              "end in CRLF, trailer fields are not supported (such a request is dropped); a size line with an extension may end in a bare LF (`5;x LF` is taken, `5 LF` is refused: "
              "the framing oracle has no opinion on bare-LF size lines, RFC 7230 3.5; outside_findings.txt). "
              "The Range parser is modelled (AslModel/HttpRange.lean: rangeAnswer; putFile's outcome is C10's rangeOf, imported, not copied) and checked by `rng` on "
              "NUL-free and NUL-bearing values without CR/LF; bytes actually sent for a 206 are C10's (fileSlice), here only their number is compared. "
              "If-Modified-Since handling of the file server is covered by the safety oracle of the `file` op only (no byte "
              "from outside the root, legal status codes, ASan); plain GET mapping is model-checked by `fmap`. serve_faithful_expect states that the keep-alive loop dispatches every pipelined well-formed request with or without Expect (Content-Length / no body) in order and reads the whole stream; the exact bytes the loop writes (interim answers interleaved with the responses) are K only (out= of srv/tcp). Partial: the header "
              "hypotheses of the faithful-read theorems are stated on hdrDic (the fold), the sorted-map lemma `other keys unaffected` "
              "is not proved here; String::replace/contains are modelled directly as leftmost removal / scan for `..` (tied by K on "
              "every target over {. / %2e %2f %25 a} up to the stated length).")


# ------------------------------------------------------------------ helpers

def adler_rep(b):
    if len(b) <= 64:
        return "%d:%s" % (len(b), hexs(b))
    return "%d:%d:%s" % (len(b), zlib.adler32(b) & 0xffffffff, b[:16].hex())


TOKS = [b".", b"/", b"%2e", b"%2f", b"%25", b"a"]


def all_targets(maxlen):
    out = []

    def rec(prefix, left):
        out.append(prefix)
        for t in TOKS:
            if len(t) <= left:
                rec(prefix + t, left - len(t))
    rec(b"", maxlen)
    return out


METHODS = [b"GET", b"POST", b"PUT", b"DELETE", b"PATCH", b"HEAD", b"OPTIONS", b"X-custom_1"]
HNAMES = [b"Host", b"Accept", b"User-Agent", b"X-Test", b"x-lower-case", b"X-UPPER-CASE", b"Cookie", b"content-type",
          b"If-Modified-Since", b"Range", b"Origin", b"Access-Control-Request-Headers", b"a", b"A-b-C"]


def rtoken(rng, n):
    return bytes(rng.choice(b"abcdefghijklmnopqrstuvwxyzABCDEFGHIJKLMNOPQRSTUVWXYZ0123456789-_.!~*'") for _ in range(n))


def rvalue(rng):
    k = rng.randrange(8)
    if k == 0:
        return rtoken(rng, rng.randrange(1, 30))
    if k == 1:
        return b"text/html, application/json;q=0.9"
    if k == 2:
        return bytes(rng.choice(b"abc xyz:;,=\"()/\t") for _ in range(rng.randrange(1, 20))).strip(b" \t") or b"v"
    if k == 3:
        return bytes(rng.randrange(33, 127) for _ in range(rng.randrange(1, 16)))
    if k == 4:
        return bytes(rng.randrange(128, 256) for _ in range(rng.randrange(1, 6)))
    if k == 5:
        return b"bytes=%d-%d" % (rng.randrange(0, 50), rng.randrange(0, 50))
    if k == 6:
        return b"Sat, 26 Sep 2026 10:00:00 GMT"
    return rtoken(rng, rng.randrange(1, 8)) + b": " + rtoken(rng, 3)


def rtarget(rng):
    k = rng.randrange(10)
    if k < 3:
        segs = [rng.choice([b"a", b"bc", b"..", b".", b"%2e%2e", b"%2E.", b"x.y", b"", b"%41", b"...", b"....", b"%2f", b"%252e"]) for _ in range(rng.randrange(1, 6))]
        t = b"/" + b"/".join(segs)
    elif k < 5:
        t = b"/" + rtoken(rng, rng.randrange(0, 12))
    elif k < 7:
        t = bytes(rng.choice(b"./%2eEfF50a?#&=+") for _ in range(rng.randrange(1, 24)))
    elif k == 7:
        t = b"/" + bytes(rng.choice(b"./%0zZ2e") for _ in range(rng.randrange(1, 30)))
    elif k == 8:
        t = b"http://host:80/abs/" + rtoken(rng, 4)
    else:
        t = b"*"
    if rng.random() < 0.4:
        q = b"&".join(rtoken(rng, rng.randrange(1, 5)) + b"=" + (bytes(rng.choice(b"ab+%2041&=;x") for _ in range(rng.randrange(0, 8))) if rng.random() < 0.6 else b"".join(rng.choice([b"a", b"%26", b"%3D", b"%3d", b"%2b", b"+", b"%25", b"R", b"D"]) for _ in range(rng.randrange(1, 5)))) for _ in range(rng.randrange(1, 4)))
        t += b"?" + q
    if rng.random() < 0.2:
        t += b"#" + bytes(rng.choice(b"frag?#/x") for _ in range(rng.randrange(0, 6)))
    return t.replace(b" ", b"") or b"/"


def chunk_body(rng, body, style=0):
    out = b""
    i = 0
    while i < len(body):
        n = rng.choice([1, 2, 3, 5, 16, 100, 1000, 16000, 16001, 40000])
        n = min(n, len(body) - i)
        sz = b"%x" % n
        if style == 1:
            sz = sz.upper()
        elif style == 2:
            sz = b"0x" + sz
        elif style == 3:
            sz = b"000" + sz + b";ext=1"
        out += sz + b"\r\n" + body[i:i + n] + b"\r\n"
        i += n
    return out + b"0\r\n\r\n"


def rbody(rng):
    k = rng.randrange(12)
    if k < 4:
        n = rng.randrange(1, 40)
    elif k < 7:
        n = rng.randrange(40, 600)
    elif k < 9:
        n = rng.choice([15999, 16000, 16001, 31999, 32000, 32001, 40000])
    elif k == 9:
        n = rng.randrange(1000, 15000)
    else:
        n = rng.randrange(1, 8)
    if rng.random() < 0.5:
        return bytes(rng.getrandbits(8) for _ in range(min(n, 64))) * (n // 64 + 1)
    return (b"GET /smuggled HTTP/1.1\r\n\r\n" * (n // 20 + 1))[:n]


def wellformed(rng, keepalive=None, http10=False, small=False):
    """one well-formed request: (bytes, has_body)"""
    m = rng.choice(METHODS)
    t = rtarget(rng)
    proto = b"HTTP/1.0" if http10 else b"HTTP/1.1"
    hs = []
    used = set()
    for _ in range(rng.randrange(0, 5)):
        n = rng.choice(HNAMES) if rng.random() < 0.8 else rtoken(rng, rng.randrange(1, 10))
        if n.lower() in used or n.lower() in (b"content-length", b"transfer-encoding", b"expect", b"connection", b"upgrade"):
            continue
        used.add(n.lower())
        hs.append((n, rvalue(rng)))
    if keepalive is not None:
        hs.append((rng.choice([b"Connection", b"connection", b"CONNECTION"]), rng.choice([b"keep-alive", b"Keep-Alive"]) if keepalive else rng.choice([b"close", b"Close"])))
    body = b""
    framing = rng.randrange(4) if m not in (b"GET", b"HEAD", b"OPTIONS") else 0
    tail = b""
    if framing in (1, 2):
        body = rbody(rng) if not small else rbody(rng)[:50]
        hs.append((rng.choice([b"Content-Length", b"content-length", b"CONTENT-LENGTH"]), b"%d" % len(body)))
        tail = body
    elif framing == 3:
        body = rbody(rng) if not small else rbody(rng)[:50]
        hs.append((b"Transfer-Encoding", b"chunked"))
        tail = chunk_body(rng, body, rng.randrange(4))
    rng.shuffle(hs)
    s = m + b" " + t + b" " + proto + b"\r\n" + b"".join(n + b": " + v + b"\r\n" for n, v in hs) + b"\r\n" + tail
    return s


MUT_SNIPPETS = [b"\r\n", b"\n", b"\r", b" ", b"  ", b":", b": ", b"\t", b"\x00", b"%00", b"%zz", b"..", b"/../", b"%2e%2e", b"#", b"?", b"\xff",
                b"Content-Length: 5\r\n", b"Content-Length: -5\r\n", b"Content-Length: 99999999999\r\n", b"Content-Length: 4294967301\r\n",
                b"Content-Length:\r\n", b"Content-Length: 0\r\n", b"Content-Length: 00\r\n", b"Content-Length: +3\r\n", b"Content-Length: abc\r\n",
                b"Transfer-Encoding: chunked\r\n", b"Transfer-Encoding: Chunked\r\n", b"Expect: 100-continue\r\n", b"Expect: 100-Continue\r\n",
                b"Range: bytes=5\r\n", b"Range: bytes=-\r\n", b"Range: bytes=1-2,3-4\r\n", b"Range: bytes=9-3\r\n", b"Connection: close\r\n",
                b"Connection: keep-alive\r\n", b" folded value\r\n", b"\tfolded\r\n", b"NoColonHere\r\n", b"X:v\r\n", b"X:\r\n", b":v\r\n",
                b"ffffffff\r\n", b"80000000\r\n", b"-1\r\n", b"0x10\r\n", b"fffffffffffffffffffff\r\n", b"0\r\n\r\n", b"1\r\nZ\r\n",
                b"Upgrade: websocket\r\n", b"Origin: http://o\r\n", b"Access-Control-Request-Headers: X-A, X-B\r\n"]


def mutate(rng, s):
    s = bytearray(s)
    for _ in range(rng.choice([1, 1, 1, 2, 3])):
        k = rng.randrange(9)
        pos = rng.randrange(0, len(s) + 1)
        if k == 0 and s:
            del s[rng.randrange(len(s))]
        elif k == 1:
            s[pos:pos] = bytes([rng.getrandbits(8)])
        elif k == 2 and s:
            s[rng.randrange(len(s))] = rng.choice(b"\r\n :\x00%./?#-0a")
        elif k in (3, 4, 5):
            # insert a snippet at a line start (or anywhere)
            starts = [0] + [m.end() for m in re.finditer(b"\n", bytes(s))]
            p = rng.choice(starts) if rng.random() < 0.8 else pos
            s[p:p] = rng.choice(MUT_SNIPPETS)
        elif k == 6 and s:
            a = rng.randrange(len(s))
            b = min(len(s), a + rng.randrange(1, 12))
            del s[a:b]
        elif k == 7:
            i = bytes(s).find(b"\r\n")
            if i >= 0:
                s[i:i + 2] = b"\n"
        elif k == 8 and s:
            a = rng.randrange(len(s))
            b = min(len(s), a + rng.randrange(1, 8))
            s[pos:pos] = s[a:b]
    return bytes(s)


def ascii_conn_ok(s):
    """excludes streams in which a Connection header line (or a folded continuation of it) has bytes >= 0x80:
    String::toLowerCase is UTF-8 aware, the model lower-cases ASCII only"""
    in_conn = False
    for line in s.split(b"\n"):
        if not (line[:1] in (b" ", b"\t", b"\r", b"\x0b", b"\x0c")):
            in_conn = b"connection" in line.lower() or b"transfer-encoding" in line.lower()
        if in_conn and any(c >= 0x80 for c in line):
            return False
    return True


GEN_STATS = {}


def gen(rng, tier):
    quick = tier == "quick"
    st = {"req_wellformed": 0, "req_mutated": 0, "req_cut": 0, "req_longline": 0, "srv_streams": 0, "srv_cut": 0, "tcp_ops": 0,
          "tcp_connections": 0, "targets_exhaustive": 0, "targets_random": 0, "url_exhaustive": 0, "url_random": 0, "dec": 0, "file": 0}
    cases = []

    # --- A. single requests: well-formed, mutated, and every prefix
    nbase = 60 if quick else 1500
    for i in range(nbase):
        s = wellformed(rng, small=(i % 3 != 0))
        c = ["req " + hexs(s)]
        st["req_wellformed"] += 1
        for _ in range(6):
            c.append("req " + hexs(mutate(rng, s)))
            st["req_mutated"] += 1
        cases.append(c)
        # every byte offset of the header part and of a window of the body (all offsets when short)
        base = s if rng.random() < 0.5 else mutate(rng, s)
        if len(base) <= 700:
            cuts = range(len(base))
        else:
            hdr = base.find(b"\r\n\r\n") + 4
            cuts = sorted(set(list(range(min(hdr + 40, len(base)))) + [rng.randrange(len(base)) for _ in range(60)]
                              + list(range(max(0, len(base) - 40), len(base)))))
        c = []
        for k in cuts:
            c.append("req " + hexs(base[:k]))
            st["req_cut"] += 1
            if len(c) == 100:
                cases.append(c)
                c = []
        if c:
            cases.append(c)

    # --- lines around the 16000-byte cap of readLine
    c = []
    for n in [15990, 15999, 16000, 16001, 16002, 16003, 16010, 33000]:
        c.append("req " + hexs(b"GET /" + b"a" * (n - 5 - 9) + b" HTTP/1.1\r\nHost: x\r\n\r\n"))          # request line of n bytes before LF (incl. CR)
        c.append("req " + hexs(b"GET / HTTP/1.1\r\nX-Long: " + b"b" * (n - 9) + b"\r\nHost: x\r\n\r\n"))
        c.append("req " + hexs(b"POST / HTTP/1.1\r\nTransfer-Encoding: chunked\r\n\r\n" + b"0" * (n - 2) + b"5\r\nhello\r\n0\r\n\r\n"))
        c.append("req " + hexs(b"GET /" + b"%2e" * (n // 3) + b"/x HTTP/1.1\r\n\r\n"))
        st["req_longline"] += 4
    cases.append(c[:16])
    cases.append(c[16:])

    # --- Expect: 100-continue with every interesting Content-Length
    c = []
    for cl in [b"0", b"5", b"3", b"127999999", b"128000000", b"128000001", b"99999999999", b"9223372036854775807", b"9223372036854775808",
               b"-1", b"abc", b"", b" 7", b"+5"]:
        for ex in [b"100-continue", b"100-Continue", b"100-continue ", b"100-continue\x00x", b"200-ok"]:
            s = b"POST /e HTTP/1.1\r\nExpect: " + ex + b"\r\nContent-Length: " + cl + b"\r\n\r\nhello"
            c.append("req " + hexs(s))
            st["req_mutated"] += 1
    c.append("srv " + hexs(b"POST /e HTTP/1.1\r\nExpect: 100-continue\r\nContent-Length: 5\r\n\r\nhelloGET /n HTTP/1.1\r\n\r\n"))
    c.append("srv " + hexs(b"POST /e HTTP/1.1\r\nExpect: 100-continue\r\nContent-Length: 128000000\r\n\r\nhello"))
    st["srv_streams"] += 2
    cases.append(c)

    # --- well-formed requests (no body / Content-Length / chunked) carrying an Expect field at a random header position:
    #     read_faithful_expect / expect_interim_answer (the request is handed over as sent, the interim answer is the only thing written)
    c = []
    for i in range(24 if tier == "quick" else 120):
        w = wellformed(rng, keepalive=rng.choice([None, True]), small=True)
        head, sep, tail = w.partition(b"\r\n\r\n")
        lines = head.split(b"\r\n")
        ex = rng.choice([b"100-continue"] * 5 + [b"100-Continue", b"100-continue, x", b"100", b"x"])
        lines.insert(rng.randrange(1, len(lines) + 1), rng.choice([b"Expect", b"expect", b"EXPECT"]) + b": " + ex)
        w = b"\r\n".join(lines) + sep + tail
        k = rng.randrange(3)
        if k == 0:
            c.append("req " + hexs(w + rng.choice([b"", b"GET /next HTTP/1.1\r\n\r\n", b"\x00\xff"])))
            st["req_wellformed"] += 1
        elif k == 1:
            c.append("srv " + hexs(w + wellformed(rng, small=True)))
            st["srv_streams"] += 1
        else:
            cut = rng.randrange(len(w) + 1)
            c.append("req " + hexs(w[:cut]))
            st["req_mutated"] += 1
    cases.append(c)

    # --- valid requests cut at EVERY byte position (request line, each header, empty line, each body byte, and the
    #     same inside the second request of a keep-alive connection): what the dispatch clause is about
    canon = [
        b"GET /index.html HTTP/1.1\r\nHost: example\r\nAccept: */*\r\n\r\n",
        b"POST /upload/abc HTTP/1.1\r\nHost: h\r\nContent-Type: text/plain\r\nContent-Length: 20\r\n\r\n0123456789abcdefghij",
        b"PUT /c HTTP/1.1\r\nTransfer-Encoding: chunked\r\n\r\n5\r\nhello\r\na\r\n0123456789\r\n0\r\n\r\n",
        b"POST /k1 HTTP/1.1\r\nConnection: keep-alive\r\nContent-Length: 5\r\n\r\nhelloGET /k2?x=1 HTTP/1.1\r\nHost: h\r\n\r\n",
        b"GET /old HTTP/1.0\r\nConnection: keep-alive\r\n\r\nPOST /second HTTP/1.0\r\nContent-Length: 3\r\n\r\nabc",
        b"DELETE /a/%2e%2e/b?k=v#f HTTP/1.1\r\nX-A: 1\r\nX-B: two words\r\n\r\n",
        b"OPTIONS /o HTTP/1.1\r\nOrigin: o\r\n\r\nPOST /after-options HTTP/1.1\r\nContent-Length: 4\r\n\r\nbody",
        b"POST /k3 HTTP/1.1\r\nTransfer-Encoding: chunked\r\n\r\n3\r\nabc\r\n0\r\n\r\nPOST /k4 HTTP/1.1\r\nContent-Length: 2\r\n\r\nhi",
    ]
    for _ in range(3 if quick else 40):
        x = wellformed(rng, keepalive=True, small=True)[:400] + wellformed(rng, small=True)[:400]
        if ascii_conn_ok(x):
            canon.append(x)
    tcpconns = []
    for ci, x in enumerate(canon):
        c = []
        for k in range(len(x) + 1):
            c.append("srv " + hexs(x[:k]))
            st["srv_cut"] += 1
            if ci < 3:
                c.append("req " + hexs(x[:k]))
                st["req_cut"] += 1
            if ci in (1, 3, 7) or (not quick and ci < 12):
                tcpconns.append(hexs(x[:k]))
            if len(c) >= 60:
                cases.append(c)
                c = []
        if c:
            cases.append(c)
    for i in range(0, len(tcpconns), 4):
        cases.append(["tcp " + " ".join(tcpconns[i:i + 4])])
        st["tcp_ops"] += 1
        st["tcp_connections"] += len(tcpconns[i:i + 4])

    # --- every percent escape in both letter cases (path and bare decode), judged by the urllib reference
    c = []
    for v in range(256):
        for fmt in ("%%%02x", "%%%02X"):
            e = (fmt % v).encode()
            c.append("tg " + hexs(b"/p" + e + b"q"))
            c.append("dec " + hexs(b"a" + e + e + b"z"))
            st["targets_random"] += 1
            st["dec"] += 1
    for t in [b"/%5b%4a%0d%7e%6f", b"/%5B%4A%0D%7E%6F", b"/%e2%82%ac", b"/%c3%a9t%c3%a9", b"/a%2fb%2Fc", b"/%41%61%5a%7a"]:
        c.append("tg " + hexs(t))
        c.append("req " + hexs(b"GET " + t + b" HTTP/1.1\r\nHost: h\r\n\r\n"))
    cases.append(c[:520])
    cases.append(c[520:])

    # --- query strings with escaped separators inside keys and values (the dictionary handed to the handler)
    c = []
    for q in [b"tag=R%26D", b"a%3Db=c%3dd", b"x=%2b+y&z=%2B", b"k%26k=v%3Dv&plain=1", b"a=1%262&b=%3D%3D", b"q=%25&r=%2526", b"%61=%62&c=d%26e%3Df",
              b"tag=R%26D&tag2=R&D=x", b"sp=a+b%20c", b"e=%3d%26%3D%26", b"u=%e2%82%ac&v=%C3%A9"]:
        for m in (b"GET", b"POST"):
            r1 = m + b" /find?" + q + b" HTTP/1.1\r\nHost: h\r\n\r\n"
            c.append("req " + hexs(r1))
            c.append("srv " + hexs(r1 + b"GET /after?" + q + b"#frag HTTP/1.1\r\n\r\n"))
            st["req_wellformed"] += 1
            st["srv_streams"] += 1
    cases.append(c)

    # --- Content-Length that is not a length, and Content-Length together with chunked, each followed by a
    #     pipelined request that must not become part of a body nor be dispatched out of a body
    c = []
    nxt = b"GET /next HTTP/1.1\r\nHost: h\r\n\r\n"
    for cl in [b"4294967301", b"4294967296", b"2147483648", b"2147483647", b"99999999999", b"00000000005", b"0000000005", b"-5", b"-0", b"+5", b"5x", b"5 5",
               b"0x5", b"5,5", b"", b"5\x005", b"\xb5", b"05", b"00"]:
        c.append("srv " + hexs(b"POST /a HTTP/1.1\r\nContent-Length: " + cl + b"\r\n\r\nhello" + nxt))
        c.append("req " + hexs(b"POST /a HTTP/1.1\r\nContent-Length: " + cl + b"\r\n\r\nhello" + nxt))
        st["srv_streams"] += 1
        st["req_mutated"] += 1
    hidden = b"1c\r\nGET /smuggled HTTP/1.1\r\n\r\n\r\n\r\n"
    for cl in [b"3", b"0", b"5", b"100", b"-1", b"4294967299"]:
        for order in (0, 1):
            hs = [b"Content-Length: " + cl + b"\r\n", b"Transfer-Encoding: chunked\r\n"]
            if order:
                hs.reverse()
            x = b"POST /a HTTP/1.1\r\n" + b"".join(hs) + b"\r\n3\r\nabc\r\n" + hidden + b"0\r\n\r\n" + nxt
            c.append("srv " + hexs(x))
            c.append("req " + hexs(x))
            st["srv_streams"] += 1
            st["req_mutated"] += 1
    cases.append(c)

    # --- folded header lines (obs-fold), Content-Length written with leading zeros, Transfer-Encoding spellings
    c = []
    nxt = b"GET /y HTTP/1.1\r\nHost: h\r\n\r\n"
    folds = [b"X: a\r\n b\r\n c\r\n", b"X: a\r\n b\r\n", b"X: a\r\n\tb\r\n \t c d \r\n", b"X: a\r\n \r\n b\r\n", b"X:\r\n a\r\n", b"X: \r\n \r\n",
             b"X: a\r\n b\r\nY: c\r\n d\r\n e\r\n", b"Content-Length: 1\r\n 0\r\n", b"Accept: text/html,\r\n  application/json\r\nHost: h\r\n",
             b" lead\r\nX: a\r\n", b"Connection: keep-\r\n alive\r\n", b"X-Empty:\r\nY: 1\r\n", b"X-Empty: \r\n"]
    for f in folds:
        x = b"GET /x HTTP/1.1\r\n" + f + b"\r\n"
        c.append("req " + hexs(x))
        c.append("srv " + hexs(x + nxt))
        st["req_mutated"] += 1
        st["srv_streams"] += 1
    for cl in [b"00", b"000", b"0000000000", b"05", b"0000000005", b"005"]:
        x = b"POST /x HTTP/1.1\r\nContent-Length: " + cl + b"\r\n\r\n" + (b"hello" if int(cl) else b"") + nxt
        c.append("req " + hexs(x))
        c.append("srv " + hexs(x))
        st["req_wellformed"] += 1
        st["srv_streams"] += 1
    for te in [b"Chunked", b"CHUNKED", b"chunkeD", b"gzip, chunked", b"gzip,chunked", b"gzip , Chunked ", b"chunked, gzip", b"chunked,", b",chunked", b"x-chunked",
               b"chunked chunked", b"identity", b"chunked;q=1", b"\tchunked"]:
        x = b"POST /x HTTP/1.1\r\nTransfer-Encoding: " + te + b"\r\n\r\n5\r\nhello\r\n0\r\n\r\n" + nxt
        c.append("req " + hexs(x))
        c.append("srv " + hexs(x))
        st["req_mutated"] += 1
        st["srv_streams"] += 1
    # a Transfer-Encoding whose last coding is not chunked: no determinable length (RFC 7230 3.3.3 rule 3), the request must
    # not be dispatched (neither without body nor with a Content-Length body) and what follows must not run as a request
    smug = b"GET /smuggled HTTP/1.1\r\nHost: h\r\n\r\n"
    for te in [b"gzip", b"chunked, gzip", b"xchunked", b"identity", b"", b"chunked, identity", b"deflate,", b"chunke", b"chunked d", b"GZIP"]:
        for cl in [None, b"3", b"0", b"%d" % len(smug)]:
            for body in [smug, b"5\r\nhello\r\n0\r\n\r\n" + smug]:
                x = (b"POST /te HTTP/1.1\r\nHost: h\r\nTransfer-Encoding: " + te + b"\r\n"
                     + (b"Content-Length: " + cl + b"\r\n" if cl is not None else b"") + b"\r\n" + body)
                c.append("srv " + hexs(x))
                c.append("req " + hexs(x))
                st["req_mutated"] += 1
                st["srv_streams"] += 1
    # white space (or a control character) between a field name and the colon, an empty name: the framing headers must not be
    # missed - the request is not dispatched and its body bytes do not run as a request
    for nm in [b"Content-Length ", b"Content-Length\t", b"Content-Length  ", b"Content-Length\x0b", b"Content-Length\x0c", b"Content-Length\r",
               b"Content-Length\x7f", b"Content-Length\x01", b"Content Length", b"Content-\tLength", b"content-length ", b"Transfer-Encoding ",
               b"Transfer-Encoding\t", b"", b"X-Other ", b"Host\t", b"X Y"]:
        for val, body in [(b"5", b"hello" + smug), (b"chunked", b"5\r\nhello\r\n0\r\n\r\n" + smug)]:
            for first in (b"Host: x\r\n", b""):
                x = b"POST /ws HTTP/1.1\r\n" + first + nm + b": " + val + b"\r\n\r\n" + body
                c.append("srv " + hexs(x))
                c.append("req " + hexs(x))
                st["req_mutated"] += 1
                st["srv_streams"] += 1
    # a first header line that starts with white space continues nothing: not stored (under the empty name), not dispatched
    for lead in [b" ", b"\t", b"  ", b"\x0b", b"\x0c", b"\r", b" \t"]:
        for fld, body in [(b"Content-Length: 5", b"hello" + smug), (b"Transfer-Encoding: chunked", b"5\r\nhello\r\n0\r\n\r\n" + smug),
                          (b"X-A: 1", smug), (b"", smug), (b"Transfer-Encoding: chunked\r\n more", b"5\r\nhello\r\n0\r\n\r\n" + smug)]:
            for after in (b"Host: x\r\n", b""):
                x = b"POST /lead HTTP/1.1\r\n" + lead + fld + b"\r\n" + after + b"\r\n" + body
                c.append("srv " + hexs(x))
                c.append("req " + hexs(x))
                st["req_mutated"] += 1
                st["srv_streams"] += 1
    cases.append(c)

    # --- chunked bodies with odd chunk-size lines
    c = []
    for sz in [b"-1", b"-5", b"ffffffff", b"fffffffb", b"80000000", b"7fffffff", b"100000000", b"100000005", b"0x5", b"0X5", b" 5", b"+5",
               b"5;ext=1", b"", b"g", b"00000005", b"ffffffffffffffffffff", b"-ffffffffffffffffffff", b"5 ", b"\t5", b"5\x00", b"0x", b"0xg",
               b"-fffffffb", b"000000005", b"80000005", b"5 ;x", b"5\t", b"5 5", b"5x", b"5;", b"05", b"F", b"f"]:
        for pre in [b"", b"3\r\nabc\r\n"]:
            s = b"POST /c HTTP/1.1\r\nTransfer-Encoding: chunked\r\n\r\n" + pre + sz + b"\r\nhello\r\n0\r\n\r\nGET /n HTTP/1.1\r\n\r\n"
            c.append("req " + hexs(s))
            c.append("req " + hexs(s.replace(b"Transfer-Encoding: chunked", b"Transfer-Encoding: chunked\r\nContent-Length: 6")))
            c.append("srv " + hexs(s))
            st["req_mutated"] += 2
            st["srv_streams"] += 1
    # what follows the chunk data must be CRLF; trailer fields; a missing last chunk
    hd = b"POST /c HTTP/1.1\r\nTransfer-Encoding: chunked\r\n\r\n"
    nx = b"GET /y HTTP/1.1\r\n\r\n"
    for tail in [b"5\r\nhello\r\nzz\r\n" + nx, b"5\r\nhelloXX3\r\nabc\r\n0\r\n\r\n" + nx, b"5\r\nhello\n\n0\r\n\r\n" + nx, b"5\r\nhello\r\r0\r\n\r\n" + nx,
                 b"5\r\nhello\r\n0\r\nX-Trailer: 1\r\n\r\n" + nx, b"5\r\nhello\r\n0\r\n" + nx, b"5\r\nhello0\r\n\r\n" + nx, b"5\r\nhello\r\n0\r\n\n\n" + nx,
                 b"5\nhello\r\n0\r\n\r\n" + nx, b"5\r\nhello\r\n0 \r\n\r\n" + nx, b"4\r\nhello\r\n0\r\n\r\n" + nx, b"6\r\nhello\r\n0\r\n\r\n" + nx]:
        c.append("srv " + hexs(hd + tail))
        c.append("req " + hexs(hd + tail))
        st["srv_streams"] += 1
        st["req_mutated"] += 1
    cases.append(c)

    # --- B. server loop: pipelined requests
    nsrv = 80 if quick else 2000
    for i in range(nsrv):
        k = rng.randrange(1, 6)
        parts = []
        for j in range(k):
            r = rng.random()
            parts.append(wellformed(rng, keepalive=(None if r < 0.4 else (r < 0.85)), http10=rng.random() < 0.2, small=True))
        s = b"".join(parts)
        c = []
        if ascii_conn_ok(s):
            c.append("srv " + hexs(s))
            st["srv_streams"] += 1
        for _ in range(4):
            m = mutate(rng, s)
            if ascii_conn_ok(m):
                c.append("srv " + hexs(m))
                st["srv_streams"] += 1
        if i % 4 == 0 and ascii_conn_ok(s):
            base = s[:900]
            for kcut in range(0, len(base), 1 if len(base) < 300 else 3):
                c.append("srv " + hexs(base[:kcut]))
                st["srv_cut"] += 1
        cases.append(c)
        if i % 4 == 0:
            # the same kind of streams through loopback TCP and the concurrent server
            conns = []
            for _ in range(rng.randrange(1, 5)):
                x = wellformed(rng, keepalive=rng.random() < 0.5, small=True) + (wellformed(rng, small=True) if rng.random() < 0.5 else b"")
                if rng.random() < 0.4:
                    x = x[:rng.randrange(len(x) + 1)]
                # negative Content-Length makes the body depend on arrival timing; everything else is timing-independent
                if ascii_conn_ok(x) and not re.search(rb"(?i)content-length[ \t]*:[ \t]*-", x):
                    conns.append(hexs(x))
            if conns:
                cases.append(["tcp " + " ".join(conns)])
                st["tcp_ops"] += 1
                st["tcp_connections"] += len(conns)

    # --- D. request targets
    maxlen = 9 if quick else 12
    tg = all_targets(maxlen)
    st["targets_exhaustive"] = len(tg)
    for i in range(0, len(tg), 500):
        cases.append(["tg " + hexs(t) for t in tg[i:i + 500]])
    c = []
    for i in range(3000 if quick else 200000):
        n = rng.randrange(1, 40)
        k = rng.randrange(4)
        if k == 0:
            t = b"".join(rng.choice(TOKS + [b"%00", b"%zz", b"%2E", b"%", b"%2", b"?", b"#", b"..", b"...", b"%c0%ae", b"\\", b"%5c", b"+"]) for _ in range(n))
        elif k == 1:
            t = bytes(rng.choice(b"./%2eE0z") for _ in range(n))
        elif k == 2:
            t = b"/" + b"/".join(rng.choice([b"..", b".", b"a", b"%2e%2e", b".%2e", b"%2e.", b"....", b".....", b"..%00", b"%00..", b""]) for _ in range(rng.randrange(1, 8)))
        else:
            t = bytes(rng.choice(range(33, 256)) for _ in range(n))
        t = t.replace(b" ", b"").replace(b"\n", b"").replace(b"\x00", b"")
        c.append("tg " + hexs(t))
        st["targets_random"] += 1
        if len(c) == 500:
            cases.append(c)
            c = []
    if c:
        cases.append(c)

    # --- E. URLs
    import itertools
    ualpha = b":/[]@?#%a1"
    c = []
    for L in range(0, 6 + (0 if quick else 1)):
        for t in itertools.product(ualpha if L <= 5 else ualpha[:9], repeat=L):
            c.append("url " + hexs(bytes(t)))
            st["url_exhaustive"] += 1
            if len(c) == 1000:
                cases.append(c)
                c = []
    for i in range(2000 if quick else 100000):
        k = rng.randrange(3)
        if k == 0:
            u = bytes(rng.choice(b":/[]@?#%ab1.-") for _ in range(rng.randrange(0, 30)))
        elif k == 1:
            u = rng.choice([b"http", b"https", b"ws", b"", b"a"]) + rng.choice([b"://", b":/", b":", b""]) + \
                rng.choice([b"host", b"[::1]", b"[", b"]", b"[a]b", b"1.2.3.4", b"user@host", b""]) + \
                rng.choice([b"", b":80", b":", b":99999999999", b":-1", b":8x"]) + rng.choice([b"", b"/", b"/p/q?x=1#f", b"/[x]", b"?q"])
        else:
            u = bytes(rng.getrandbits(8) for _ in range(rng.randrange(0, 12)))
        c.append("url " + hexs(u))
        st["url_random"] += 1
        if len(c) == 1000:
            cases.append(c)
            c = []
    # --- F. percent-decoding of arbitrary text
    for i in range(3000 if quick else 100000):
        k = rng.randrange(3)
        if k == 0:
            t = bytes(rng.choice(b"%%%0123456789abcdefABCDEFgxX+- z") for _ in range(rng.randrange(0, 24)))
        elif k == 1:
            t = bytes(rng.getrandbits(8) for _ in range(rng.randrange(0, 16)))
        else:
            t = bytes(rng.choice(b"%0a \t-+x") for _ in range(rng.randrange(0, 10)))
        c.append("dec " + hexs(t))
        st["dec"] += 1
        if len(c) == 1000:
            cases.append(c)
            c = []
    if c:
        cases.append(c)

    # --- G. static files: traversal attempts, Range, If-Modified-Since
    c = []
    fpaths = [b"/", b"/a.txt", b"/sub/b.txt", b"/sub", b"/sub/", b"/nope", b"/e.bin", b"/../secret.txt", b"/%2e%2e/secret.txt", b"/..%2fsecret.txt",
              b"/sub/../../secret.txt", b"/%2e%2e%2fsecret.txt", b"/....//secret.txt", b"/..../secret.txt", b"/.%2e/secret.txt", b"/%00/../secret.txt",
              b"/sub/%2e%2e/%2e%2e/secret.txt", b"/..././secret.txt", b"/../rootx/s.txt", b"/..rootx/s.txt", b"/.%00./secret.txt", b"/%252e%252e/secret.txt",
              b"/..\\secret.txt", b"/a.txt?x=../secret.txt", b"/a.txt#../secret.txt", b"//secret.txt", b"/./a.txt",
              # no leading '/': root + path must not become a sibling of the root (fix 1bf672e)
              b"x/s.txt", b"..x/s.txt", b"%78/s.txt", b"x/", b"x", b"..x", b"x/../x/s.txt", b"%2e%2ex/s.txt", b"x%2fs.txt", b"a.txt", b"sub/b.txt",
              b"..", b".", b"...x/s.txt", b"x//s.txt"]
    ranges = [b"", b"Range: bytes=5\r\n", b"Range: bytes=0-4\r\n", b"Range: bytes=5-\r\n", b"Range: bytes=-5\r\n", b"Range: bytes=9-3\r\n", b"Range: bytes=0-999\r\n",
              b"Range: bytes=3-3\r\n", b"Range: bytes=-\r\n", b"Range: bytes=\r\n", b"Range: bytes=a-b\r\n", b"Range: bytes=1-2,4-5\r\n", b"Range: lines=1-2\r\n",
              b"Range: bytes=99999999999-\r\n", b"Range: bytes=--1\r\n", b"Range:bytes=1-2\r\n", b"If-Modified-Since: Sat, 26 Sep 2026 10:00:00 GMT\r\n",
              b"If-Modified-Since: garbage\r\n", b"If-Modified-Since: 9999-99-99\r\n", b"If-Modified-Since: Mon, 01 Jan 1990 00:00:00 GMT\r\n"]
    for i in range(300 if quick else 10000):
        reqs = b""
        for _ in range(rng.randrange(1, 4)):
            p = rng.choice(fpaths) if rng.random() < 0.8 else rtarget(rng)
            reqs += rng.choice([b"GET", b"GET", b"GET", b"HEAD", b"POST"]) + b" " + p + b" HTTP/1.1\r\nHost: h\r\n" + rng.choice(ranges) + \
                (b"Connection: keep-alive\r\n" if rng.random() < 0.5 else b"") + b"\r\n"
        if rng.random() < 0.3:
            reqs = mutate(rng, reqs)
        c.append("file " + hexs(reqs))
        st["file"] += 1
        if len(c) == 50:
            cases.append(c)
            c = []
    if c:
        cases.append(c)
    # --- static file mapping: target -> file under the root (model: localRel + fixture tree), every short token string
    import itertools as _it
    ftoks = [b"/", b".", b"..", b"a.txt", b"sub", b"index.html", b"b.txt", b"e.bin", b"x", b"s.txt", b"%2f", b"%2e", b"rootx", b"secret.txt"]
    c = []
    st["fmap"] = 0
    for L in range(1, (3 if quick else 4) + 1):
        for t in _it.product(ftoks, repeat=L):
            c.append("fmap " + hexs(b"".join(t)))
            st["fmap"] += 1
            if len(c) == 400:
                cases.append(c)
                c = []
    for i in range(2000 if quick else 30000):
        t = b"".join(rng.choice(ftoks) for _ in range(rng.randrange(4, 9)))
        c.append("fmap " + hexs(t))
        st["fmap"] += 1
        if len(c) == 400:
            cases.append(c)
            c = []
    for t in fpaths:
        c.append("fmap " + hexs(t))
        st["fmap"] += 1
    cases.append(c)
    # --- extension: Range values through the file branch of serve() (model: rangeAnswer = rangeArgs9 + C10's rangeOf)
    c = []
    st["rng"] = 0
    nums = [b"", b"0", b"1", b"3", b"4", b"5", b"9", b"35", b"36", b"37", b"100", b"007", b"+5", b" 5", b"5 ", b"5x", b"x5", b"0x10",
            b"2147483647", b"2147483648", b"4294967296", b"4294967301", b"9223372036854775807", b"9223372036854775808",
            b"123456789012345678", b"1234567890123456789", b"99999999999999999999", b"000000000000000000005"]
    def rspec():
        r = rng.random()
        if r < 0.45:
            return rng.choice(nums) + b"-" + rng.choice(nums)
        if r < 0.6:
            return rng.choice(nums)
        if r < 0.7:
            return b"-".join(rng.choice(nums) for _ in range(rng.randrange(3, 5)))
        if r < 0.8:
            return rng.choice([b"", b"-", b"--", b"-0", b"0-", b"0-0", b"-36", b"-37", b"-4", b"35-35", b"36-36"])
        return bytes(rng.choice(b"0123456789-+ ,=x\x00\t\xff") for _ in range(rng.randrange(0, 12)))
    for i in range(1500 if quick else 20000):
        r = rng.random()
        if r < 0.8:
            v = b"bytes=" + rspec()
        elif r < 0.9:
            v = rng.choice([b"bytes", b"bytes =1-2", b"Bytes=1-2", b"items=1-2", b"bytes=1-2,4-5", b"bytes=1-2, 4-5", b"byte=1", b"", b"bytes=1-2\x00,3"]) 
        else:
            v = bytes(x for x in mutate(rng, b"bytes=" + rspec()) if x not in (10, 13))
        c.append("rng %d %s" % (rng.randrange(3), hexs(v)))
        st["rng"] += 1
        if len(c) == 100:
            cases.append(c)
            c = []
    if c:
        cases.append(c)
    # --- extension: Upgrade hand-off, request head and first frame bytes in one segment (model: upgradeHandOff)
    c = []
    st["upg"] = 0
    for i in range(400 if quick else 5000):
        hs = [b"Host: h"]
        r = rng.random()
        hs.append(b"Upgrade: websocket" if r < 0.75 else rng.choice([b"Upgrade: WebSocket", b"Upgrade: websocket2", b"Upgrade: h2c", b"upgrade: websocket",
                                                                      b"UPGRADE:websocket", b"Upgrade: websocket ", b"X-Upgrade: websocket"]))
        if rng.random() < 0.8:
            hs.append(rng.choice([b"Connection: Upgrade", b"Connection: keep-alive, Upgrade", b"Connection: upgrade", b"Connection: close"]))
        if rng.random() < 0.8:
            hs.append(b"Sec-WebSocket-Key: dGhlIHNhbXBsZSBub25jZQ==")
        if rng.random() < 0.2:
            hs.append(b"Sec-WebSocket-Protocol: chat")
        body = b""
        if rng.random() < 0.15:
            body = rtoken(rng, rng.randrange(1, 9))
            hs.append(b"Content-Length: %d" % len(body))
        rng.shuffle(hs)
        head = rng.choice([b"GET", b"GET", b"POST"]) + b" " + (rtarget(rng) if rng.random() < 0.3 else b"/chat") + b" HTTP/1.1\r\n" + b"\r\n".join(hs) + b"\r\n\r\n" + body
        r = rng.random()
        if r < 0.1:
            head = head[:rng.randrange(len(head))]
        elif r < 0.2:
            head = mutate(rng, head)
        n = rng.choice([0, 1, 2, 6, 7, 11, 40, 200])
        frame = (bytes([0x81, 0x80 | min(n, 125)]) + bytes(rng.randrange(256) for _ in range(4 + min(n, 125))))[:max(n, 0) + 6] if n and rng.random() < 0.6 \
            else bytes(rng.randrange(256) for _ in range(n))
        if i % 4 == 3:
            # the same stream in two segments, the cut anywhere (mostly inside the head, sometimes inside the frame)
            tot = len(head) + len(frame)
            k = rng.randrange(0, len(head) + 1) if rng.random() < 0.7 else rng.randrange(0, tot + 1)
            c.append("upgf %s %s %d" % (hexs(head), hexs(frame), k))
            st["upgf"] = st.get("upgf", 0) + 1
            continue
        c.append("upg %s %s" % (hexs(head), hexs(frame)))
        st["upg"] += 1
        if len(c) == 50:
            cases.append(c)
            c = []
    if c:
        cases.append(c)
    GEN_STATS.clear()
    GEN_STATS.update(st)
    return cases


def nontrivial(case):
    return any(len(l.split()) > 1 and l.split()[-1] != "-" for l in case)


def distribution(cases):
    d = {}
    sizes = {"<64": 0, "64-1023": 0, "1024-15999": 0, ">=16000": 0}
    feats = {"chunked": 0, "content-length": 0, "expect": 0, "range": 0, "folded": 0, "nul": 0, "pipelined": 0}
    for c in cases:
        for l in c:
            t = l.split()
            op = t[0]
            d[op] = d.get(op, 0) + 1
            if op in ("req", "srv", "tcp", "file") and len(t) > 1 and t[1] != "-":
                n = len(t[1]) // 2
                sizes["<64" if n < 64 else "64-1023" if n < 1024 else "1024-15999" if n < 16000 else ">=16000"] += 1
                b = unhex(t[1])[:6000]
                lo = b.lower()
                feats["chunked"] += b"chunked" in lo
                feats["content-length"] += b"content-length" in lo
                feats["expect"] += b"expect:" in lo
                feats["range"] += b"range:" in lo
                feats["folded"] += b"\n " in b or b"\n\t" in b
                feats["nul"] += b"\x00" in b
                feats["pipelined"] += lo.count(b" http/1.") > 1
    return {"ops_by_kind": d, "stream_sizes": sizes, "stream_features": feats, "generator_classes": dict(GEN_STATS)}


def _count_targets(n):
    a = [1, 3, 9]
    while len(a) <= n:
        a.append(3 * a[-1] + 3 * a[-3])
    return sum(a[:n + 1])


EXHAUSTIVE = {"quick": "all %d request targets over the tokens {. / %%2e %%2f %%25 a} of byte length <= 9 through HttpRequest(Socket&); all 111111 strings of length <= 5 over {: / [ ] @ ? # %% a 1} through Url()" % _count_targets(9),
              "thorough": "all %d request targets over the tokens {. / %%2e %%2f %%25 a} of byte length <= 12 through HttpRequest(Socket&); all 111111 strings of length <= 5 over {: / [ ] @ ? # %% a 1} and all 531441 strings of length 6 over {: / [ ] @ ? # %% a} through Url()" % _count_targets(12)}


# ------------------------------------------------------------------ independent reference (well-formed inputs only)

REFERENCE_NAME = "python3 re/urllib/bytes.replace reference parser for well-formed requests, targets and escapes"

_TOKEN = rb"[!#$%&'*+\-.^_`|~0-9A-Za-z]+"
_VALID_ESC = re.compile(rb"^(?:[^%\x00 ?#]|%(?!00)[0-9a-fA-F]{2})*\Z")


def _ref_path(raw):
    """decoded path for a raw path with valid escapes only (no %00): python's unquote + leftmost '..' removal"""
    import urllib.parse
    p = urllib.parse.unquote_to_bytes(raw)
    if b"\x00" in p:
        return None
    if b".." in p:
        p = p.replace(b"..", b"")
    return p


def _parts(p):
    ps = p.split(b"/")
    if ps and ps[-1] == b"":
        ps = ps[:-1]
    if ps and ps[0] == b"":
        ps = ps[1:]
    return ps


def _capital(n):
    out = bytearray()
    cap = True
    for ch in n:
        c = bytes([ch])
        c = c.upper() if cap else c.lower()
        out += c
        cap = c == b"-"
    return bytes(out)


def _ref_query(qs):
    import urllib.parse
    if qs == b"":
        return "-"
    d = {}
    for pair in qs.split(b"&"):
        m = re.match(rb"^([^=&]+)=([^=&]*)\Z", pair)
        if not m:
            return None
        k, v = m.group(1), m.group(2)
        if not re.match(rb"^(?:[^%]|%(?!00)[0-9a-fA-F]{2})*\Z", k) or not re.match(rb"^(?:[^%]|%(?!00)[0-9a-fA-F]{2})*\Z", v):
            return None
        k = urllib.parse.unquote_to_bytes(k.replace(b"+", b" "))
        v = urllib.parse.unquote_to_bytes(v.replace(b"+", b" "))
        if k in d or b"\x00" in k or b"\x00" in v:
            return None
        d[k] = v
    return ";".join("%s:%s" % (hexs(k), adler_rep(d[k])) for k in sorted(d))


def _ref_request(s):
    """(record, consumed) for a stream that starts with one strictly well-formed request, else None"""
    m = re.match(rb"^(" + _TOKEN + rb") ([!-~]+) (HTTP/1\.[01])\r\n", s)
    if not m:
        return None
    method, target, proto = m.group(1), m.group(2), m.group(3)
    pos = m.end()
    hs = {}
    while True:
        if s[pos:pos + 2] == b"\r\n":
            pos += 2
            break
        hm = re.match(rb"(" + _TOKEN + rb"): ([!-~\x80-\xff](?:[ -~\x80-\xff]*[!-~\x80-\xff])?)\r\n", s[pos:])
        if not hm:
            return None
        n = _capital(hm.group(1))
        if n in hs or n == b"Upgrade":
            return None
        v = hm.group(2)
        pos += hm.end()
        # obs-fold (RFC 7230 3.2.4): continuation lines belong to the value, each joined with one space
        while True:
            fm = re.match(rb"[ \t]+([!-~\x80-\xff](?:[ -~\x80-\xff]*[!-~\x80-\xff])?)\r\n", s[pos:])
            if not fm:
                break
            v += b" " + fm.group(1)
            pos += fm.end()
        hs[n] = v
    body = b""
    te = hs.get(b"Transfer-Encoding")
    if te is not None and any(c >= 0x80 for c in te):
        return None
    if te is not None and te.lower().split(b",")[-1].strip(b" \t") != b"chunked":
        return None        # the last coding is not chunked: no determinable length, not a well-formed request
    if te is not None:
        if b"Content-Length" in hs and not re.match(rb"^[0-9]{1,9}\Z", hs[b"Content-Length"]):
            return None
        while True:
            cm = re.match(rb"([0-9a-f]{1,6})\r\n", s[pos:])
            if not cm:
                return None
            n = int(cm.group(1), 16)
            pos += cm.end()
            if n == 0:
                if s[pos:pos + 2] != b"\r\n":
                    return None
                pos += 2
                break
            if len(s) < pos + n + 2 or s[pos + n:pos + n + 2] != b"\r\n":
                return None
            body += s[pos:pos + n]
            pos += n + 2
    elif b"Content-Length" in hs:
        if not re.match(rb"^[0-9]{1,9}\Z", hs[b"Content-Length"]):
            return None
        n = int(hs[b"Content-Length"])
        if len(s) < pos + n:
            return None
        body = s[pos:pos + n]
        pos += n
    # target: '#' and '?' split only when they are not the first byte
    if target[0:1] in (b"#", b"?"):
        return None
    h = target.find(b"#")
    before, frag = (target[:h], target[h + 1:]) if h > 0 else (target, b"")
    q = before.find(b"?")
    raw, qs = (before[:q], before[q + 1:]) if q > 0 else (before, b"")
    if not _VALID_ESC.match(raw):
        return None
    path = _ref_path(raw)
    if path is None:
        return None
    qd = _ref_query(qs)
    if qd is None:
        return None
    parts = _parts(path)
    rec = "m=%s r=%s pr=%s p=%s q=%s f=%s parts=%s H=%s b=%s qd=%s ci=1 dd=0" % (
        adler_rep(method), adler_rep(target), adler_rep(proto), adler_rep(path), adler_rep(qs), adler_rep(frag),
        ",".join(hexs(x) for x in parts) if parts else "none",
        ";".join("%s:%s" % (hexs(k), adler_rep(hs[k])) for k in sorted(hs)) if hs else "-",
        adler_rep(body), qd)
    return rec, pos, hs


def _ref_interim(hs):
    """RFC 7231 5.1.1: `Expect: 100-continue` is answered with an interim 100 before the body is read (the library refuses
    announced lengths from 128000000 on with 417; the strict parser only admits 1-9 digit lengths)"""
    if hs.get(b"Expect") != b"100-continue":
        return b""
    n = int(hs.get(b"Content-Length", b"0"))
    return b"HTTP/1.1 100 Continue\r\n\r\n" if n < 128000000 else b"HTTP/1.1 417 Too big\r\n\r\n"


def _ref_serve(s):
    """(records, response bytes, unread) for a stream made of strictly well-formed, dispatched requests, else None"""
    if any(len(l) > 16000 for l in s.split(b"\n")[:256]):
        return None
    pos = 0
    recs = []
    ats = []
    out = b""
    while pos < len(s):
        r = _ref_request(s[pos:])
        if r is None:
            return None
        rec, used, hs = r
        m = re.match(rb"^(\S+) \S+ (HTTP/1\.[01])\r\n", s[pos:])
        method, proto = m.group(1), m.group(2)
        if method == b"OPTIONS" or " p=0:- " in rec:
            return None
        hconn = hs.get(b"Connection", b"")     # the field value with its folded continuation lines
        if any(c >= 0x80 for c in hconn):
            return None
        hconn = hconn.lower()
        recs.append(rec)
        pos += used
        ats.append(len(s) - pos)
        out += _ref_interim(hs) + proto + b" 200 OK\r\n" + (b"Connection: keep-alive\r\n" if hconn == b"keep-alive" else b"") + b"Content-Length: 2\r\n\r\nok"
        if (proto == b"HTTP/1.0" and hconn != b"keep-alive") or hconn == b"close":
            break
    return recs, out, ats


_RNG_SIZES = (36, 0, 4)
_UPG_HEAD = re.compile(rb"^(?:GET|POST) /[A-Za-z0-9/_.-]* HTTP/1\.1\r\n((?:[A-Za-z][A-Za-z0-9-]*: [!-~](?:[ -~]*[!-~])?\r\n)*)\r\n\Z")


def _ref_ext(t):
    """RFC 7233 / RFC 6455 reading of the canonical `rng` and `upg` inputs, independent of model and code; None = no opinion"""
    if t[0] == "rng" and len(t) == 3:
        n = _RNG_SIZES[int(t[1]) % 3]
        v = unhex(t[2])
        m = re.match(rb"^bytes=([0-9]{1,9})-([0-9]{0,9})\Z", v)
        if m:
            first = int(m.group(1))
            if m.group(2) and int(m.group(2)) == 0:
                return None        # known: property=C10 key=range-end-zero
            last = int(m.group(2)) if m.group(2) else n - 1
            last = min(last, n - 1)
            if first >= n or first > last:
                return "status=416 cr=bytes_*/%d len=0 body=0" % n
            return "status=206 cr=bytes_%d-%d/%d len=%d body=%d" % (first, last, n, last - first + 1, last - first + 1)
        m = re.match(rb"^bytes=-([0-9]{1,9})\Z", v)
        if m:
            k = int(m.group(1))
            if k == 0 or n == 0:
                return "status=416 cr=bytes_*/%d len=0 body=0" % n
            first = n - min(k, n)
            return "status=206 cr=bytes_%d-%d/%d len=%d body=%d" % (first, n - 1, n, n - first, n - first)
        return None
    if t[0] in ("upg", "upgf") and len(t) == (3 if t[0] == "upg" else 4):
        head, frame = unhex(t[1]), unhex(t[2])
        m = _UPG_HEAD.match(head)
        if not m:
            return None
        names = [l.split(b":")[0].lower() for l in m.group(1).split(b"\r\n") if l]
        if len(set(names)) != len(names) or any(x in names for x in (b"content-length", b"transfer-encoding", b"expect")):
            return None
        if b"Upgrade: websocket\r\n" not in m.group(1) or b"upgrade" not in names:
            return None
        # a complete body-less request asking for the websocket protocol: the WebSocket side starts at the first byte behind it
        return "ho=1 rest=" + adler_rep(frame)
    return None


def reference(line):
    t = line.split()
    try:
        if t[0] in ("rng", "upg", "upgf"):
            return _ref_ext(t)
        if t[0] == "srv" and len(t) == 2:
            r = _ref_serve(unhex(t[1]))
            if r is None:
                return None
            recs, out, ats = r
            # HttpServer::serve ends the connection itself (closeBehind, 7f6f841): send side shut down, what the peer sent
            # behind the last request served is read and dropped, the socket closed: nothing is left unread.  at= : bytes
            # of the stream still unread when each request was handed over (where it ended)
            return "n=%d%s | err=0 closed=1 out=%s rest=0 at=%s" % (len(recs), "".join(" [%s]" % x for x in recs), adler_rep(out),
                                                                     ",".join(str(a) for a in ats) if ats else "-")
        if t[0] == "tcp" and len(t) >= 2:
            outs = []
            for h in t[1:]:
                r = _ref_serve(unhex(h))
                if r is None:
                    return None
                recs, out, rest = r
                outs.append("n=%d%s | out=%s" % (len(recs), "".join(" [%s]" % x for x in recs), adler_rep(out)))
            return " || ".join(outs)
        if t[0] == "req" and len(t) == 2:
            s = unhex(t[1])
            if any(len(l) > 16000 for l in s.split(b"\n")[:64]):
                return None     # readLine's 16000-byte cap: such a connection is dropped
            r = _ref_request(s)
            if r is None:
                return None
            rec, pos, _hs = r
            return "%s | err=0 closed=0 out=%s rest=%d" % (rec, adler_rep(_ref_interim(_hs)), len(s) - pos)
        if t[0] == "tg" and len(t) == 2:
            raw = unhex(t[1])
            if not raw or not _VALID_ESC.match(raw) or any(c <= 32 or c >= 127 for c in raw):
                return None
            p = _ref_path(raw)
            if p is None:
                return None
            return "p=%s dd=0" % adler_rep(p)
        if t[0] == "dec" and len(t) == 2:
            import urllib.parse
            raw = unhex(t[1])
            if not re.match(rb"^(?:[^%\x00]|%[0-9a-fA-F]{2})*\Z", raw):
                return None
            return adler_rep(urllib.parse.unquote_to_bytes(raw))
        if t[0] == "url" and len(t) == 2:
            raw = unhex(t[1])
            m = re.match(rb"^(?:([a-z]+)://)?([a-z0-9.\-]+)(?::([0-9]{1,5}))?(/[^\x00]*)?\Z", raw)
            if not m or b"://" in (m.group(4) or b""):
                return None
            return "proto=%s host=%s port=%d path=%s" % (adler_rep(m.group(1) or b""), adler_rep(m.group(2)), int(m.group(3) or 0), adler_rep(m.group(4) or b"/"))
        if t[0] == "file":
            return "ok"
    except Exception:
        return None
    return None



# ------------------------------------------------------------------ dispatch clause (independent, on the implementation alone)
#
# "either drop the connection or hand the application a request whose method, headers, query parameters and body are
# the ones sent": if the application handler is invoked, the stream *as ended by the peer* must contain a complete
# framed request for that dispatch (request line with its LF, header block up to the empty line, exactly
# Content-Length body bytes or a complete chunked body with its terminating chunk), and the fields handed over must
# be those of that framed request.  `_frame` is a lenient framing parser written from RFC 7230 section 3, not from
# the code; where the framing of a malformed stream is a matter of interpretation it returns None (no opinion).

_WS0 = (b" ", b"\t", b"\x0b", b"\x0c", b"\r")


def _frame(s):
    """'incomplete' | None (framing not determined by the RFC) | dict(method,target,proto,headers|None,body,used)"""
    i = s.find(b"\n")
    if i < 0:
        return "incomplete"
    line = s[:i]
    if b"\x00" in line or len(line) > 16000:
        return None
    sp1 = line.find(b" ")
    sp2 = line.find(b" ", sp1 + 1) if sp1 >= 0 else -1
    if sp1 < 0 or sp2 < 0:
        return "incomplete"          # not a request line: nothing may be dispatched
    method, target, proto = line[:sp1], line[sp1 + 1:sp2], line[sp2 + 1:].strip(b" \t\r\n")
    pos = i + 1
    fields = []
    while True:
        j = s.find(b"\n", pos)
        if j < 0:
            return "incomplete"      # the empty line never arrived
        l = s[pos:j]
        pos = j + 1
        if len(l) > 16000:
            return None
        if l == b"\r":
            break
        if b"\x00" in l:
            return None
        if l[:1] in _WS0:
            # obs-fold: the line continues the previous field, joined with one space (RFC 7230 3.2.4)
            if not fields:
                # white space between the start line and the first field: the recipient must reject the message or skip
                # the line unprocessed (RFC 7230 3); the library rejects (c2e6d14), storing the line as a field is neither.
                # A line of white space alone stores nothing either way: no opinion
                return "incomplete" if l.strip(b" \t\r\n\x0b\x0c") else None
            more = l.strip(b" \t\r\n")
            if more:
                n0, v0 = fields[-1]
                fields[-1] = (n0, (v0 + b" " + more) if v0 else more)
            continue
        t = l.strip(b" \t\r\n")
        c = t.find(b":")
        if c < 0:
            return "incomplete"      # a line that is neither a field nor the empty line: the block is not complete
        if c == 0 or any(ch <= 0x20 or ch == 0x7f for ch in t[:c]):
            # a field name is a token; white space between the name and the colon must be rejected by a server
            # (RFC 7230 3.2.4: it hides Content-Length / Transfer-Encoding from one of two parsers): nothing may be dispatched
            return "incomplete"
        fields.append((t[:c], t[c + 1:].strip(b" \t\r\n")))
    names = [_capital(n) for n, _ in fields]
    simple = len(set(names)) == len(names)
    hd = dict(zip(names, (v for _, v in fields)))
    if not simple and (b"Content-Length" in names or b"Transfer-Encoding" in names):
        return None              # which of several values wins decides the framing: not for this oracle
    cl = hd.get(b"Content-Length")
    te = hd.get(b"Transfer-Encoding")
    if te is not None and any(c >= 0x80 for c in te):
        return None
    # transfer-coding names are case-insensitive; the body is chunked when the last coding is chunked (RFC 7230 3.3.1)
    chunked = te is not None and te.lower().split(b",")[-1].strip(b" \t\r\n") == b"chunked"
    body = b""
    if te is not None and not chunked:
        # a request whose last transfer coding is not chunked has no determinable length (RFC 7230 3.3.3 rule 3:
        # the server answers 400 and closes): neither "no body" nor Content-Length frames it, nothing may be dispatched
        return "incomplete"
    if cl is not None and not (re.fullmatch(rb"[0-9]{1,10}", cl) and int(cl) < 2 ** 31):
        # a sign, other characters, or more than fits a length: the framing is unknown, nothing may be dispatched
        return "incomplete"
    if cl is not None and not chunked:          # Transfer-Encoding overrides Content-Length (RFC 7230 3.3.3)
        n = int(cl)
        if len(s) - pos < n:
            return "incomplete"  # fewer body bytes than announced
        body = s[pos:pos + n]
        pos += n
    elif chunked:
        while True:
            j = s.find(b"\n", pos)
            if j < 0:
                return "incomplete"
            # chunk-size = 1*HEXDIG, optional blanks, optional ;extension, CRLF (RFC 7230 4.1); sizes that do not fit
            # 31 bits, signs, prefixes or anything else: the framing is unknown, nothing may be dispatched
            m = re.fullmatch(rb"([0-9a-fA-F]{1,8})[ \t]*(?:;[^\n]*)?\r", s[pos:j])
            if not m and re.fullmatch(rb"[0-9a-fA-F]{1,8}[ \t]*\r[^\n]+", s[pos:j]) and b"\x00" not in s[pos:j]:
                return None          # a size line with bytes between its CR and the LF: line-ending leniency, no opinion
            if not m and re.fullmatch(rb"[0-9a-fA-F]{1,8}[ \t]*(?:;[^\n]*)?", s[pos:j]):
                # a well-formed size line ended by a bare LF: a recipient MAY take a single LF for the line end (RFC 7230 3.5),
                # as this oracle does for the request line and the header lines: no opinion (the library takes `5;ext LF`
                # and refuses `5 LF`; both are allowed by the property)
                return None
            # (what a chunk extension holds is not judged: it is skipped whatever its bytes, a NUL included)
            if not m or int(m.group(1), 16) > 0x7fffffff:
                return "incomplete"
            n = int(m.group(1), 16)
            pos = j + 1
            if len(s) - pos < n + 2:
                return "incomplete"      # chunk data or its CRLF (after the last chunk: the empty trailer) missing
            if s[pos + n:pos + n + 2] != b"\r\n":
                return "incomplete"      # not a chunk end (trailer fields are not supported: such a request is dropped)
            body += s[pos:pos + n]
            pos += n + 2
            if n == 0:
                break
    return {"method": method, "target": target, "proto": proto, "headers": hd if simple else None, "body": body, "used": pos}


def _rec_fields(rec):
    return dict(t.split("=", 1) for t in rec.split(" ") if "=" in t)


def _frame_mismatch(fr, rec):
    """which field of a dispatched record differs from the framed request (None = all equal)"""
    f = _rec_fields(rec)
    if f.get("m") != adler_rep(fr["method"]):
        return "method"
    if f.get("r") != adler_rep(fr["target"]):
        return "target"
    if f.get("pr") != adler_rep(fr["proto"]):
        return "protocol"
    if f.get("b") != adler_rep(fr["body"]):
        return "body"
    if fr["headers"] is not None:
        hs = fr["headers"]
        exp = ";".join("%s:%s" % (hexs(k), adler_rep(hs[k])) for k in sorted(hs)) if hs else "-"
        if f.get("H") != exp:
            return "headers"
    t = fr["target"]
    if t and t[0:1] not in (b"#", b"?") and b"\x00" not in t:
        h = t.find(b"#")
        before = t[:h] if h > 0 else t
        q = before.find(b"?")
        raw, qs = (before[:q], before[q + 1:]) if q > 0 else (before, b"")
        if f.get("q") != adler_rep(qs):
            return "query string"
        qd = _ref_query(qs)
        if qd is not None and f.get("qd") != qd:
            return "query parameters"
        if _VALID_ESC.match(raw):
            p = _ref_path(raw)
            if p is not None and f.get("p") != adler_rep(p):
                return "path"
    return None


INCOMPLETE_CLAUSE = ("the application was handed a request although the stream, as ended by the peer, does not contain a "
                     "complete framed request (request line, header block up to the empty line, announced body)")
MISMATCH_CLAUSE = "the application was handed a request whose %s is not the one of the framed request in the stream"


END_CLAUSE = ("a request was handed to the application before its framed end or after bytes behind it had been read "
              "(the bytes of the stream unread at the dispatch are not those behind the framed request)")


def _dispatch_judge(stream, recs, ats=None):
    pos = 0
    k = 0
    while k < len(recs):
        fr = _frame(stream[pos:])
        if fr is None:
            return None
        if fr == "incomplete":
            return INCOMPLETE_CLAUSE
        if fr["method"] == b"OPTIONS":
            pos += fr["used"]        # answered by the server itself, never dispatched
            continue
        mm = _frame_mismatch(fr, recs[k])
        if mm is not None:
            return MISMATCH_CLAUSE % mm
        pos += fr["used"]
        if ats is not None and k < len(ats) and ats[k] != len(stream) - pos:
            return END_CLAUSE
        k += 1
    return None


def dispatch_clause(line, out):
    """the dispatch clause judged on one op line and the implementation's output for it: None or the violated clause"""
    t = line.split()
    try:
        if t[0] == "srv" and len(t) == 2 and out.startswith("n="):
            am = re.search(r" at=([0-9,]+)", out)
            return _dispatch_judge(unhex(t[1]), re.findall(r"\[(.*?)\]", out.split(" | ")[0]),
                                   [int(x) for x in am.group(1).split(",")] if am else None)
        if t[0] == "tcp" and len(t) >= 2 and out.startswith("n="):
            parts = out.split(" || ")
            if len(parts) != len(t) - 1:
                return None
            for h, o in zip(t[1:], parts):
                c = _dispatch_judge(unhex(h), re.findall(r"\[(.*?)\]", o.split(" | ")[0]))
                if c:
                    return c
            return None
        if t[0] == "req" and len(t) == 2 and " | " in out:
            rec, st = out.split(" | ", 1)
            f = _rec_fields(rec)
            # HttpServer::serve dispatches what HttpRequest(Socket&) built iff the socket is healthy and these are non-empty
            if " err=0 closed=0 " in " " + st and not (f.get("m", "0:-").startswith("0:") or f.get("p", "0:-").startswith("0:") or f.get("pr", "0:-").startswith("0:")):
                if f.get("m") == adler_rep(b"OPTIONS"):
                    return None
                return _dispatch_judge(unhex(t[1]), [rec])
    except Exception:
        return None
    return None


def oracle(case, impl, model, crash):
    """the property judged on the implementation's behaviour alone"""
    if crash:
        if crash.startswith("exit:98") or crash == "hang":
            return True, "the server side did not terminate within the time bound after the peer's close (%s)" % crash
        return True, "memory error / abnormal termination: %s" % crash
    for l in impl:
        if "SLOW(" in l:
            return True, "reading/dispatch of the stream was not prompt: " + l[l.index("SLOW("):][:80]
        if " dd=1" in l:
            return True, "the decoded request path handed to the application contains '..'"
        if l.startswith("leak"):
            return True, "the file server answered with bytes of a file outside its root"
        if " ci=0" in l:
            return True, "header lookup is not case-insensitive"
        if "negative-length" in l:
            return True, "a string/array of negative length was produced"
        if l.startswith("bad-status"):
            return True, "the file server produced an impossible status line"
    lines = [l for l in case if not l.startswith("case")]
    outs = impl[1:] if impl and impl[0] == "case" else impl
    for l, o in zip(lines, outs):
        c = dispatch_clause(l, o)
        if c:
            return True, c
    for l, o in zip(lines, outs):
        if l.split()[0] in ("rng", "upg", "upgf"):
            exp = reference(l)
            if exp is not None and o != exp:
                return True, ("a single satisfiable/unsatisfiable byte range was not answered with begin <= end < size as RFC 7233 reads it (expected %s)" % exp
                              if l.startswith("rng") else
                              "the WebSocket server did not receive the connection exactly behind the upgrade request: the HTTP reader consumed more or less than the request head (expected %s)" % exp)
    for l, o in zip(lines, outs):
        exp = reference(l)
        if exp is not None and o != exp:
            return True, "a well-formed request/target/URL was not handed over as sent (independent reference disagrees)"
    # The generic shrinker kept *a* divergence, and this one breaks no clause by itself.  Before settling for
    # "no failing input", look for a stream of this run on which the implementation alone breaks the dispatch clause;
    # if there is one, this failure is reported with that concrete (shrunk) stream instead of the harmless one.
    try:
        seed, tier = _run_params()
        res = _dispatch_search(_harness(), seed, tier)
        for l, o, clause in res["found"]:
            if clause not in res["used"]:
                res["used"].add(clause)
                from lib import core
                mo = core.run_model(DRIVER, ["case 0", l])
                case[:] = [l]
                impl[:] = ["case", o]
                model[:] = mo
                return True, clause
    except Exception:
        pass
    return False, ("implementation and model differ on a malformed stream in a way the property does not constrain; "
                   "the model no longer describes the code, so the theorems no longer apply to it")


PREDICATES = [(" dd=1", "the decoded request path handed to the application contains '..'"),
              ("leak", "the file server answered with bytes of a file outside its root"),
              (" ci=0", "header lookup is not case-insensitive"),
              ("SLOW(", "reading/dispatch of the stream was not prompt"),
              ("negative-length", "a string/array of negative length was produced")]


REF_CLAUSE = "a well-formed request/target/URL was not handed over as sent (independent reference disagrees)"


def _judge(line, out):
    """the property judged on one op line and the implementation's output alone: the dispatch clause, then the
    strict reference for well-formed input; None = no violation"""
    c = dispatch_clause(line, out)
    if c:
        return c
    exp = reference(line)
    if exp is not None and exp != out:
        return REF_CLAUSE
    return None


def _shrink_stream(exe, line, clause, budget=160):
    """byte-level ddmin of one op line, keeping the same violated clause (judged on the implementation alone)"""
    from lib import core
    t = line.split()
    if len(t) != 2:
        return line, None
    op, b = t[0], unhex(t[1])

    def bad(c):
        l = op + " " + hexs(c)
        impl, crash, err = core.run_impl(exe, [l], timeout=60)
        return bool(impl) and _judge(l, impl[0]) == clause, (impl[0] if impl else "")
    best_out = None
    n = 2
    trials = 0
    while len(b) >= 2 and trials < budget:
        k = max(1, len(b) // n)
        reduced = False
        for st in range(0, len(b), k):
            c = b[:st] + b[st + k:]
            trials += 1
            ok, o = bad(c)
            if ok:
                b, best_out, reduced = c, o, True
                n = max(n - 1, 2)
                break
            if trials >= budget:
                break
        if not reduced:
            if k == 1:
                break
            n = min(n * 2, len(b))
    return op + " " + hexs(b), best_out


_SEARCH = {}     # (seed, tier) -> {"found": [(line, out, clause)], "judged": n, "violations": n, "used": set()}


def _run_params():
    """seed and tier of this run (the engine does not pass them to oracle())"""
    import os
    import sys
    a = sys.argv
    seed = int(a[a.index("--seed") + 1]) if "--seed" in a else int(os.environ.get("VERIF_SEED", "1"))
    tier = a[a.index("--tier") + 1] if "--tier" in a else os.environ.get("VERIF_TIER", "quick")
    return seed, tier


def _harness():
    from lib import core
    libdir, _ = core.build_lib("asan")
    return core.build_harness(DRIVER, libdir, "asan")


def _dispatch_search(exe, seed, tier, all_predicates=False):
    """the dispatch clause (and, on request, the other predicates) judged on the implementation alone over every
    req/srv/tcp stream of the run; one shrunk witness per violated clause"""
    import random
    from concurrent.futures import ThreadPoolExecutor
    from lib import core
    from lib.engine import corpus_cases
    key = (seed, tier, all_predicates)
    if key in _SEARCH:
        return _SEARCH[key]
    rng = random.Random(seed * 1000003 + int(ID[1:]))
    ops = ("req", "tg", "srv", "tcp", "file", "fmap", "dec", "url") if all_predicates else ("req", "srv", "tcp")
    lines = [l for c in corpus_cases(ID) + gen(rng, tier) for l in c if l.split()[0] in ops]
    nb = max(1, min(core.NCPU, len(lines) // 1000 or 1))
    size = (len(lines) + nb - 1) // nb
    chunks = [lines[i:i + size] for i in range(0, len(lines), size)]
    found = []
    judged = [0]

    def run(ch):
        impl, crash, err = core.run_impl(exe, ch, timeout=900)
        out = []
        for l, o in zip(ch, impl):
            c = _judge(l, o)
            if c is None and all_predicates:
                for pat, clause in PREDICATES:
                    if pat in o:
                        c = clause
                        break
            if o.startswith("n=") or " | " in o:
                judged[0] += 1
            if c:
                # witnesses through the real server loop (handler really invoked) first, then the shortest
                out.append(((0 if l.startswith("srv") else 1, len(l)), l, o, c))
        return out
    with ThreadPoolExecutor(max_workers=nb) as ex:
        for r in ex.map(run, chunks):
            found.extend(r)
    found.sort()
    wit = []
    seen = set()
    for n, l, o, clause in found:
        if clause in seen:
            continue
        seen.add(clause)
        if clause == INCOMPLETE_CLAUSE or clause.startswith(MISMATCH_CLAUSE[:40]) or clause == REF_CLAUSE:
            l2, o2 = _shrink_stream(exe, l, clause)
            if o2 is not None:
                l, o = l2, o2
        wit.append((l, o, clause))
    res = {"found": wit, "judged": judged[0], "used": set(),
           "violations": sum(1 for x in found if x[3] == INCOMPLETE_CLAUSE or x[3].startswith(MISMATCH_CLAUSE[:40]))}
    _SEARCH[key] = res
    return res


def extra(ctx):
    """(1) always: the dispatch clause judged on the implementation alone over every req/srv/tcp stream of the run
    (independent framing parser, see `_frame`); (2) only when the correspondence pass saw a failure: the other
    predicates of the property over the whole generated set.  Violations are reported with the concrete stream,
    shrunk bytewise (the shrinker of the generic pass keeps *any* divergence, not necessarily one that breaks the
    property)."""
    from lib.engine import Failure
    st = ctx["stats"]
    failed = st.get("validated", 0) < st.get("evaluations", 0)
    res = _dispatch_search(ctx["exe"], ctx["seed"], ctx["tier"], all_predicates=failed)
    already = set()
    for k, v in _SEARCH.items():
        already |= v["used"]
    fails = []
    for l, o, clause in res["found"]:
        if clause in already:
            continue
        f = Failure("diverge", [l], ["case", o], ["case", "(property predicate)"], clause=clause,
                    name="property oracle judged on the implementation alone (dispatch clause / targeted search over the generated set)")
        fails.append(f)
    st["dispatch_clause_streams_judged"] = res["judged"]
    st["dispatch_clause_violations"] = res["violations"]
    return fails[:4]


def simplify_line(line):
    """byte-level shrinking candidates for one op line"""
    t = line.split()
    if len(t) != 2 or t[1] == "-":
        return
    b = unhex(t[1])
    n = len(b)
    seen = set()
    for frac in (2, 4, 8, 16):
        k = max(1, n // frac)
        for s in range(0, n, k):
            c = b[:s] + b[s + k:]
            if c not in seen:
                seen.add(c)
                yield t[0] + " " + hexs(c)
