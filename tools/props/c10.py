"""C10 — HTTP client and server exchange exact methods, headers, status and bodies: plugin for tools/check.py

Line protocol (see lean/Driver/C10.lean): `xchg` (real client <-> real server), `cwire` (real client -> raw
server: request bytes on the wire), `cread` (raw server -> real client, any fragmentation), `raw` (raw client ->
real server: keep-alive sequences and pipelining, any fragmentation).  `extra()` runs the concurrent clients and
the multi-megabyte bodies, judged by the property oracle inside the harness.
"""
import re

from lib import cparse
from lib.core import hexs, unhex
from lib.engine import TranslateError

ID = "C10"
PROPS_MODULE = "AslProps.C10"
DRIVER = "c10"
HARNESS_TIMEOUT = 900

RULE = ("cases = single exchanges or one connection carrying several requests: real client <-> real server (xchg; reuse = one request "
        "object sent several times with its framing, body and method changed in between), real client -> "
        "raw peer (cwire/cread), raw client -> real server (raw) over loopback TCP; non-trivial = distinct case that moves at "
        "least one header or one body byte in some direction")

TRUSTED = ["tools/props/c10.py translate(): regex extraction of SEND_BLOCK_SIZE / RECV_BLOCK_SIZE and their three uses from src/Http.cpp",
           "harness/c10.cpp: raw POSIX-socket peers with their own 40-line HTTP message delimiter (Content-Length / chunked), "
           "FNV-1a digests, replacement of the Date value and of the kernel-chosen port in printed text"]
ASSUMPTIONS = ["send() on a blocking socket accepts a non-empty prefix of the buffer or fails; read() returns a non-empty prefix of "
               "what the peer sent, or 0 at EOF (the partial-transfer schedules of partial_io_complete)",
               "FIONREAD reports between 1 and all of the unread bytes when some are queued (Inp.available)",
               "TCP delivers the bytes of a connection in order, without loss or duplication — except after the READER gives a "
               "connection up with unread input (refused framing: a plain close inside readHeaders/readBody): the reset TCP then sends "
               "may destroy answers the peer has not yet read (an ordinary end of a connection is a send-side shutdown first since "
               "e887919 / 7f6f841 and loses nothing); the model says what the server wrote, and refused framing is generated only where nothing is pending (sequential "
               "raw peers without Expect)",
               "timing: every byte of a message arrives within the library's waits (Socket::readLine waitInput 60 s, readBody waitInput "
               "10 s per turn, serve() waitData 5 s) and a kept-alive connection is used for less than 10 s in total: HttpServer::serve "
               "loops while now() - t1 < 10.0 with t1 taken once at accept, so the server closes every persistent connection 10 s after "
               "it was accepted (between exchanges; an exchange in progress is completed). The model has no clock: a connection is the "
               "bytes that will arrive, then EOF",
               "toupper/tolower/isspace in the C locale act on ASCII only",
               "String(int), %x, %i, %lli print canonical decimal / lower-case hex; myatoi and strtoul(.,16) read them back "
               "(atoi_utoa, hexToInt_hexLower are theorems about the modelled functions); chunk-size lines that are not 1 to 8 hex "
               "digits (then blanks, CR or ';') with a value up to 0x7fffffff are refused by the repaired reader (chunkLineValid)",
               "a handler thread touches only its own connection's Socket/HttpRequest/HttpResponse and the block buffers that are locals "
               "of readBody/writeFile: this is what the model's atomic per-connection turns (Server := Nat -> Conn) assume; it is checked "
               "on the real library by the par and dl oracles, not proved (the shared client counter is C14's)"]


# ------------------------------------------------------------------ G: block sizes

def translate(repo):
    src = cparse.read(repo, "src/Http.cpp")
    out = {}
    vals = {}
    for name in ("SEND_BLOCK_SIZE", "RECV_BLOCK_SIZE"):
        m = re.findall(r"^[ \t]*#[ \t]*define[ \t]+%s[ \t]+(\d+)[ \t]*\r?$" % name, src, re.M)
        if len(m) != 1:
            raise TranslateError("#define %s <decimal> not found exactly once in src/Http.cpp" % name)
        vals[name] = int(m[0])
    body = cparse.find_function(src, r"int\s+HttpMessage::write\s*\(\s*const\s+char\s*\*\s*buffer\s*,\s*int\s+n\s*\)\s*\{")
    if not re.search(r"int\s+m\s*=\s*min\s*\(\s*n\s*,\s*SEND_BLOCK_SIZE\s*\)\s*;", body):
        raise TranslateError("HttpMessage::write(buffer,n): block size expression `min(n, SEND_BLOCK_SIZE)` not recognised")
    if not re.search(r'String::f\s*\(\s*"%x\\r\\n"\s*,\s*m\s*\)', body):
        raise TranslateError('HttpMessage::write(buffer,n): chunk header `String::f("%x\\r\\n", m)` not recognised')
    rb = cparse.find_function(src, r"void\s+HttpMessage::readBody\s*\(\s*\)\s*\{")
    if not re.search(r"byte\s+buffer\s*\[\s*RECV_BLOCK_SIZE\s*\]\s*;", rb) or not re.search(r"min\s*\(\s*maxToRead\s*,\s*\(int\)\s*sizeof\s*\(\s*buffer\s*\)\s*\)", rb):
        raise TranslateError("HttpMessage::readBody: receive block `byte buffer[RECV_BLOCK_SIZE]` / `min(maxToRead, (int)sizeof(buffer))` not recognised")
    wf = cparse.find_function(src, r"void\s+HttpMessage::writeFile\s*\([^)]*\)\s*\{")
    if not re.search(r"char\s+buf\s*\[\s*RECV_BLOCK_SIZE\s*\]\s*;", wf):
        raise TranslateError("HttpMessage::writeFile: file block `char buf[RECV_BLOCK_SIZE]` not recognised")
    txt = "/- GENERATED by tools/props/c10.py from src/Http.cpp — do not edit -/\nnamespace Gen.HttpFrame\n\n"
    txt += "def sendBlockSize : Nat := %d\n" % vals["SEND_BLOCK_SIZE"]
    txt += "def recvBlockSize : Nat := %d\n" % vals["RECV_BLOCK_SIZE"]
    txt += "\nend Gen.HttpFrame\n"
    out["Gen/HttpFrameGen.lean"] = txt
    # AslModel.HttpFrame imports AslModel.Codec (Url::decode), whose tables are C15's generated file
    from props import c15
    out.update(c15.translate(repo))
    return out


FALLBACK = {"Gen/HttpFrameGen.lean": "namespace Gen.HttpFrame\ndef sendBlockSize : Nat := 0\ndef recvBlockSize : Nat := 0\nend Gen.HttpFrame\n"}

# ------------------------------------------------------------------ shared encodings (same as harness/c10.cpp, Driver/C10.lean)

KB = 1024


def lcg_body(seed, n, mode):
    x = seed % 2147483648
    out = bytearray(n)
    for i in range(n):
        x = (x * 1103515245 + 12345) % 2147483648
        b = (x >> 16) & 255
        if mode == 0:
            c = b
        elif mode == 1:
            k = b & 7
            c = 13 if k == 0 else 10 if k == 1 else 0 if k == 2 else 48 if k == 3 else b
        else:
            c = 32 + b % 95
        out[i] = c
    return bytes(out)


def body_of(spec):
    if spec == "-":
        return b""
    if spec[0] == "x":
        return unhex(spec[1:])
    seed, n, mode = spec[1:].split(".")
    return lcg_body(int(seed), int(n), int(mode))


def fnv(b):
    h = 14695981039346656037
    for c in b:
        h = ((h ^ c) * 1099511628211) & 0xFFFFFFFFFFFFFFFF
    return h


def digest(b):
    return "B%d.%016x" % (len(b), fnv(b))


def wire_str(w):
    s = "W%d.%016x" % (len(w), fnv(w))
    if len(w) <= 160:
        s += " " + hexs(w)
    return s


def gspec(rng, n, mode=None):
    if mode is None:
        mode = rng.choice([0, 0, 1, 2])
    if n == 0:
        return "-"
    if n <= 24 and rng.random() < 0.5:
        return "x" + lcg_body(rng.randrange(1 << 30), n, mode).hex()
    return "g%d.%d.%d" % (rng.randrange(1 << 30), n, mode)


def H(pairs):
    t = ["H%d" % len(pairs)]
    for n, v in pairs:
        t += [hexs(n), hexs(v)]
    return " ".join(t)


def cap(name):
    out = bytearray()
    up = True
    for c in name:
        ch = bytes([c])
        ch = ch.upper() if up else ch.lower()
        if c >= 128:
            ch = bytes([c])
        out += ch
        up = ch == b"-"
    return bytes(out)


RESERVED = {b"Content-Length", b"Transfer-Encoding", b"Connection", b"Host", b"Range", b"Content-Type", b"Expect", b"Upgrade",
            b"Origin", b"Access-Control-Request-Headers", b"Content-Range", b"Date", b"Cache-Control", b"Allow", b"Location",
            b"X-Plan", b"If-Modified-Since", b"Access-Control-Allow-Origin", b"Access-Control-Allow-Methods",
            b"Access-Control-Allow-Headers", b"Access-Control-Allow-Credentials", b"Last-Modified"}

TCHARS = b"abcdefghijklmnopqrstuvwxyzABCDEFGHIJKLMNOPQRSTUVWXYZ0123456789-_"
TCHARS_X = TCHARS + b"!#$%&'*+.^`|~"
PRINTABLE = bytes(range(0x21, 0x7f))


def rname(rng):
    while True:
        k = rng.randrange(1, 14)
        alpha = TCHARS_X if rng.random() < 0.2 else TCHARS
        n = bytes(rng.choice(alpha) for _ in range(k))
        if rng.random() < 0.5:
            n = b"X-" + n
        if cap(n) not in RESERVED:
            return n


def rvalue(rng, maxlen=40):
    k = rng.randrange(1, maxlen + 1)
    r = rng.random()
    if r < 0.6:
        body = bytes(rng.choice(PRINTABLE + b"    ") for _ in range(k))
    elif r < 0.8:
        body = "".join(rng.choice("aé€😀 :;,=\"'\\/") for _ in range(k)).encode("utf-8")
    else:
        body = bytes(rng.choice(b"abc:; \t=,/") for _ in range(k))
    body = body.strip(b" \t\r\n")
    return body or b"v"


def rheaders(rng, kmax=6, maxlen=40, empty=False):
    """`empty`: now and then a header with an empty value (a field all the same: `X-Empty: `)"""
    k = rng.choice([0, 1, 1, 2, 3, kmax])
    out = {}
    for _ in range(k):
        n = rname(rng)
        if any(cap(n) == cap(m) for m in out):
            continue
        out[n] = b"" if (empty and rng.random() < 0.12) else rvalue(rng, maxlen)
    return list(out.items())


METHODS = [b"GET", b"POST", b"PUT", b"DELETE", b"PATCH", b"HEAD", b"M-SEARCH", b"PROPFIND", b"get", b"X1", b"REPORT!"]


def pct(b, rng=None, keep=b"abcdefghijklmnopqrstuvwxyzABCDEFGHIJKLMNOPQRSTUVWXYZ0123456789-_.!~*'()"):
    """percent-encoding; with `rng` the hex digits of each escape are upper, lower or mixed case (%5B, %5b, %4a, %0d ...),
    and now and then an unreserved byte is escaped too (legal, RFC 3986 2.3)"""
    out = bytearray()
    for c in b:
        if c in keep and not (rng is not None and rng.random() < 0.08):
            out.append(c)
            continue
        if rng is None:
            out += b"%%%02X" % c
        else:
            style = rng.randrange(4)
            h = "%02X" % c if style == 0 else "%02x" % c if style == 1 else \
                ("%X" % (c >> 4)) + ("%x" % (c & 15)) if style == 2 else ("%x" % (c >> 4)) + ("%X" % (c & 15))
            out += b"%" + h.encode()
    return bytes(out)


def rsegment(rng):
    k = rng.randrange(1, 10)
    r = rng.random()
    if r < 0.5:
        return bytes(rng.choice(b"abcXYZ019-_~!*'()") for _ in range(k))
    if r < 0.8:
        s = bytes(rng.randrange(1, 256) for _ in range(k))
    else:
        s = "".join(rng.choice("añ€😀 +&=?#%/;:") for _ in range(k)).encode("utf-8")
    return s


def clean_path(p):
    """the server removes `..` from decoded paths by design (C09); keep generated paths free of it"""
    while b".." in p:
        p = p.replace(b"..", b".")
    return p


def rtarget(rng):
    """(encoded target, decoded path, query string, query dict)"""
    segs = [rsegment(rng) for _ in range(rng.randrange(0, 4))]
    path = clean_path(b"/" + b"/".join(segs))
    enc = b"/" + b"/".join(pct(s, rng) for s in segs)
    # re-derive the decoded path from what is really sent
    import urllib.parse
    path = urllib.parse.unquote_to_bytes(enc)
    if b".." in path:
        return rtarget(rng)
    qs = b""
    qd = {}
    if rng.random() < 0.6:
        for _ in range(rng.randrange(1, 5)):
            k = rsegment(rng)
            v = rsegment(rng) if rng.random() < 0.85 else b""
            qd[k] = v
        # Url::params : sorted by encoded key
        items = sorted((pct(k, rng), pct(v, rng)) for k, v in qd.items())
        qs = b"&".join(k + b"=" + v for k, v in items)
    t = enc + (b"?" + qs if qs else b"")
    if rng.random() < 0.1:
        t += b"#frag?x"
    return t, path, qs, qd


def req(method, target, flags, headers, kind, body=None):
    s = "%s %s %s %s %s" % (hexs(method), hexs(target), flags, H(headers), kind)
    if kind != "n":
        s += " " + body
    return s


def plan(code, headers, kind, *args):
    return " ".join(["P", str(code), H(headers), kind] + list(args))


def cuts_str(cuts):
    return ",".join(str(c) for c in cuts) if cuts else "-"


def rcuts(rng, n, style=None):
    if n <= 1:
        return []
    style = style or rng.choice(["none", "few", "few", "many", "every", "ends"])
    if style == "none":
        return []
    if style == "few":
        return sorted(rng.randrange(1, n) for _ in range(rng.randrange(1, 5)))
    if style == "many":
        return sorted(set(rng.randrange(1, n) for _ in range(min(n, rng.randrange(5, 40)))))
    if style == "every":
        return list(range(1, min(n, 260)))
    return sorted(set([1, max(1, n - 1), max(1, n - 2)]))


SIZES_16K = [16000 * k + d for k in range(1, 20) for d in range(-3, 4) if 16000 * k + d <= 300 * KB]
SIZES_128K = [128000 * k + d for k in (1, 2) for d in range(-3, 4)]

CODES = [200, 200, 200, 201, 202, 204, 206, 226, 300, 303, 304, 400, 401, 403, 404, 404, 405, 409, 418, 451, 500, 501, 503, 599]
EXTS = [b"txt", b"html", b"json", b"png", b"bin", b"", b"JS", b"css", b"webm"]


def head_of(start, headers):
    h = start + b"\r\n"
    for n, v in headers:
        h += n + b": " + v + b"\r\n"
    return h + b"\r\n"


def rchunks(rng):
    r = rng.random()
    if r < 0.3:
        return "ch" + str(rng.randrange(1, 40))
    if r < 0.6:
        return "ch" + ",".join(str(rng.randrange(1, 5000)) for _ in range(rng.randrange(1, 4)))
    if r < 0.8:
        return "ch" + str(rng.choice([16000, 15999, 16001, 128000, 65536, 1])) + rng.choice(["", "u", "x", "ux"])
    return "ch" + str(rng.randrange(1, 70000)) + rng.choice(["u", "x", "", "p", "pu", "px", "q"])


# ------------------------------------------------------------------ generator

def gen_xchg_basic(rng):
    t, path, qs, qd = rtarget(rng)
    method = rng.choice(METHODS)
    flags = rng.choice("DS") + "F"
    hs = rheaders(rng, empty=True)
    n = rng.choice([0, 0, 1, 2, 5, 17, 100, 1000, rng.randrange(0, 5000)])
    kind = rng.choice("bbtf") if n else rng.choice("nbtf")
    mode = 2 if kind == "t" else None
    body = gspec(rng, n, mode) if kind != "n" else None
    m = rng.choice([0, 0, 1, 3, 10, 64, 999, rng.randrange(0, 5000)])
    pk = rng.choice(["n", "b", "b", "t", "f", "s"])
    code = rng.choice(CODES)
    phs = rheaders(rng)
    if pk == "n":
        p = plan(code, phs, "n")
    elif pk in "bt":
        p = plan(code, phs, pk, gspec(rng, m, 2 if pk == "t" else None))
    elif pk == "f":
        p = plan(code, phs, "f", gspec(rng, m), hexs(rng.choice(EXTS)))
    else:
        sizes = ",".join(str(rng.randrange(1, 400)) for _ in range(rng.randrange(1, 4)))
        p = plan(code, phs, "s", gspec(rng, m), sizes)
    return ["xchg " + req(method, t, flags, hs, kind, body) + " " + p]


def gen_xchg_size(rng, n, direction):
    """one exchange whose request (direction 0) or response (1) or both (2) body has exactly n bytes"""
    mode = rng.choice([0, 1, 2])
    if direction in (0, 2):
        kind = rng.choice("bbf") if mode != 2 else rng.choice("btf")
        r = req(b"POST", b"/s", "SF", [], kind, gspec(rng, n, mode) if n else "-")
    else:
        r = req(b"GET", b"/s", "SF", [], "n")
    if direction in (1, 2):
        pk = rng.choice(["b", "b", "f", "s"]) if mode != 2 else rng.choice(["b", "t", "f", "s"])
        if pk == "f":
            p = plan(200, [], "f", gspec(rng, n, mode) if n else "-", hexs(b"bin"))
        elif pk == "s":
            sz = rng.choice(["128000", "16000", "127999,1", "300000", str(rng.randrange(1, 200000)), "1,%d" % max(1, n - 1)])
            p = plan(200, [], "s", gspec(rng, n, mode) if n else "-", sz)
        else:
            p = plan(200, [], pk, gspec(rng, n, mode) if n else "-")
    else:
        p = plan(200, [], "n")
    return ["xchg " + r + " " + p]


JSONS = ['{"a":1}', '[1,2,3,"x",true,null]', '{"k":{"n":[1,{"z":"é\\n\\u0001"}],"s":"a/b"}}', '"just a string"', '[]', '{}',
         '{"big":[' + ",".join(str(i * 7919) for i in range(300)) + ']}', '[1.5,-2,3e2,"\\"q\\""]']


def gen_json(rng):
    a = rng.choice(JSONS).encode()
    b = rng.choice(JSONS).encode()
    r = req(rng.choice([b"POST", b"PUT", b"PATCH"]), b"/api/json?x=1", "SF", rheaders(rng, 2), "j", "x" + a.hex())
    p = plan(rng.choice([200, 201, 400]), rheaders(rng, 2), "j", "x" + b.hex())
    out = ["xchg " + r + " " + p]
    out.append("xchg " + req(b"GET", b"/j", "SF", [], "n") + " " + plan(200, [], "j", "x" + b.hex()))
    out.append("xchg " + r + " " + plan(200, [], "b", gspec(rng, 5)))
    return out


def range_case(rng, n, spec, ext=b"bin", seed=None):
    content = "g%d.%d.0" % (seed if seed is not None else rng.randrange(1 << 30), n) if n else "-"
    r = req(b"GET", b"/file", "SF", [(b"Range", spec)], "n")
    return "xchg " + r + " " + plan(200, [], "f", content, hexs(ext))


def gen_ranges_small(rng, sizes):
    """every range [b,e] with 0 <= b, e <= n+2 (a last position past the end is served to the end; explicit e = 0 is the known finding range-end-zero and is left out),
    open-ended forms, for files of the given sizes"""
    cases = []
    for n in sizes:
        seed = rng.randrange(1 << 30)
        batch = []
        for k in range(0, n + 3):
            batch.append(range_case(rng, n, b"bytes=-%d" % k, seed=seed))          # the last k bytes
        for b in range(0, n + 2):
            batch.append(range_case(rng, n, b"bytes=%d-" % b, seed=seed))
            batch.append(range_case(rng, n, b"bytes=%d" % b, seed=seed))
            for e in range(1, n + 3):
                batch.append(range_case(rng, n, b"bytes=%d-%d" % (b, e), seed=seed))
        for i in range(0, len(batch), 40):
            cases.append(batch[i:i + 40])
    return cases


def gen_ranges_large(rng, count):
    cases = []
    for _ in range(count):
        n = rng.choice([16000, 16001, 32000, 48001, 100000, 128000, 128001, 200000, rng.randrange(1000, 300000)])
        b = rng.choice([0, 1, 15999, 16000, 16001, rng.randrange(0, n)])
        e = rng.choice([n - 1, n, n + 1, b, b + 1, b + 15999, b + 16000, b + 127999, b + 128000, rng.randrange(1, n + 10)])
        if e == 0:
            e = 1
        cases.append([range_case(rng, n, b"bytes=%d-%d" % (b, e))])
    # positions that do not fit an int, suffix ranges on large files
    for spec in (b"bytes=4294967296-4294967300", b"bytes=5-4294967301", b"bytes=4294967301-", b"bytes=2147483648-2147483650",
                 b"bytes=%d-%d" % (rng.randrange(1 << 32, 1 << 40), rng.randrange(1 << 32, 1 << 40)), b"bytes=-4294967296",
                 # beyond 2^63 and 2^64: no wrap of the 64-bit conversion either
                 b"bytes=18446744073709551621-18446744073709551623", b"bytes=5-18446744073709551623", b"bytes=18446744073709551621-",
                 b"bytes=-18446744073709551621", b"bytes=9223372036854775813-9223372036854775815",
                 b"bytes=%d-%d" % ((1 << 64) + rng.randrange(0, 20), (1 << 64) + rng.randrange(0, 40)),
                 b"bytes=%d-%d" % (rng.randrange(0, 20), (1 << rng.choice([63, 64, 65, 70, 128])) + rng.randrange(0, 20)),
                 b"bytes=999999999999999999-", b"bytes=5-999999999999999999"):
        cases.append([range_case(rng, 20, spec)])
    for _ in range(max(2, count // 6)):
        n = rng.choice([16000, 16001, 48001, 128001, rng.randrange(1000, 300000)])
        cases.append([range_case(rng, n, b"bytes=-%d" % rng.choice([1, 15999, 16000, 16001, n - 1, n, n + 1, rng.randrange(1, n + 10)]))])
    # other forms: not served as ranges -> whole file
    for spec in (b"bytes=0-1,3-4", b"items=0-5", b"bytes=1-2, 4-5"):
        cases.append([range_case(rng, 20, spec)])
    return cases


def gen_cwire(rng):
    t, path, qs, qd = rtarget(rng)
    n = rng.choice([0, 1, 30, 200, 5000, 127999, 128000, 128001])
    kind = rng.choice("bbtf") if n else "n"
    return ["cwire " + req(rng.choice(METHODS), t, rng.choice("DS") + "F", rheaders(rng, empty=True), kind, gspec(rng, n, 2 if kind == "t" else None) if n else None)]


def gen_cread(rng, big=False):
    code = rng.choice(CODES)
    msg = rng.choice([b"OK", b"Not Found", b"Whatever It Is", b""])
    proto = rng.choice([b"HTTP/1.1", b"HTTP/1.1", b"HTTP/1.0"])
    start = proto + b" %d" % code + (b" " + msg if msg else b"")
    n = rng.choice([0, 1, 2, 10, 100, 1000, 15999, 16000, 16001, 40000]) if not big else rng.choice(SIZES_16K + SIZES_128K)
    hs = rheaders(rng, empty=True)
    mode = rng.choice([0, 1, 2])
    bs = gspec(rng, n, mode)
    if rng.random() < 0.5:
        fr = "cl"
        hs = hs + [(b"Content-Length", (b"%d" if rng.random() < 0.85 else b"%03d") % n)]
    else:
        fr = rchunks(rng)
        hs = hs + [(rng.choice([b"Transfer-Encoding", b"transfer-encoding", b"TRANSFER-ENCODING"]),
                    rng.choice([b"chunked", b"chunked", b"Chunked", b"CHUNKED"]))]
    rng.shuffle(hs)
    head = head_of(start, hs)
    total = len(head) + n + 64
    cuts = rcuts(rng, len(head) + min(n, 300)) if rng.random() < 0.7 else rcuts(rng, total)
    return ["cread %s %s %s %s %s" % (hexs(head), bs, fr, cuts_str(cuts), rng.choice("ck"))]


def raw_request(rng, last, pipelined=False, nmax=3000):
    """(head bytes, body spec, framing, expected handler view pieces) for one raw request"""
    t, path, qs, qd = rtarget(rng)
    method = rng.choice(METHODS)
    # a pipelined request that ends the connection must be the last one: the server closes with the later requests
    # unread, and the resulting TCP reset can destroy response bytes still in flight (not the library's doing)
    may_end = last or not pipelined
    proto = b"HTTP/1.0" if (may_end and rng.random() < 0.1) else b"HTTP/1.1"
    hs = rheaders(rng, 4, empty=True)
    n = rng.choice([0, 0, 1, 5, 100, rng.randrange(0, nmax)])
    bs = gspec(rng, n)
    fr = "cl"
    if n == 0 and rng.random() < 0.5:
        pass
    elif rng.random() < 0.6:
        hs.append((rng.choice([b"Content-Length", b"content-length", b"CONTENT-LENGTH"]), (b"%d" if rng.random() < 0.85 else b"%02d") % n))
    else:
        hs.append((b"Transfer-Encoding", rng.choice([b"chunked", b"chunked", b"Chunked", b"CHUNKED", b"identity, chunked"])))
        fr = rchunks(rng)
        if rng.random() < 0.2:      # a (wrong or right) Content-Length next to chunked: the chunks frame the body
            hs.append((b"Content-Length", b"%d" % rng.choice([0, 1, n, n + 7, 99999])))
    if n > 0 and rng.random() < 0.1:
        hs.append((b"Expect", rng.choice([b"100-continue", b"100-continue", b"100-Continue", b"other"])))
    c = rng.random()
    if c < 0.25:
        hs.append((b"Connection", rng.choice([b"keep-alive", b"Keep-Alive"])))
    elif c < 0.35 and may_end:
        hs.append((b"Connection", rng.choice([b"close", b"Close"])))
    rng.shuffle(hs)
    hs.insert(rng.randrange(0, len(hs) + 1), (b"Host", b"example.test"))
    sep = b": " if rng.random() < 0.8 else rng.choice([b":", b":  ", b":\t"])
    h = method + b" " + t + b" " + proto + b"\r\n"
    for nm, v in hs:
        h += nm + sep + v + b"\r\n"
    h += b"\r\n"
    return h, bs, fr, n


def gen_raw(rng, nmax=3000):
    k = rng.choice([1, 1, 2, 3, 5])
    mode = rng.choice("sp")
    parts = []
    for j in range(k):
        h, bs, fr, n = raw_request(rng, j == k - 1, pipelined=(mode == "p"), nmax=nmax)
        if "q" in fr and (mode == "p" or b"expect" in h.lower()):
            # a refused chunk size makes the server close with unread input: TCP answers with a reset, which may destroy
            # responses (or the interim 100) the raw peer has not read yet — only sent where nothing is pending
            fr = fr.replace("q", "")
        total = len(h) + n + (n // 10 + 40 if fr != "cl" else 0)
        cuts = rcuts(rng, min(total, len(h) + 200))
        pk = rng.choice(["n", "b", "t", "f", "s"])
        m = rng.choice([0, 1, 10, 500])
        code = rng.choice(CODES)
        phs = rheaders(rng, 3)
        if pk == "n":
            p = plan(code, phs, "n")
        elif pk in "bt":
            p = plan(code, phs, pk, gspec(rng, m, 2 if pk == "t" else None))
        elif pk == "f":
            p = plan(code, phs, "f", gspec(rng, m), hexs(rng.choice(EXTS)))
        else:
            p = plan(code, phs, "s", gspec(rng, m), str(rng.randrange(1, 300)))
        parts.append("%s %s %s %s %s" % (hexs(h), bs, fr, cuts_str(cuts), p))
    return ["raw %s %d %s" % (mode, k, " ".join(parts))]


def gen_options(rng):
    hs = []
    if rng.random() < 0.5:
        hs.append((b"Origin", b"http://a.example"))
    if rng.random() < 0.5:
        hs.append((b"Access-Control-Request-Headers", b"X-A, X-B"))
    r = req(b"OPTIONS", b"/any", "SF", hs, "n")
    c = ["xchg " + r + " " + plan(200, [], "b", gspec(rng, 3))]
    c.append("options 1")
    c.append("xchg " + r + " " + plan(200, [], "b", gspec(rng, 3)))
    c.append("options 0")
    c.append("xchg " + req(b"GET", b"/m", "SF", [], "n") + " " + plan(405, [], "n"))
    return c


def gen_redirect(rng):
    code = rng.choice([301, 302, 307, 308])
    loc = b"/final/" + bytes(rng.choice(b"abc") for _ in range(3))
    out = []
    body = gspec(rng, rng.choice([0, 5, 300]))
    out.append("xchg " + req(b"GET", b"/start", "SF", rheaders(rng, 2), "n") + " " + plan(code, [], "r", hexs(loc), body))
    out.append("xchg " + req(b"POST", b"/start", "SF", [], "b", gspec(rng, 9)) + " " + plan(code, [], "r", hexs(loc), body))
    out.append("xchg " + req(b"GET", b"/start", "SN", [], "n") + " " + plan(code, [], "r", hexs(loc), body))
    # a loop: four requests, then 421
    out.append("xchg " + req(b"GET", b"/loop", "SF", [], "n") + " " + plan(code, [], "r", hexs(b"/never"), "-"))
    out.append("xchg " + req(b"GET", b"/x", "SF", [], "n") + " " + plan(303, [(b"Location", b"/elsewhere")], "n"))
    return out


REL_BASES = [b"/a/d/e", b"/a/d/e?x=1", b"/", b"/a", b"/dir/", b"/a/b/c/d?q=1&r=2"]
REL_REFS = [b"/b", b"b", b"b/c", b"../c?x=1", b"./g", b"../g", b"../../g", b"../../../g", b"?y=2", b"g/", b".", b"..", b"./", b"../",
            b"/x/./y/../z", b"g?y=1", b"g/../h", b"//@/net/p", b"http://@/abs?z=1", b"b%20c/d", b"g/./h/../i/"]


def gen_redirect_rel(rng):
    """a redirection whose Location is a relative reference (RFC 7231 7.1.2), one without Location, and the same not followed"""
    import urllib.parse
    out = []
    base = "http://" + AUTHORITY.decode()
    for rel in rng.sample(REL_REFS, 6) + [None]:
        code = rng.choice([301, 302, 307, 308])
        target = rng.choice(REL_BASES)
        body = gspec(rng, rng.choice([0, 5, 300]))
        if rel is None:
            loc, reltok = b"/never", "-"
        else:
            j = urllib.parse.urljoin(base + target.decode(), rel.replace(b"@", AUTHORITY).decode())
            assert j.startswith(base)
            loc, reltok = j[len(base):].encode(), hexs(rel)
            if loc == target:
                continue
        flags = rng.choice(["SF", "DF", "SF", "SN"])
        hs = rheaders(rng, rng.choice([0, 2]))
        if rng.randrange(3) == 0:
            out.append("xchg " + req(b"POST", target, flags, hs, "b", gspec(rng, 9)) + " " + plan(code, [], "R", hexs(loc), reltok, body))
        else:
            out.append("xchg " + req(b"GET", target, flags, hs, "n") + " " + plan(code, rheaders(rng, 1), "R", hexs(loc), reltok, body))
    out.append("xchg " + req(b"GET", b"/x", "SF", [], "n") + " " + plan(303, [], "R", hexs(b"/never"), hexs(b"/elsewhere"), "-"))
    return out


def gen_long_lines(rng):
    """header lines around the 16000-byte limit of Socket::readLine"""
    out = []
    for total in (15990, 15999, 16000):
        name = b"X-Long"
        v = bytes(rng.choice(PRINTABLE) for _ in range(total - len(name) - 3))
        out.append(["xchg " + req(b"GET", b"/l", "SF", [(name, v)], "n") + " " + plan(200, [(b"X-Back", v)], "b", gspec(rng, 4))])
    return out


def gen_upload(rng):
    n = rng.choice([0, 1, 100, 16000, 16001, 40000])
    return ["xchg " + req(b"POST", b"/upload", "SF", rheaders(rng, 2), "u", gspec(rng, n) if n else "-") + " " + plan(200, [], "b", gspec(rng, 2))]


def gen_upload_again(rng):
    """a multipart upload that goes out more than once (a redirection that keeps the method and the body, a request object
    used again), one sent chunked; and handlers that ask for the chunked coding and then put() their body"""
    import urllib.parse
    out = []
    n = rng.choice([0, 1, 20, 100, 16000, 16001, 40000])
    body = gspec(rng, n) if n else "-"
    base = "http://" + AUTHORITY.decode()
    # through a redirection
    code = rng.choice([301, 302, 307, 308])
    target = rng.choice(REL_BASES)
    rel = rng.choice([b"/new", b"new", b"../up?x=1", b"http://@/abs"])
    loc = urllib.parse.urljoin(base + target.decode(), rel.replace(b"@", AUTHORITY).decode())[len(base):].encode()
    out.append("xchg " + req(b"POST", target, "SF", rheaders(rng, 1), "u", body) + " " + plan(code, [], "R", hexs(loc), hexs(rel), gspec(rng, 2)))
    # a request object used again
    out.append("xchg " + req(b"POST", b"/upload", rng.choice("SD") + "F" + rng.choice("23"), rheaders(rng, 1), "u", body) + " " + plan(200, [], "b", gspec(rng, 2)))
    # sent chunked
    te = rng.choice([b"chunked", b"Chunked", b"identity, chunked"])
    out.append("xchg " + req(b"POST", b"/upload", rng.choice("SD") + "F", [(b"Transfer-Encoding", te)] + rheaders(rng, 1), "u", body) + " " + plan(200, [], "b", gspec(rng, 2)))
    out.append("xchg " + req(b"PUT", b"/f", "SF", [(b"Transfer-Encoding", te)], "f", body) + " " + plan(201, [], "n"))
    return out


def gen_chunked_put(rng):
    """a handler that sets Transfer-Encoding: chunked and gives its body with put(): seen by the real client and by a raw peer"""
    out = []
    te = (rng.choice([b"Transfer-Encoding", b"transfer-encoding"]), rng.choice([b"chunked", b"CHUNKED", b"identity, chunked"]))
    m = rng.choice([0, 1, 5, 700, 127999, 128000, 128001, 200000])
    code = rng.choice([200, 201, 404])
    kinds = [("b", [gspec(rng, m)]), ("t", [gspec(rng, min(m, 5000), 2)]), ("n", []), ("f", [gspec(rng, min(m, 50000)), hexs(rng.choice(EXTS))])]
    for pk, args in rng.sample(kinds, 3):
        out.append("xchg " + req(b"GET", b"/te", "SF", rheaders(rng, 1), "n") + " " + plan(code, [te] + rheaders(rng, 1), pk, *args))
    out.append("xchg " + req(b"GET", b"/file", "SF", [(b"Range", b"bytes=3-9")], "n") + " " + plan(200, [te], "f", gspec(rng, 20), hexs(b"txt")))
    # the bytes on the wire, and the next exchange on the same connection
    h1 = b"GET /a HTTP/1.1\r\nHost: example.test\r\n\r\n"
    h2 = b"GET /b HTTP/1.1\r\nHost: example.test\r\n\r\n"
    out.append("raw %s 2 %s - cl - %s %s - cl - %s" % (rng.choice("sp"), hexs(h1), plan(200, [te], "b", gspec(rng, min(m, 3000))),
                                                     hexs(h2), plan(200, [], "t", gspec(rng, 4, 2))))
    return out


def gen_round5(rng):
    """responses written in pieces with no framing header (write(part), writeFile() by the handler); Content-Type / Date set by
    the handler on a file body; put(File) of a missing file on a connection that is to be closed / kept"""
    out = []
    m = rng.choice([0, 1, 11, 700, 16000, 16001, 40000, 128001])
    code = rng.choice([200, 201, 404])
    sizes = rng.choice(["6", "1", "3,5,1", "16000", "128000", "200000", str(rng.randrange(1, 300))])
    out.append("xchg " + req(b"GET", b"/w", "SF", rheaders(rng, 1), "n") + " " + plan(code, rheaders(rng, 2), "w", gspec(rng, m) if m else "-", sizes))
    out.append("xchg " + req(b"GET", b"/wf", "SF", [], "n") + " " + plan(code, rheaders(rng, 1), "W", gspec(rng, m) if m else "-"))
    h1 = b"GET /a HTTP/1.1\r\nHost: example.test\r\n\r\n"
    h2 = b"GET /b HTTP/1.1\r\nHost: example.test\r\n\r\n"
    k = min(m, 3000)
    out.append("raw %s 2 %s - cl - %s %s - cl - %s" % (rng.choice("sp"), hexs(h1), plan(200, rheaders(rng, 1), "w", gspec(rng, k) if k else "-", sizes),
                                                     hexs(h2), plan(200, [], "t", gspec(rng, 4, 2))))
    out.append("raw s 2 %s - cl - %s %s - cl - %s" % (hexs(h1), plan(200, [], "W", gspec(rng, k) if k else "-"), hexs(h2), plan(200, [], "b", gspec(rng, 3))))
    # the handler's own Content-Type and Date on a file body
    own = rng.choice([[(b"Content-Type", b"application/x-custom"), (b"Date", b"mine-%d" % rng.randrange(100))],
                      [(b"content-type", b"application/x-custom; q=1")], [(b"date", b"yesterday")]])
    out.append("xchg " + req(b"GET", b"/file", "SF", rng.choice([[], [(b"Range", b"bytes=2-7")]]), "n") + " " +
               plan(200, own + rheaders(rng, 1), "f", gspec(rng, 20), hexs(rng.choice(EXTS))))
    # a missing file: 404, and the connection closed when the request asks for it
    for first in (b"GET /m HTTP/1.1\r\nHost: example.test\r\nConnection: close\r\n\r\n", b"GET /m HTTP/1.0\r\nHost: example.test\r\n\r\n",
                  b"GET /m HTTP/1.1\r\nHost: example.test\r\n\r\n"):
        out.append("raw s 2 %s - cl - %s %s - cl - %s" % (hexs(first), plan(rng.choice([200, 405]), rheaders(rng, 1), "m"), hexs(h2), plan(200, [], "t", gspec(rng, 4, 2))))
    out.append("xchg " + req(b"GET", b"/m", "SF", [], "n") + " " + plan(rng.choice([200, 405]), rheaders(rng, 1), "m"))
    # a transfer coding that does not end in chunked: the request is refused (C09's 4dff910), nothing after it is served
    te = rng.choice([b"gzip", b"identity", b"chunked, gzip", b"", b"chunked,"])
    bad = b"POST /t HTTP/1.1\r\nHost: example.test\r\nTransfer-Encoding: " + te + b"\r\nContent-Length: 5\r\n\r\n"
    out.append("raw s 2 %s x68656c6c6f cl - %s %s - cl - %s" % (hexs(bad), plan(200, [], "t", gspec(rng, 4, 2)), hexs(h2), plan(200, [], "t", gspec(rng, 4, 2))))
    return out


def gen_round6(rng):
    """headers out before a file body is put; statuses without body and HTTP/1.0 requests answered in pieces; a handler that
    calls write() itself"""
    out = []
    h1 = b"GET /a HTTP/1.1\r\nHost: example.test\r\n\r\n"
    h2 = b"GET /b HTTP/1.1\r\nHost: example.test\r\n\r\n"
    second = hexs(h2) + " - cl - " + plan(200, [], "t", gspec(rng, 4, 2))
    n = rng.choice([0, 1, 20, 16000, 16001, 40000])
    pre = rng.choice(["-", "x" + b"pre:".hex(), gspec(rng, rng.choice([1, 7, 300]))])
    out.append("xchg " + req(b"GET", b"/pf", "SF", rheaders(rng, 1), "n") + " " + plan(rng.choice([200, 201]), rheaders(rng, 1), "F", pre, gspec(rng, n) if n else "-"))
    k = min(n, 3000)
    out.append("raw %s 2 %s - cl - %s %s" % (rng.choice("sp"), hexs(h1), plan(200, [], "F", pre, gspec(rng, k) if k else "-"), second))
    # the same with a Range in the request: the file branch selects the bytes behind headers that are already out
    rg = rng.choice([b"bytes=2-7", b"bytes=5-", b"bytes=-3", b"bytes=50-60", b"bytes=0-99", b"items=1-2"])
    out.append("xchg " + req(b"GET", b"/pf", "SF", [(b"Range", rg)], "n") + " " + plan(200, [], "F", pre, gspec(rng, 20)))
    # a handler that names the chunked coding and writes nothing at all (also with 405: the headers are still unsent)
    out.append("xchg " + req(b"GET", b"/s0", "SF", [], "n") + " " + plan(rng.choice([200, 405]), rheaders(rng, 1), rng.choice(["s", "S"]), "-", "7"))
    out.append("raw s 2 %s - cl - %s %s" % (hexs(h1), plan(200, [], rng.choice(["s", "S"]), "-", "7"), second))
    # no body, no framing
    code = rng.choice([204, 304, 199])
    if code != 199:
        out.append("xchg " + req(b"GET", b"/nb", "SF", [], "n") + " " + plan(code, rheaders(rng, 1), "w", "-", "1"))
    out.append("raw %s 2 %s - cl - %s %s" % (rng.choice("sp"), hexs(h1), plan(code, rheaders(rng, 1), "w", "-", "1"), second))
    # HTTP/1.0: no chunks, the connection ends the message
    m = rng.choice([0, 5, 700, 20000])
    for first in (b"GET /w HTTP/1.0\r\nHost: example.test\r\n\r\n", b"GET /w HTTP/1.0\r\nHost: example.test\r\nConnection: keep-alive\r\n\r\n"):
        out.append("raw s 2 %s - cl - %s %s" % (hexs(first), plan(200, rheaders(rng, 1), "w", gspec(rng, m) if m else "-", str(rng.randrange(1, 300))), second))
    out.append("raw s 2 %s - cl - %s %s" % (hexs(b"GET /w HTTP/1.0\r\nConnection: Keep-Alive\r\n\r\n"), plan(200, [], "F", pre, gspec(rng, k) if k else "-"), second))
    # the handler calls write() itself
    b = gspec(rng, rng.choice([0, 5, 700, 128001]))
    out.append("xchg " + req(b"GET", b"/tw", "SF", [], "n") + " " + plan(rng.choice([200, 404]), rheaders(rng, 1), "B", b))
    out.append("raw %s 2 %s - cl - %s %s" % (rng.choice("sp"), hexs(h1), plan(200, rheaders(rng, 1), "B", gspec(rng, rng.choice([0, 5, 700]))), second))
    # a field name that is no token (blank or tab before the colon, empty, a control character): the header block ends there (C09's 9bf376e)
    line = rng.choice([b"Content-Length : 5", b"Content-Length\t: 5", b": v", b"X\x01Y: v", b"X-A B: v", b"X\x7f: v"])
    bad = b"POST /t HTTP/1.1\r\nHost: example.test\r\n" + line + b"\r\n\r\n"
    out.append("raw s 2 %s x68656c6c6f cl - %s %s" % (hexs(bad), plan(200, [], "t", gspec(rng, 4, 2)), second))
    return out


def gen_round7(rng):
    """a close-delimited HTTP/1.0 answer of some MB with request bytes still unread behind it (the close must not cut it);
    response header blocks the client's reader refuses"""
    out = []
    h2 = b"GET /b HTTP/1.1\r\nHost: example.test\r\n\r\n"
    second = hexs(h2) + " - cl - " + plan(200, [], "t", gspec(rng, 4, 2))
    n = rng.choice([2000000, 2500000, 3000000])
    first = b"GET /w HTTP/1.0\r\nHost: example.test\r\nConnection: keep-alive\r\n\r\n"
    out.append("raw p 2 %s - cl - %s %s" % (hexs(first), plan(200, [], "w", gspec(rng, n, 0), "100000"), second))
    post = b"POST /big HTTP/1.0\r\nHost: example.test\r\nContent-Length: 5\r\n\r\n"
    out.append("raw s 1 %s x68656c6c6f0d0a cl - %s" % (hexs(post), plan(200, [], "w", gspec(rng, n, 0), "100000")))
    # a response the client must not take for a success
    bad = rng.choice([b"Bad Name: v", b": v", b"Content-Length : 5", b"nocolon", b"X\x01: v"])
    hs = [b"X-A: 1", bad, b"X-Z: 3", b"Content-Length: 5"]
    if rng.random() < 0.3:
        hs = [b" X-First: continuation of nothing"] + hs[:1] + hs[2:]
    head = b"HTTP/1.1 200 OK\r\n" + b"\r\n".join(hs) + b"\r\n\r\n"
    out.append("cread %s x68656c6c6f cl %s %s" % (hexs(head), cuts_str(rcuts(rng, len(head))), rng.choice("ck")))
    interim = b"HTTP/1.1 100 Continue\r\n\r\n"
    out.append("cread %s x68656c6c6f cl - c" % hexs(interim + head))
    out.append("xchg " + req(b"GET", b"/bad", "SF", [], "n") + " " + plan(200, [(b"X-A", b"1"), (rng.choice([b"X Y", b"X\tY"]), b"2"), (b"X-Z", b"3")], "b", "x68656c6c6f"))
    return out


def gen_round8(rng):
    """the last response on a connection (Connection: close, HTTP/1.0) with a length, request bytes still unread behind the
    request (a CR LF behind a POST body, a pipelined request): the server's close must not cut it — MB-sized bodies with a
    prompt reader, and a body inside the 300 KiB range with a reader that starts 0.3 s late (raw mode d)"""
    out = []
    post = rng.choice([b"POST /big HTTP/1.0\r\nHost: example.test\r\nContent-Length: 5\r\n\r\n",
                       b"POST /big HTTP/1.1\r\nHost: example.test\r\nConnection: close\r\nContent-Length: 5\r\n\r\n"])
    n = rng.choice([200000, 307200, 300 * KB])
    kind = rng.choice([("b", []), ("f", [hexs(b"bin")])])
    out.append("raw d 1 %s x68656c6c6f0d0a cl - %s" % (hexs(post), plan(200, rheaders(rng, 1), kind[0], gspec(rng, n, 0), *kind[1])))
    m = rng.choice([2000000, 3000000])
    kind = rng.choice([("b", []), ("f", [hexs(b"bin")])])
    out.append("raw s 1 %s x68656c6c6f0d0a cl - %s" % (hexs(post), plan(200, [], kind[0], gspec(rng, m, 0), *kind[1])))
    first = b"GET /big HTTP/1.1\r\nHost: example.test\r\nConnection: close\r\n\r\n"
    h2 = b"GET /x HTTP/1.1\r\nHost: example.test\r\n\r\n"
    out.append("raw p 2 %s - cl - %s %s - cl - %s" % (hexs(first), plan(200, [], "b", gspec(rng, m, 0)), hexs(h2), plan(200, [], "t", gspec(rng, 4, 2))))
    return out


def gen_expect(rng):
    """Expect: 100-continue: the server's interim answer must not be taken for the response"""
    out = []
    n = rng.choice([1, 5, 1000, 20000])
    code = rng.choice([200, 201, 404, 500])
    exp = [(b"Expect", b"100-continue")]
    out.append("xchg " + req(b"POST", b"/e", rng.choice("DS") + "F", exp + rheaders(rng, 2), rng.choice("bt"), gspec(rng, n, 2)) + " " +
               plan(code, rheaders(rng, 2), "b", gspec(rng, rng.choice([0, 3, 700]))))
    out.append("xchg " + req(b"PUT", b"/e", "SF", [(b"expect", b"100-continue")], "f", gspec(rng, n)) + " " + plan(code, [], "n"))
    out.append("xchg " + req(b"POST", b"/e", "SF", [(b"Expect", b"something-else")], "b", gspec(rng, n)) + " " + plan(code, [], "t", gspec(rng, 4, 2)))
    out.append("xchg " + req(b"GET", b"/e", "SF", exp, "n") + " " + plan(code, [], "s", gspec(rng, 50), "7"))
    # the client's reader alone: an interim response before the final one, any fragmentation
    head = b"HTTP/1.1 100 Continue\r\n\r\n" + head_of(b"HTTP/1.1 %d Done" % code, [(b"Content-Length", b"%d" % n), (b"X-A", b"b")])
    out.append("cread %s %s cl %s %s" % (hexs(head), gspec(rng, n), cuts_str(rcuts(rng, len(head) + n)), rng.choice("ck")))
    return out


def gen_reuse(rng):
    """the same HttpRequest object passed to Http::request again (flag digit = how often)"""
    n = rng.choice([0, 5, 3000])
    kind = rng.choice("btf") if n else rng.choice("nb")
    t, path, qs, qd = rtarget(rng)
    return ["xchg " + req(rng.choice([b"POST", b"PUT", b"GET"]), t, rng.choice("DS") + "F" + rng.choice("23"), rheaders(rng, 2), kind,
                          gspec(rng, n, 2 if kind == "t" else None) if kind != "n" else None) + " " +
            plan(rng.choice([200, 201, 404]), rheaders(rng, 2), rng.choice("bt"), gspec(rng, rng.choice([0, 4, 500]), 2))]


def reuse_line(target, fl, hs, sends):
    """sends: [(method, 'L'|'C', put kind '='|'b'|'t'|'f', bodyspec or None, plan text)]"""
    t = ["reuse", hexs(target), fl, H(hs), str(len(sends))]
    for method, fr, put, body, p in sends:
        t += [hexs(method), fr, put]
        if put != "=":
            t.append(body)
        t.append(p)
    return " ".join(t)


def gen_reuse_seq(rng, pattern=None):
    """ONE HttpRequest object sent 2..5 times: between the sends the caller changes the method, the framing (a length /
    Transfer-Encoding: chunked / back to a length), and puts a new body (other size, other kind) or keeps the one it has"""
    t, path, qs, qd = rtarget(rng)
    fl = rng.choice("DS")
    hs = rheaders(rng, 3, empty=True)
    k = len(pattern) if pattern else rng.randrange(2, 6)
    sends = []
    have = False
    for j in range(k):
        method = rng.choice([b"POST", b"PUT", b"GET", b"POST", b"PATCH", b"DELETE", b"GET"])
        fr = pattern[j][0] if pattern else rng.choice("LC")
        newput = pattern[j][1] == "p" if pattern else (rng.random() < (0.8 if not have else 0.35))
        put, body = "=", None
        if newput:
            put = rng.choice("bbtf")
            n = rng.choice([0, 1, 5, 100, 3000, 3000, 16001, rng.randrange(1, 40000)] + ([130000] if rng.random() < 0.1 else []))
            body = gspec(rng, n, 2 if put == "t" else None) if n else "-"
            have = True
        pk = rng.choice(["n", "b", "b", "t", "f", "s"])
        m = rng.choice([0, 1, 10, 500])
        code = rng.choice(CODES)
        phs = rheaders(rng, 2)
        if code in (301, 302, 307, 308):
            code = 200
        if pk == "n":
            p = plan(code, phs, "n")
        elif pk in "bt":
            p = plan(code, phs, pk, gspec(rng, m, 2 if pk == "t" else None))
        elif pk == "f":
            p = plan(code, phs, "f", gspec(rng, m), hexs(rng.choice(EXTS)))
        else:
            p = plan(code, phs, "s", gspec(rng, m), str(rng.randrange(1, 300)))
        sends.append((method, fr, put, body, p))
    return [reuse_line(t, fl, hs, sends)]


def rheaders_n(rng, k):
    out = {}
    while len(out) < k:
        n = rname(rng)
        if any(cap(n) == cap(m) for m in out):
            continue
        out[n] = rvalue(rng, 20)
    return list(out.items())


def gen_caller_dic(rng, k=None):
    """Http::post(url, body, headers) style: the 4-argument constructor on a Dic the caller keeps (3, 6, 12 entries fill
    the Dic's block exactly), then the caller's Dic is looked at and used for a GET"""
    k = rng.choice([3, 6, 12, 1, 2, 5]) if k is None else k
    kind = rng.choice("btf")
    n = rng.choice([1, 5, 2000])
    t, path, qs, qd = rtarget(rng)
    return ["xchg " + req(rng.choice([b"POST", b"PUT", b"PATCH"]), t, "CF", rheaders_n(rng, k), kind, gspec(rng, n, 2 if kind == "t" else None)) +
            " " + plan(rng.choice([200, 201]), [], rng.choice("bt"), gspec(rng, rng.choice([0, 3, 100]), 2))]


def gen_dic_names(rng):
    """header names in a Dic are names all the same: lower case, mixed case, the library's own names"""
    form = b'{"k":"a b","n":"1&2","z":"%s"}' % bytes(rng.choice(b"abc=+/") for _ in range(4))
    out = ["xchg " + req(b"POST", b"/form", "DF", [(rng.choice([b"content-type", b"CONTENT-TYPE", b"Content-type"]), b"application/x-www-form-urlencoded")],
                         "j", "x" + form.hex()) + " " + plan(200, [], "b", gspec(rng, 2))]
    out.append("xchg " + req(b"POST", b"/form", "SF", [(b"content-type", b"application/x-www-form-urlencoded")], "j", "x" + form.hex()) +
               " " + plan(200, [], "b", gspec(rng, 2)))
    hs = [(bytes(c | 32 if 65 <= c <= 90 else c for c in n), v) for n, v in rheaders_n(rng, 3)]
    out.append("cwire " + req(b"GET", b"/n", "DF", hs, "n"))
    out.append("xchg " + req(b"GET", b"/n", "DF", hs + [(b"x-UPPER-lower", b"1")], "n") + " " + plan(200, [], "n"))
    return out


def gen_client_chunked(rng):
    """the client asked to send its body chunked"""
    te = (rng.choice([b"Transfer-Encoding", b"transfer-encoding"]), rng.choice([b"chunked", b"chunked", b"Chunked", b"identity, chunked"]))
    n = rng.choice([0, 1, 5, 15999, 16000, 16001, 127999, 128000, 128001, 300000, rng.randrange(0, 40000)])
    kind = rng.choice("btf") if n else rng.choice("nbt")
    fl = rng.choice("DS") + "F"
    r = req(rng.choice([b"POST", b"PUT"]), b"/chunked", fl, rheaders(rng, 2) + [te], kind, gspec(rng, n, 2 if kind == "t" else None) if kind != "n" else None)
    return ["xchg " + r + " " + plan(200, [], "b", gspec(rng, 3)), "cwire " + r]


def gen_sockio(rng):
    n = rng.choice([0, 1, 2, 100, 4096, 4097, 65536, 300000, rng.randrange(0, 200000)])
    body = gspec(rng, n)
    if rng.random() < 0.5:
        sched = ",".join(str(rng.choice([1, 2, 7, 100, 4096, 65536, rng.randrange(1, 70000)])) for _ in range(rng.randrange(1, 5)))
        return ["sockio w %s %s" % (body, sched)]
    cuts = rcuts(rng, max(n, 2))
    size = rng.choice([n, n, max(n - 1, 1), n + 1, max(1, n // 2), 1])
    return ["sockio r %s %s %d" % (body, cuts_str(cuts), size)]


def gen(rng, tier):
    quick = tier == "quick"
    cases = []
    for _ in range(250 if quick else 9000):
        cases.append(gen_xchg_basic(rng))
    # body sizes: every small length, the block boundaries, step samples up to 300 KiB
    for n in range(0, 70 if quick else 400):
        cases.append(gen_xchg_size(rng, n, 2))
    bsz = SIZES_16K + SIZES_128K
    pick = rng.sample(bsz, 36) if quick else bsz
    for n in pick:
        cases.append(gen_xchg_size(rng, n, rng.choice([0, 1]) if quick else 2))
    step = 37987 if quick else 1021
    for n in range(rng.randrange(1, step), 300 * KB + 1, step):
        cases.append(gen_xchg_size(rng, n, rng.choice([0, 1, 2])))
    cases.append(gen_xchg_size(rng, 300 * KB, 2))
    for _ in range(6 if quick else 60):
        cases.append(gen_json(rng))
    cases += gen_ranges_small(rng, [0, 1, 2, 5, 11] if quick else [0, 1, 2, 3, 5, 8, 13, 21, 34, 64])
    cases += gen_ranges_large(rng, 12 if quick else 200)
    for _ in range(60 if quick else 2500):
        cases.append(gen_cwire(rng))
    for _ in range(120 if quick else 6000):
        cases.append(gen_cread(rng))
    for _ in range(6 if quick else 120):
        cases.append(gen_cread(rng, big=True))
    for _ in range(150 if quick else 7000):
        cases.append(gen_raw(rng))
    for _ in range(4 if quick else 60):
        cases.append(gen_raw(rng, nmax=200000))
    for _ in range(5 if quick else 40):
        cases.append(gen_options(rng))
    for _ in range(4 if quick else 40):
        cases.append(gen_redirect(rng))
    for _ in range(3 if quick else 60):
        cases.append(gen_redirect_rel(rng))
    for _ in range(3 if quick else 60):
        # one op per case: a failing op must not hide behind another one of its batch when the case is shrunk
        cases += [[l] for l in gen_upload_again(rng)]
        cases += [[l] for l in gen_chunked_put(rng)]
        cases += [[l] for l in gen_round5(rng)]
        cases += [[l] for l in gen_round6(rng)]
    for _ in range(2 if quick else 12):
        cases += [[l] for l in gen_round7(rng)]
    for _ in range(1 if quick else 8):
        cases += [[l] for l in gen_round8(rng)]
    cases += gen_long_lines(rng)
    for _ in range(4 if quick else 40):
        cases.append(gen_upload(rng))
    for _ in range(40 if quick else 600):
        cases.append(gen_sockio(rng))
    for _ in range(3 if quick else 40):
        cases.append(gen_expect(rng))
    for _ in range(3 if quick else 40):
        cases.append(gen_reuse(rng))
    # one request object, several sends with the framing / body / method changed in between (seed C10-r4)
    for pat in (["Lp", "C=", "L="], ["Cp", "L=", "C=", "L="], ["Lp", "Cp", "L=", "Lp", "C="]):
        cases.append(gen_reuse_seq(rng, pat))
    for _ in range(14 if quick else 400):
        cases.append(gen_reuse_seq(rng))
    for k in ([3, 6, 12, None] if quick else [3, 6, 12] + [None] * 30):
        cases.append(gen_caller_dic(rng, k))
    for _ in range(2 if quick else 20):
        cases.append(gen_dic_names(rng))
    for _ in range(8 if quick else 120):
        cases.append(gen_client_chunked(rng))
    # a header that travels with an empty value
    cases.append(["xchg " + req(b"GET", b"/e", "DF", [(b"X-Empty", b""), (b"x-full", b"v")], "n") + " " + plan(200, [], "b", gspec(rng, 2)),
                  "cread %s %s cl - c" % (hexs(head_of(b"HTTP/1.1 200 OK", [(b"X-Void", b""), (b"Content-Length", b"3")])), gspec(rng, 3))])
    # concurrent file downloads (the overlap recipe and a mix) also as model-compared cases
    cases.append([dl_recipe(rng, 0)])
    cases.append([dl_mix(rng, 8)])
    # one write(part) larger than the send block: several chunks from a single call
    for n in ([128001, 256001, 300000] if quick else [127999, 128000, 128001, 128002, 255999, 256000, 256001, 300000, 307200]):
        cases.append(["xchg " + req(b"GET", b"/stream", "SF", [], "n") + " " + plan(200, [], "s", gspec(rng, n), str(rng.choice([n, 300000, n + 5])))])
        cases.append(["raw s 1 %s - cl - %s" % (hexs(b"GET /s HTTP/1.1\r\nHost: x\r\n\r\n"), plan(200, [], "s", gspec(rng, n), "%d,7" % (n - 7)))])
    return cases


def nontrivial(case):
    for l in case:
        t = l.split()
        if t[0] in ("xchg", "cwire", "cread", "raw", "sockio", "dl", "reuse") and len(t) > 3:
            return True
    return False


def distribution(cases):
    ops = {}
    bodies = {"0": 0, "1-99": 0, "100-15996": 0, "15997-16003(+k*16000)": 0, "other<=128003": 0, ">128003": 0}
    frag = {"none": 0, "1-4": 0, "5-63": 0, ">=64": 0}
    branch = {"plan:none": 0, "plan:bytes/text": 0, "plan:json": 0, "plan:file": 0, "plan:stream": 0, "plan:redirect": 0,
              "request-body:none": 0, "request-body:bytes/text": 0, "request-body:json": 0, "request-body:file": 0, "request-body:upload": 0,
              "stream:content-length": 0, "stream:chunked": 0, "stream:chunked+content-length": 0,
              "connection:keep-alive": 0, "connection:close": 0, "http/1.0": 0, "expect:100-continue": 0, "range-header": 0,
              "escape:lower-or-mixed-case": 0, "escape:upper-case": 0, "pipelined-connections": 0, "sequential-connections": 0,
              "headers-via-Dic-constructor": 0, "headers-via-setHeader": 0,
              # the branches repaired in hunt rounds 4-8, one key per plan kind / condition
              "kind:w write(part) without framing header": 0, "kind:W handler's writeFile": 0, "kind:F pieces then put(File)": 0,
              "kind:F with Range": 0, "kind:B put then write()": 0, "kind:m missing file": 0, "kind:R verbatim Location": 0,
              "kind:s/S nothing written": 0, "unframed stream to HTTP/1.0": 0, "unframed stream with 1xx/204/304": 0,
              "handler sets Transfer-Encoding + put()": 0, "handler sets Content-Type/Date on a file": 0,
              "upload (multipart)": 0, "upload through redirection": 0, "request object used again": 0,
              "reuse: sends of one object": 0, "reuse: length after chunked, body kept": 0, "reuse: chunked after length, body kept": 0,
              "reuse: new put() between sends": 0, "reuse: method changed between sends": 0,
              "refused framing q (9-digit chunk size)": 0, "refused: non-token field name / no colon (request)": 0,
              "refused: transfer coding not ending in chunked": 0, "refused response header block (cread/xchg)": 0,
              "raw mode d (late reader)": 0, "last response >= 2 MB behind unread request bytes": 0}
    TE = b"transfer-encoding"
    HCONN = b"Connection: ".hex()
    for c in cases:
        for l in c:
            t = l.split()
            ops[t[0]] = ops.get(t[0], 0) + 1
            for k, tok in enumerate(t):
                if tok == "-" and k > 0 and t[k - 1] in ("b", "t", "j", "f", "u", "s", "S"):
                    bodies["0"] += 1
                    continue
                if tok[0] == "g" and tok.count(".") == 2:
                    n = int(tok.split(".")[1])
                elif tok[0] == "x" and len(tok) > 1 and all(ch in "0123456789abcdef" for ch in tok[1:]):
                    n = (len(tok) - 1) // 2
                else:
                    continue
                if n == 0:
                    bodies["0"] += 1
                elif n < 100:
                    bodies["1-99"] += 1
                elif n >= 15997 and (n + 3) % 16000 <= 6:
                    bodies["15997-16003(+k*16000)"] += 1
                elif n <= 15996:
                    bodies["100-15996"] += 1
                elif n <= 128003:
                    bodies["other<=128003"] += 1
                else:
                    bodies[">128003"] += 1
            if t[0] == "cread" and t[4] == "-":
                frag["none"] += 1
            if t[0] in ("cread", "raw"):
                for tok in t:
                    if re.fullmatch(r"\d+(,\d+)*", tok) and "," in tok:
                        k = tok.count(",") + 1
                        frag["1-4" if k < 5 else "5-63" if k < 64 else ">=64"] += 1
            # ---- branches
            for i, tok in enumerate(t):
                if tok == "P" and i + 2 < len(t):
                    j = i + 2
                    nh = int(t[j][1:])
                    kind = t[j + 1 + 2 * nh]
                    key = {"n": "plan:none", "b": "plan:bytes/text", "t": "plan:bytes/text", "j": "plan:json", "f": "plan:file",
                           "s": "plan:stream", "S": "plan:stream", "w": "plan:stream", "W": "plan:stream", "F": "plan:stream", "B": "plan:bytes/text", "m": "plan:file", "r": "plan:redirect", "R": "plan:redirect"}.get(kind)
                    if key:
                        branch[key] += 1
                    # ---- repaired branches
                    args = t[j + 2 + 2 * nh:]
                    code = int(t[i + 1])
                    phs = [(unhex(t[j + 1 + 2 * q]), unhex(t[j + 2 + 2 * q])) for q in range(nh)]
                    reqhead = b""
                    if t[0] == "raw":
                        # the request head of this plan is the token 5 places before "P"
                        try:
                            reqhead = unhex(t[i - 4])
                        except Exception:
                            reqhead = b""
                    http10 = b" HTTP/1.0\r\n" in reqhead
                    if kind == "w":
                        branch["kind:w write(part) without framing header"] += 1
                    if kind == "W":
                        branch["kind:W handler's writeFile"] += 1
                    if kind == "F":
                        branch["kind:F pieces then put(File)"] += 1
                        if t[0] == "xchg" and b"Range".hex() in t[5:i]:
                            branch["kind:F with Range"] += 1
                    if kind == "B":
                        branch["kind:B put then write()"] += 1
                    if kind == "m":
                        branch["kind:m missing file"] += 1
                    if kind == "R":
                        branch["kind:R verbatim Location"] += 1
                        if t[0] == "xchg" and "u" in t[5:i]:
                            branch["upload through redirection"] += 1
                    if kind in ("s", "S") and args and args[0] == "-":
                        branch["kind:s/S nothing written"] += 1
                    if kind in ("w", "W", "F"):
                        if http10:
                            branch["unframed stream to HTTP/1.0"] += 1
                            if args and args[0].startswith("g") and int(args[0].split(".")[1]) >= 2000000:
                                branch["last response >= 2 MB behind unread request bytes"] += 1
                        if code < 200 or code in (204, 304):
                            branch["unframed stream with 1xx/204/304"] += 1
                    if kind in ("b", "f") and args and args[0].startswith("g") and int(args[0].split(".")[1]) >= 2000000:
                        branch["last response >= 2 MB behind unread request bytes"] += 1
                    if kind in ("b", "t", "f", "n") and any(n.lower() == TE for n, _ in phs):
                        branch["handler sets Transfer-Encoding + put()"] += 1
                    if kind == "f" and any(n.lower() in (b"content-type", b"date") for n, _ in phs):
                        branch["handler sets Content-Type/Date on a file"] += 1
                    if any(not re.fullmatch(rb"[\x21-\x39\x3b-\x7e]+", n) for n, _ in phs):
                        branch["refused response header block (cread/xchg)"] += 1
            if t[0] == "raw":
                if t[1] == "d":
                    branch["raw mode d (late reader)"] += 1
                for tok in t[3:]:
                    if len(tok) > 40 and re.fullmatch(r"[0-9a-f]+", tok):
                        try:
                            hd = unhex(tok)
                        except Exception:
                            continue
                        lines = hd.split(b"\r\n")[1:]
                        if any(l and (l[:1] in b" \t" and k == 0 or (l[:1] not in b" \t" and not re.match(rb"[\x21-\x39\x3b-\x7e]+:", l)))
                               for k, l in enumerate(lines)):
                            branch["refused: non-token field name / no colon (request)"] += 1
                        for l in lines:
                            if l.lower().startswith(TE + b":") and l.split(b":", 1)[1].lower().split(b",")[-1].strip() != b"chunked":
                                branch["refused: transfer coding not ending in chunked"] += 1
                if any(re.fullmatch(r"ch[0-9,]*[uxzp]*q[uxzpq]*", tok) for tok in t):
                    branch["refused framing q (9-digit chunk size)"] += 1
            if t[0] == "cread":
                hd = unhex(t[1])
                lines = [l for l in hd.split(b"\r\n")[1:] if l and not l.startswith(b"HTTP/")]
                if any(not re.match(rb"[\x21-\x39\x3b-\x7e]+:", l) for l in lines):
                    branch["refused response header block (cread/xchg)"] += 1
                if any("q" in tok and tok.startswith("ch") for tok in t[3:4]):
                    branch["refused framing q (9-digit chunk size)"] += 1
            if t[0] == "reuse":
                try:
                    sends = _parse_reuse(t)[3]
                except Exception:
                    sends = []
                branch["reuse: sends of one object"] += len(sends)
                for a, b in zip(sends, sends[1:]):
                    if b[2] == "=":
                        if a[1] and not b[1]:
                            branch["reuse: length after chunked, body kept"] += 1
                        if b[1] and not a[1]:
                            branch["reuse: chunked after length, body kept"] += 1
                    else:
                        branch["reuse: new put() between sends"] += 1
                    if a[0] != b[0]:
                        branch["reuse: method changed between sends"] += 1
            if t[0] == "xchg":
                if len(t[3]) > 2 and t[3][2].isdigit():
                    branch["request object used again"] += 1
                nh0 = int(t[4][1:])
                if t[5 + 2 * nh0] == "u":
                    branch["upload (multipart)"] += 1
            if t[0] in ("xchg", "cwire", "big"):
                nh = int(t[4][1:])
                kind = t[5 + 2 * nh]
                branch[{"n": "request-body:none", "b": "request-body:bytes/text", "t": "request-body:bytes/text", "j": "request-body:json",
                        "f": "request-body:file", "u": "request-body:upload"}[kind]] += 1
                branch["headers-via-Dic-constructor" if t[3][0] == "D" else "headers-via-setHeader"] += 1
                target = unhex(t[2])
                esc = re.findall(rb"%([0-9A-Fa-f]{2})", target)
                if any(e != e.upper() for e in esc):
                    branch["escape:lower-or-mixed-case"] += 1
                elif esc:
                    branch["escape:upper-case"] += 1
                names = [unhex(x).lower() for x in t[5:5 + 2 * nh:2]]
                vals = [unhex(x).lower() for x in t[6:6 + 2 * nh:2]]
                if b"range" in names:
                    branch["range-header"] += 1
                if (b"expect", b"100-continue") in zip(names, vals):
                    branch["expect:100-continue"] += 1
            if t[0] == "raw":
                branch["pipelined-connections" if t[1] == "p" else "sequential-connections"] += 1
                for tok in t:
                    if len(tok) > 40 and tok[0] in "0123456789abcdef" and (" HTTP/1.".encode().hex() in tok):
                        head = unhex(tok).lower()
                        if b"http/1.0\r\n" in head:
                            branch["http/1.0"] += 1
                        if b"connection: keep-alive" in head or b"connection:keep-alive" in head or b"connection:\tkeep-alive" in head or b"connection:  keep-alive" in head:
                            branch["connection:keep-alive"] += 1
                        if b"\nconnection:" in head and b"close\r\n" in head:
                            branch["connection:close"] += 1
                        if b"\nexpect:" in head and b"100-continue" in head:
                            branch["expect:100-continue"] += 1
                        ch = b"transfer-encoding:" in head
                        cl = b"content-length:" in head
                        branch["stream:chunked+content-length" if ch and cl else "stream:chunked" if ch else "stream:content-length"] += 1 if (ch or cl) else 0
            if t[0] == "cread":
                branch["stream:content-length" if t[3] == "cl" else "stream:chunked"] += 1
                if unhex(t[1]).startswith(b"HTTP/1.0"):
                    branch["http/1.0"] += 1
    return {"ops_by_kind": ops, "body_sizes": bodies, "fragmented_streams_by_cut_count": frag, "branches": branch}


EXHAUSTIVE = {"quick": "every range bytes=b-e, bytes=b-, bytes=b with 0 <= b <= n+1, 1 <= e <= n+2 for files of n = 0, 1, 2, 5, 11 bytes; "
                       "every body length 0..69 in both directions",
              "thorough": "every such range for n = 0,1,2,3,5,8,13,21,34,64; every body length 0..399; all lengths within 3 of "
                          "16000*k and 128000*k up to 300 KiB in both directions"}

TECHNIQUE = ("Lean 4 theorems about an executable model of the sender and the reader (induction over byte lists, any block size, any "
             "fragmentation), block sizes regenerated from the source, + differential correspondence check over loopback TCP")
LEVEL_TEXT = ("Proved in Lean 4 about the executable model AslModel.HttpFrame (transcription of HttpMessage::sendHeaders/write/writeFile/"
              "putFile, Socket_::readLine/read/write, HttpMessage::readHeaders/readBody, HttpRequest::read incl. the Expect answer, the "
              "status-line part and the 100-skipping loop of Http::request, and HttpServer::serve), for ALL inputs: "
              "wire_request_exact / request_roundtrip — any sender's request (HTTP/1.0 or 1.1, any method/target; header lines whose "
              "field NAME is a token — not empty, no colon, every byte above 0x20 and not DEL (WFName) — and whose VALUE is not empty, "
              "has no LF and no outer blanks (WFValue; the empty value is covered only by the one-line empty_header_kept), within "
              "readLine's limit; a Transfer-Encoding, if named, ends in chunked (CodingOk); body framed by Content-Length, by the sender's chunks, or by any chunked body "
              "of the grammar below) is returned exactly by HttpRequest::read on every live connection state, i.e. EVERY fragmentation "
              "(arbitrary answers of available()) and whatever follows; serveStep_exact / keepalive_seq — any sequence of such requests "
              "on one connection kept alive by HTTP/1.1 or Connection: keep-alive (pipelined or not, OPTIONS and chunked requests "
              "included) is served as the independent exchanges, the reader consuming exactly one message per turn; response_roundtrip / "
              "stream_roundtrip / file_response_roundtrip — for every response the client returns as is (not the interim 100, not a "
              "301/302/307/308 that names a Location, which Http::request follows; one without Location is returned like any other: "
              "redirect_without_target_returned), every handler dictionary and body below 2^31 bytes (put(), streamed parts, "
              "or a file range accepted by putFile with its announced length and Content-Range) the client's reader returns exactly the "
              "code, the protocol, the body bytes and the VERY SAME header dictionary (norm_canon: what setHeader builds is stored "
              "unchanged); exchange_roundtrip — the composition client serialize -> server read -> handler (any headers/code/put body) -> "
              "server write -> client read gives the handler exactly the request and the client exactly code, body and the served "
              "dictionary; continue_skipped — a response after the interim 100 Continue is read as if alone; empty_header_kept — a header "
              "that travels with an empty value is stored (present, empty) by the reader; chunked_request_roundtrip — a client asked "
              "to send chunked sends no length, chunks of the send block and the last chunk, and the server reads exactly its body; "
              "auto_stream_roundtrip — a handler that answers an HTTP/1.1 request in pieces, with a status that can have a body, and "
              "names neither a length nor a coding: the library announces Transfer-Encoding: chunked, sends the pieces as chunks and "
              "ends the stream, the client returns exactly the parts; bodyless_stream_plain / http10_stream_raw — a 1xx/204/304 sent "
              "that way is its header block alone, and to an HTTP/1.0 request the pieces go out as they are under Connection: close "
              "(the library then closes the connection: serveStep_exact / keepalive_seq carry the exact hypothesis closesAfter = false — "
              "the answer is not an unframed stream with a body status to an HTTP/1.0 request — and serveStep_http10_stream states the "
              "excluded case: handler called, header block under Connection: close + the pieces, connection not kept); "
              "refused_headers_no_response with refused_examples — a response whose header block the reader refuses is code 0 / "
              "SOCKET_BAD_DATA, kernel-evaluated on a field name with a blank, a line without colon, an empty name, a leading "
              "continuation, a block that breaks off, at both refusal points (after the status line, inside the 100-skipping loop); the "
              "general statement over all header lists and all refused lines is NOT proved; chunked_put_roundtrip — a handler that asks for the chunked coding and put()s its body: no Content-Length goes out, the "
              "body goes in chunks and the library ends it with the last chunk, the client returns exactly code, dictionary and body; "
              "suffix_range_spec — Range: bytes=-k is the last k bytes; redirect_target_rfc3986 / redirect_target_absolute — the URL "
              "the client goes to for a redirection is the Location itself when it has a scheme and else its resolution against the "
              "request URL, equal to RFC 3986 on all 42 examples of its section 5.4 (kernel-evaluated); "
              "length_framing_transparent / file_blocks_transparent — block boundaries (any block size > 0; the 128000 / 16000 of the "
              "source are regenerated on every run) add or drop no byte; sender_chunked_conforms / reader_accepts_rfc_chunked — what "
              "write(part) emits is, and readBody decodes every, chunked body of the RFC 7230 grammar RESTRICTED to: no chunk "
              "extensions, no trailer fields, last-chunk written as the single digit 0, size lines of 1 to 8 HEXDIG in either case (leading "
              "zeros allowed; the repaired reader refuses longer ones), payload below 2^31 bytes; header_lookup_case_insensitive; range_spec — putFile's "
              "range arithmetic (first position inside the file, last position cut to the end of the file: RFC 7233 2.1); partial_io_complete / partial_read_complete — the blocking Socket loops under every partial-transfer "
              "schedule; interleaving_local / interleaving_independent — in the model, where a handler turn is atomic and touches only its "
              "own connection, every schedule gives each connection the answers of serving it alone; reused_request_message / "
              "reused_request_length_rederived / reused_request_roundtrip — a request object that is sent again: whatever Content-Length "
              "an earlier put() or send left in its dictionary (stale, or removed by a chunked send), Http::request derives the length "
              "anew for a non-empty body, the message is that of a fresh object and the handler reads exactly this send's body (the op "
              "reuse runs 2..5 sends of ONE HttpRequest with framing, body and method changed in between against the real server); "
              "target_parts_exact / encoded_path_observed / handler_sees_sent_target — the request target: for every non-empty encoded "
              "path without ? and #, every query string without # and every fragment (each present or not; a ? after the # stays in the "
              "fragment) HttpRequest::read yields exactly the decoded path, that query string and that fragment; a path p (not empty, "
              "no NUL, no ..) sent as Url::encode(p) in either mode (full-URL mode: p without ? and #) reaches the handler as p, on "
              "every connection state, with any framing (K: the H line of every req/raw/xchg op prints path, querystring and the "
              "query dictionary; generated targets carry escapes, queries and #frag?x); query_values_are_c15 / query_values_observed / "
              "handler_sees_sent_query — the dictionary HttpFrame.parseQuery makes of the query string (what the H line prints next to "
              "the real handler's request.query) is the one of C15's transcription whenever no key holds a NUL, hence for every sorted "
              "dictionary d with non-empty NUL-free keys and arbitrary values the query string Url::params(d) (C15's model of it, tied "
              "by C15's K) is parsed back to exactly d, also through the connection (path and query of one request together). "
              "The model is tied to the real "
              "library on every run by the correspondence check over loopback TCP (real client, real server, raw-socket peers on either "
              "side, every op compared with the compiled model) and the block sizes by the translator.")
LEVEL_NOTE = ("Model lemmas, not property clauses (one-step unfoldings of model definitions, listed for the reader of the "
              "model): redirect_without_target_returned (followsRedirect), bodyless_stream_plain (serializeStream), "
              "redirect_target_absolute, http10_stream_raw. Second audit, not done, what is and is not established: (a) "
              "reader_accepts_rfc_chunked / reads_of_rfc_chunked require that no Content-Length is present; Transfer-Encoding next to a "
              "valid Content-Length (reader 0d0b7c2, sender 07183e2) is in the model (readBodyWith lets the coding win) and K-validated "
              "(distribution key stream:chunked+content-length), not a theorem. (b) The negative side of HttpFrame.serveStep is "
              "refused_request_no_handler (whenever the reader gives a request up: no handler call for any plan, nothing but an "
              "already-triggered interim 100 written, connection not kept) + refused_requests_examples (kernel evaluation of the "
              "reader on one request of each refused kind, the same 8 requests run on the real server from "
              "corpus/C10/refused_requests.ops); there is no theorem characterising ALL "
              "the inputs WFName / CodingOk exclude (non-token names 9bf376e, leading continuation c2e6d14, coding not ending in "
              "chunked 4dff910): the refusal is in the model (readHeadersLoop, readRequest, serveStep: no handler call, nothing "
              "written, connection given up) and K-validated by generated and corpus cases (keys refused:*); C09 proves the negatives "
              "about its own model. (c) file_response_roundtrip is about hand-assembled bytes (headerBlock + writeFile of the slice "
              "under fileRangeHeaders); it is not tied by a lemma to serveOne's file branch (fillAbsent Date/Content-Type/"
              "Cache-Control, sentHeaders, endOf) — that tie is K-validated only. (d) The library's own client reads no close-delimited "
              "body (no length, no chunks: empty body) — harmless here since it always sends HTTP/1.1; that HTTP/1.0 pieces go out as "
              "they are is validated by raw peers only. (e) raw ops have no independent reference (model-vs-library only): HTTP/1.0 "
              "close-delimited answers, pipelined refusals, kinds m/F/B/w/W through raw peers; xchg/cread/par/dl/big lines have one. "
              "(f) kind B is mapped to the same model message as put() alone: the model cannot express a body written twice, only K "
              "sees that class (687bf13). (g) kind F with a Range request header and a handler that names the chunked coding and "
              "writes nothing were model mismatches nobody exercised: now modelled (Kind.streamFile; the empty stream is the whole "
              "message the server's closing write() sends) and generated. Trusted: Lean kernel; the regex translator of the two block-size macros; the harness (raw peers with their own message "
              "delimiter, digests, Date/port canonicalisation); the OS as parameter (send/read deliver non-empty prefixes, FIONREAD between "
              "1 and all unread bytes, TCP in-order delivery) and the timing assumption listed under assumptions (no clock in the model; "
              "the server drops every persistent connection 10 s after accept — judged not a violation of the property: HTTP lets a "
              "server close a persistent connection between exchanges and no exchange is answered wrongly; the library's own client "
              "never reuses a connection). NOT proved, validated on the real library only: (1) isolation between handler threads. "
              "interleaving_local/_independent hold BY CONSTRUCTION of the model (Server := Nat -> Conn, atomic turns): they state the "
              "design intent, they cannot see a static buffer or any other state shared by threads in the C++ code. That each of 1..64 "
              "concurrent clients receives the response to its own request rests on the harness oracles par (tokens, bodies compared "
              "byte for byte) and dl (concurrent file/range downloads with per-file, per-offset content, every byte verified, incl. the "
              "deterministic overlap where one handler sleeps in send() mid-block while others run); OS interleavings are sampled, not "
              "enumerated. (2) bodies of JSON values (C05's encoder: only the transport of the encoded text is checked, oracle J1) and "
              "multipart uploads (random boundary: oracle U1). (3) of the target -> path/query decoding, the split and the path are proved (target_parts_exact, "
              "encoded_path_observed; Url::decode of malformed escapes is C15's url_decode_total), and the query values for query strings made by Url::params "
              "(query_values_observed, through the bridge query_values_are_c15 to C15's query_roundtrip); keys that decode to a text "
              "with a NUL (%00 inside a key) are outside the bridge (the two transcriptions may order them differently) and hand-made "
              "query strings (pieces without =, empty keys, repeated keys, raw +) are K only, with upper/lower/mixed-case escapes "
              "against python's unquote and the Range header text parser (range_spec / file_response_roundtrip start from the integers b, e); the loop "
              "of redirect following (at most 4 hops, then 421; only the target of a hop has theorems), OPTIONS/405/whole-file/416 post-processing of HttpServer::serve are in the model and K-validated only. "
              "(4) bodies above 300 KiB (up to 8 MiB) are checked by digest oracle only. (5) exchange_roundtrip assumes no Expect "
              "header (with Expect: 100-continue the interim answer is in serveStep_exact's wire and continue_skipped covers the "
              "client side; their composition is K-validated). Refused framing (the repaired readBody gives the connection up, the server does not call the handler: in the "
              "model, serveStep): chunk-size lines of 9 digits are generated (framing flag q) and compared; Content-Length with a sign, "
              "other characters or more than 10 digits and chunk-size lines with a sign are not generated here (C09 does). Hypotheses of the theorems: as stated above; user headers name neither Content-Length nor "
              "Transfer-Encoding; sizes below 2^31 (int). Deviation of asl recorded, not a defect of this property as worded: truncated "
              "requests are dropped. Known findings: range-end-zero, chunked-stream-not-terminated. Thirty defects of this property were "
              "repaired (fixed: lines; the eighth round's: a response with a length, last on its connection, cut by the reset of the "
              "server's close — raw mode d, a peer that reads 0.3 s late, and MB-sized bodies behind a trailing CR LF / a pipelined "
              "request in every quick run); twenty-five of them were found by audits / defect hunts, not by this check, and the check was "
              "extended until it catches each on the pre-fix tree with a concrete replay (seventh round: the close behind an HTTP/1.0 "
              "answer written in pieces reset the connection and cut the body when request bytes were unread — 2 to 3 MB answers to "
              "pipelined / CR-LF-trailed HTTP/1.0 requests in every quick run, compared byte for byte (length and digest); a response "
              "header block the client's reader refuses came back as 200 with an empty body — canned responses and handler headers "
              "with such lines, refused_headers_no_response; review of the fifth round's repairs: put(File) "
              "after the headers were out never ended the library's own chunks — plan kind F; 204/304 and HTTP/1.0 answers written "
              "in pieces got chunk framing — such statuses and HTTP/1.0 raw peers generated, the raw peer reads a close-delimited "
              "message to the end of the connection; put() + write() by the handler sent the body twice — plan kind B, each with a "
              "second exchange on the connection; fifth hunt: a response written in pieces "
              "without a framing header was never announced as chunked — plan kinds w (write(part)) and W (the handler's own "
              "writeFile) seen by the real client and byte for byte by raw peers; the server replaced a handler's Content-Type / Date "
              "on a file body — such headers generated, Date canonicalised only when it is a time stamp; the 404 for a missing file "
              "left a connection open that was to be closed — plan kind m followed by a second request; fourth hunt: a multipart upload sent a "
              "second time went out raw — uploads now go through redirections (kind R) and reused request objects, the envelope oracle "
              "U1 judges every send and the reference expects U1; Transfer-Encoding: chunked next to a Content-Length from put()/putFile() "
              "and a chunked whole message never ended — chunked uploads, handlers that set the coding and put() a body / a file, "
              "seen by the real client and byte for byte by raw peers with a second exchange on the connection; sendHeaders / the end of "
              "a whole message are in the model as sentHeaders / endOf; third hunt: Range positions of 19+ digits "
              "wrapped modulo 2^64 — such positions generated; a redirection with a relative Location or none gave code 0 — new plan "
              "kind R sends the Location text verbatim, judged by python's urljoin; a last position past the end of the file was answered "
              "416 — the reference now cuts it to the end as RFC 7233 says, every such range on small files generated; second hunt: a Dic given to the request "
              "constructor was shared and written into — new flag C of xchg keeps, inspects and reuses the caller's Dic, with 3/6/12 "
              "entries; header names in a Dic were case-sensitive on the client — lower/mixed-case names and put(Var) with a form "
              "content type; Range positions modulo 2^32 and bytes=-k — generated and judged by the RFC 7233 reference; the client "
              "could not send chunked — Transfer-Encoding in generated request headers, wire and exchange compared). First round: the client took the interim 100 Continue for the response (Expect was a reserved "
              "name in the generator); an HttpRequest object used twice sent only its body (no op reused a request object: flag digit "
              "of xchg now does); a header with an empty value was dropped by the reader (the model had the same "
              "setHeader and the generator produced no empty values). The model follows C09's repairs of the shared reader "
              "(obs-fold 350c8ee, Content-Length 00 d626376, Transfer-Encoding compared case-insensitively / last coding 7dcf721, "
              "chunk-size line validation 4dbedbe, CRLF required after chunk data d0ace7d, a field name that is no token (blank or tab before the colon, empty, control character) ends the header block 9bf376e, "
              "as does a first line that starts with a blank c2e6d14 "
              "(WFName now asks for bytes above 0x20 other than DEL), a request whose transfer coding does not end in chunked is refused 4dff910 (hypothesis "
              "CodingOk of wire_request_exact: a coding, if named, ends in chunked), no handler call once the reader gave the "
              "connection up 5314fb5 — the last one was missing in the model until the q framing flag produced such input).")


# ------------------------------------------------------------------ independent oracle (python stdlib; judged on the implementation alone)

REFERENCE_NAME = "python3 (urllib.parse.unquote_to_bytes, http.client response parser, identity of what was sent/produced, RFC 7233 ranges)"

MIME = {b"css": b"text/css", b"gif": b"image/gif", b"htm": b"text/html", b"html": b"text/html", b"jpeg": b"image/jpeg", b"jpg": b"image/jpeg",
        b"js": b"application/javascript", b"json": b"application/json", b"png": b"image/png", b"txt": b"text/plain", b"mp4": b"video/mp4",
        b"ogv": b"video/ogg", b"webm": b"video/webm", b"xml": b"text/xml"}
METHODS_TEXT = b"GET, POST, OPTIONS, PUT, DELETE, PATCH, HEAD"


def _hdrs(t, i):
    n = int(t[i][1:])
    i += 1
    out = []
    for _ in range(n):
        out.append((unhex(t[i]), unhex(t[i + 1])))
        i += 2
    return out, i


def _dic_str(tag, d):
    items = sorted((hexs(k), hexs(v)) for k, v in d.items())
    return tag + str(len(items)) + "".join(" %s %s" % kv for kv in items)


def _parse_xchg(t):
    i = 1
    method, target, flags = unhex(t[i]), unhex(t[i + 1]), t[i + 2]
    i += 3
    rh, i = _hdrs(t, i)
    rk = t[i]
    i += 1
    rbody = b""
    if rk != "n":
        rbody = body_of(t[i])
        i += 1
    assert t[i] == "P"
    code = int(t[i + 1])
    i += 2
    ph, i = _hdrs(t, i)
    pk = t[i]
    pargs = t[i + 1:]
    return method, target, flags, rh, rk, rbody, code, ph, pk, pargs


def _te_chunked(v):
    return v is not None and v.lower().split(b",")[-1].strip(b" \t\r\n") == b"chunked"


AUTHORITY = b"127.0.0.1:0"


def _xchg_tokens(method, target, flags, rh, rk, rbody, code, ph, pk, pargs):
    t = ["xchg", hexs(method), hexs(target), flags, H(rh), rk]
    if rk != "n":
        t.append("x" + rbody.hex() if rbody else "-")
    return " ".join(t + ["P", str(code), H(ph), pk] + list(pargs)).split()


def _ref_redirect_rel(method, target, flags, rh, rk, rbody, code0, ph, pargs):
    """kind R: the handler answers `code0` with `Location: rel` (verbatim; none when rel is '-') and the body "moved",
    except for the target `loc`, which it answers 200 + body.  Expected by RFC 7231 7.1.2 / RFC 3986 5.2 (python's
    urljoin): a client that follows goes to urljoin(request URL, rel); reaching `loc` it must see exactly what a direct
    request for `loc` sees; a client that does not follow (not asked to, 303, no Location) sees the redirection itself."""
    import urllib.parse
    loc = unhex(pargs[0])
    rel = b"" if pargs[1] == "-" else unhex(pargs[1]).replace(b"@", AUTHORITY)
    follows = flags[1] == "F" and code0 in (301, 302, 307, 308) and rel != b""
    if target == loc:
        return None
    if not follows:
        ph2 = list(ph) + ([(b"Location", rel)] if rel else [])
        return _ref_xchg(_xchg_tokens(method, target, flags, rh, rk, rbody, code0, ph2, "b", ["x" + b"moved".hex()]))
    base = b"http://" + AUTHORITY
    joined = urllib.parse.urljoin((base + target).decode("latin-1"), rel.decode("latin-1")).encode("latin-1")
    if not joined.startswith(base) or joined[len(base):] != loc:
        return None                      # another host, or a chain of redirections: no opinion
    return _ref_xchg(_xchg_tokens(method, loc, flags, rh, rk, rbody, 200, ph, "b", [pargs[2]]))


def _ref_xchg(t):
    import urllib.parse
    method, target, flags, rh, rk, rbody, code0, ph, pk, pargs = _parse_xchg(t)
    if pk == "R" and rk != "j" and method != b"OPTIONS":
        return _ref_redirect_rel(method, target, flags, rh, rk, rbody, code0, ph, pargs)
    if rk == "j" or pk in ("j", "r", "S") or method == b"OPTIONS":
        return None
    if any(not re.fullmatch(rb"[\x21-\x39\x3b-\x7e]+", n) for n, _ in list(rh) + list(ph)):
        return None                      # a field name that is no token: outside the property's quantifier (asl refuses the block)
    if rk == "u" and any(cap(n) == b"Content-Type" for n, _ in rh):
        return None
    if flags[1] == "F" and code0 in (301, 302, 307, 308) and any(cap(n) == b"Location" and v for n, v in ph):
        return None                      # followed (kind R has its own reference); without Location it is the response (9644a87)
    res = target.split(b"#", 1)[0]
    pathenc, _, qs = res.partition(b"?")
    path = urllib.parse.unquote_to_bytes(pathenc)
    if b".." in path or b"\0" in path or not path:
        return None
    q = {}
    for pair in qs.replace(b"+", b" ").split(b"&"):
        k, eq, v = pair.partition(b"=")
        if eq and k:
            q[urllib.parse.unquote_to_bytes(k)] = urllib.parse.unquote_to_bytes(v)
    sent_hs = {}
    sent = 0
    for n, v in rh:
        if flags[0] == "S" and not v:
            continue                     # setHeader(name, "") removes the header on the sending side: not sent
        sent_hs[cap(n)] = v              # sent, also with an empty value (headers given as a Dic): the handler must see it
        sent += 1
    if len(sent_hs) != sent:
        return None

    def one(method, rk, rbody):
        code = code0
        # ---- what the handler must see
        hs = dict(sent_hs)
        hs[b"Host"] = b"127.0.0.1:0"
        if _te_chunked(hs.get(b"Transfer-Encoding")):
            hs.pop(b"Content-Length", None)          # a chunked request carries no length
        elif rk != "n":
            hs[b"Content-Length"] = b"%d" % len(rbody)
        seen_body = digest(rbody)
        if rk == "u":
            # Http::upload's form: the file in a multipart/form-data envelope with a random boundary, EVERY time the request
            # goes out (also through a redirection, also from a request object used again); the harness judges the envelope
            # against the file (mark U1) and shows the boundary and the length as *
            hs[b"Content-Type"] = b"multipart/form-data; boundary=*"
            if b"Content-Length" in hs:
                hs[b"Content-Length"] = b"*"
            seen_body = "U1"
        h = "H %s %s %s %s %s %s" % (hexs(method), hexs(path), hexs(qs), _dic_str("Q", q), _dic_str("N", hs), seen_body)
        # ---- what the client must see
        cs = {}
        for n, v in ph:
            cs[cap(n)] = v
        if len(cs) != len(ph) or any(not v for v in cs.values()):
            return None
        if pk == "F" and b"Range" in hs:
            return None                  # the file branch runs behind headers already sent: K only (model kind streamFile)
        streamed = pk in ("w", "W", "F") or (pk == "s" and body_of(pargs[0]))   # an empty 's' writes nothing: headers unsent
        if code == 405 and not streamed:   # a streaming handler has sent its headers before serve() could add Allow
            cs[b"Allow"] = METHODS_TEXT
        body = b""
        if pk == "n":
            cs[b"Content-Length"] = b"0"
        elif pk in ("b", "t", "B"):
            # B: the handler calls write() itself after put(): the same message, once
            body = body_of(pargs[0])
            cs[b"Content-Length"] = b"%d" % len(body)
        elif pk in ("s", "w", "W", "F"):
            # w / W / F: written in pieces with no framing header: the library announces the chunked coding itself (75c75d0),
            # F: a first piece (or the headers alone), then put(File)
            body = body_of(pargs[0]) + (body_of(pargs[1]) if pk == "F" else b"")
            if pk != "s" and (code < 200 or code in (204, 304)):
                if body:
                    return None              # a status without body
            else:
                cs[b"Transfer-Encoding"] = b"chunked"
        elif pk == "m":
            # put(File) of a missing file
            code = 404
            body = b"Not found"
            cs[b"Content-Type"] = b"text/plain"
            cs[b"Content-Length"] = b"9"
        elif pk == "f":
            content = body_of(pargs[0])
            ext = unhex(pargs[1])
            n = len(content)
            cs.setdefault(b"Date", b"D")              # what the handler set stays (71fbc0b)
            cs.setdefault(b"Content-Type", MIME.get(ext, b"text/plain"))
            cs.setdefault(b"Cache-Control", b"max-age=60, public")
            rng_h = hs.get(b"Range")
            body = content
            cs[b"Content-Length"] = b"%d" % n
            if rng_h is not None:
                m = re.fullmatch(rb"bytes=(\d*)-(\d*)", rng_h)
                if not m:
                    if rng_h.startswith(b"bytes=") and b"," not in rng_h:
                        return None          # forms like `bytes=5`: no opinion
                    # a range form the server does not serve: the whole file (RFC 7233: the header may be ignored)
                elif not m.group(1) and not m.group(2):
                    return None              # `bytes=-`: not a range (asl answers 416)
                else:
                    if not m.group(1):
                        k = int(m.group(2))  # suffix-byte-range-spec: the last k bytes (RFC 7233 2.1)
                        b, e = (max(0, n - k), n - 1) if (k > 0 and n > 0) else (1, 0)
                    else:
                        b = int(m.group(1))
                        # a last position at or past the end means "to the end" (RFC 7233 2.1; repaired by 37f2453)
                        e = min(int(m.group(2)), n - 1) if m.group(2) else n - 1
                    if b <= e < n:
                        body = content[b:e + 1]
                        code = 206
                        cs[b"Content-Range"] = b"bytes %d-%d/%d" % (b, e, n)
                        cs[b"Content-Length"] = b"%d" % len(body)
                    else:
                        body = b""
                        code = 416
                        cs[b"Content-Range"] = b"bytes */%d" % n
                        cs[b"Content-Length"] = b"0"
        else:
            return None
        if _te_chunked(cs.get(b"Transfer-Encoding")):
            cs.pop(b"Content-Length", None)      # the handler asked for the chunked coding: the chunks alone frame the body
        c = "C %d %s %s %s E-" % (code, hexs(b"HTTP/1.1"), _dic_str("N", cs), digest(body))
        return h + " | " + c

    first = one(method, rk, rbody)
    if first is None:
        return None
    times = int(flags[2]) if len(flags) > 2 and flags[2].isdigit() else 1
    out = " || ".join([first] * times)     # a request object used again: the same exchange again
    if flags[0] == "C":
        # the caller's Dic is what the caller put there, and a GET made from it carries just that
        second = one(b"GET", "n", b"")
        if second is None:
            return None
        out += " ## " + _dic_str("D", dict(rh)) + " ## " + second
    return out


def _parse_reuse(t):
    """-> (target, D|S, base headers, [(method, chunked, put, body bytes, plan tokens)])"""
    target, fl = unhex(t[1]), t[2]
    hs, i = _hdrs(t, 3)
    k = int(t[i])
    i += 1
    sends = []
    for _ in range(k):
        method, chunked, put = unhex(t[i]), t[i + 1] == "C", t[i + 2]
        i += 3
        body = b""
        if put != "=":
            body = body_of(t[i])
            i += 1
        assert t[i] == "P"
        j = i + 2
        ph, j = _hdrs(t, j)
        pk = t[j]
        j += 1 + {"n": 0, "b": 1, "t": 1, "f": 2, "s": 2}[pk]
        sends.append((method, chunked, put, body, t[i:j]))
        i = j
    assert i == len(t)
    return target, fl, hs, sends


def _ref_reuse(t):
    """the property, send by send: the handler sees the method the object had, the headers the caller set (plus the framing
    header that goes with the framing asked for) and the body the object held at that time; the client sees the plan's answer.
    No hidden state: each send is judged like a single exchange (`_ref_xchg`) of a fresh object in the same condition."""
    target, fl, hs, sends = _parse_reuse(t)
    outs = []
    body, have = b"", False
    for method, chunked, put, newbody, ptoks in sends:
        if put != "=":
            body, have = newbody, True
        if have and not body and put == "=":
            return None         # an empty body kept over sends: whether `Content-Length: 0` is still announced - no opinion
        rh = list(hs) + ([(b"Transfer-Encoding", b"chunked")] if chunked else [])
        toks = ["xchg", hexs(method), hexs(target), fl + "F", H(rh), "b" if have else "n"]
        if have:
            toks.append("x" + body.hex() if body else "-")
        o = _ref_xchg(" ".join(toks).split() + list(ptoks))
        if o is None:
            return None
        outs.append(o)
    return " || ".join(outs)


class _FakeSock:
    def __init__(self, data):
        import io
        self.f = io.BytesIO(data)

    def makefile(self, *a, **k):
        return self.f


def _ref_cread(t):
    """python's http.client parses the same response stream (complete messages only)"""
    import http.client
    head = unhex(t[1])
    body = body_of(t[2])
    fr = t[3]
    if "z" in fr or "q" in fr:
        return None              # q: 9-digit chunk sizes, legal hex but refused by asl's reader (documented)
    for line in head.split(b"\r\n")[1:]:
        if line and not re.match(rb"[\x21-\x39\x3b-\x7e]+:", line):
            return None              # a field name that is no token, a line without colon: asl refuses the block (code 0), no opinion here
    stream = _frame(head, body, fr)
    try:
        r = http.client.HTTPResponse(_FakeSock(stream))
        r.begin()
        got = r.read()
    except Exception:
        return None
    if got != body:
        return None
    hs = {}
    for n, v in r.getheaders():
        n = cap(n.encode("latin-1"))
        if n in hs:
            return None
        hs[n] = v.encode("latin-1").strip(b" \t\r\n")
    first = head.split(b"\r\n", 1)[0].split()
    return "C %d %s %s %s E-" % (r.status, hexs(first[0]), _dic_str("N", hs), digest(body))


def _frame(head, body, fr):
    if fr == "cl":
        return head + body
    spec = fr[2:]
    upper = "u" in spec
    ext = "x" in spec
    noend = "z" in spec
    pad = 9 if "q" in spec else 8 if "p" in spec else 0
    spec = spec.replace("u", "").replace("x", "").replace("z", "").replace("p", "").replace("q", "")
    sizes = [int(x) for x in spec.split(",")] if spec else []
    out = bytearray(head)
    pos = 0
    k = 0
    while pos < len(body):
        n = sizes[k % len(sizes)] if sizes else len(body)
        n = max(n, 1)
        n = min(n, len(body) - pos)
        hx = ((b"%X" if upper else b"%x") % n).rjust(pad, b"0")
        out += hx + (b";a=b" if ext else b"") + b"\r\n" + body[pos:pos + n] + b"\r\n"
        pos += n
        k += 1
    if not noend:
        out += b"0\r\n\r\n"
    return bytes(out)


def reference(line):
    t = line.split()
    try:
        if t[0] == "xchg":
            return _ref_xchg(t)
        if t[0] == "reuse":
            return _ref_reuse(t)
        if t[0] == "cread":
            return _ref_cread(t)
        if t[0] == "par":
            return "ok %d" % (int(t[1]) * int(t[2]))
        if t[0] == "dl":
            return "ok %d" % int(t[3])
        if t[0] == "big":
            return "ok 1"
    except Exception:
        return None
    return None


# ------------------------------------------------------------------ known findings

_F20 = "x" + b"0123456789abcdefghij".hex()
KNOWN = [
    {"key": "range-end-zero", "desc": "Range: bytes=0-0 returns the whole file",
     "case": ["xchg " + req(b"GET", b"/file", "SF", [(b"Range", b"bytes=0-0")], "n") + " " + plan(200, [], "f", _F20, hexs(b"txt"))]},
    {"key": "chunked-stream-not-terminated", "desc": "a streamed (chunked) response is never terminated by the library",
     "case": ["raw s 1 %s - cl - %s" % (hexs(b"GET /s HTTP/1.1\r\nHost: x\r\n\r\n"), plan(200, [], "S", "x" + b"hello world".hex(), "6"))]},
]


# ------------------------------------------------------------------ concurrency and very large bodies (property oracle inside the harness)

def _wmem_max():
    try:
        return int(open("/proc/sys/net/ipv4/tcp_wmem").read().split()[2])
    except Exception:
        return 4 << 20


def dl_line(seed, sizes, clients):
    return "dl %d %s %d %s" % (seed, ",".join(str(x) for x in sizes), len(clients), " ".join("%d %d %d %d" % c for c in clients))


def dl_recipe(rng, variant):
    """the deterministic overlap: client A asks for more than the kernel can buffer and does not read, so its handler sleeps
    in send() in the middle of a file block; meanwhile the other clients download other files / other offsets completely;
    then A reads.  Every byte of every body is checked against the position- and file-dependent formula."""
    big = min(32 << 20, max(6 << 20, int(_wmem_max() * 1.5) + (2 << 20)))
    seed = rng.randrange(1, 1 << 30)
    if variant == 0:
        return dl_line(seed, [big, 600000], [(0, 100000, big - 100001, 3), (1, -1, 0, 0)])
    if variant == 1:
        return dl_line(seed, [big, 700001], [(0, -1, 0, 3), (1, -1, 0, 2)])
    # same file, other offsets; and two sleepers
    return dl_line(seed, [big, big - 4096, 300000],
                   [(0, 7, big - 9, 3), (1, 16000, big - 8000, 3), (0, 1, 250000, 0), (2, -1, 0, 1), (2, 3, 299999, 2)])


def dl_mix(rng, nmax):
    n = rng.randrange(2, nmax + 1)
    nf = rng.randrange(2, 6)
    sizes = [rng.choice([100, 15999, 16000, 16001, 48000, 100000, 250000, rng.randrange(1, 900000)]) for _ in range(nf)]
    cs = []
    for _ in range(n):
        f = rng.randrange(nf)
        sz = sizes[f]
        r = rng.random()
        if r < 0.35:
            b, e = -1, 0
        elif r < 0.9:
            b = rng.randrange(0, sz)
            e = rng.randrange(max(b, 1), sz)
        else:
            b = rng.randrange(0, sz + 10)
            e = rng.choice([sz, sz + 5, max(1, b - 1)])
        cs.append((f, b, e, rng.choice([0, 0, 1, 2, 2, 3])))
    return dl_line(rng.randrange(1, 1 << 30), sizes, cs)


def dl_lines(rng, tier):
    quick = tier == "quick"
    lines = [dl_recipe(rng, 0), dl_recipe(rng, 1), dl_recipe(rng, 2)]
    for _ in range(6 if quick else 40):
        lines.append(dl_mix(rng, 16 if quick else 64))
    if not quick:
        for v in (0, 1, 2, 0):
            lines.append(dl_recipe(rng, v))
    return lines


def extra_lines(rng, tier):
    quick = tier == "quick"
    lines = dl_lines(rng, tier)
    for n, r, mb in ([(1, 6, 30000), (2, 6, 30000), (5, 5, 20000), (16, 4, 20000), (64, 3, 8000)] if quick else
                     [(1, 20, 100000), (2, 20, 100000), (3, 20, 50000), (8, 20, 50000), (16, 20, 30000), (32, 15, 20000), (64, 15, 20000),
                      (64, 6, 200000), (48, 10, 40000), (64, 15, 3000)]):
        lines.append("par %d %d %d %d" % (n, r, rng.randrange(1, 1 << 30), mb))
    sizes = [(1 << 20) + 1, 2 * (1 << 20) + 17] if quick else [300 * KB + 1, (1 << 20) - 1, (1 << 20) + 1, 3000000, 5 * (1 << 20) + 3, 8 * (1 << 20), 8 * (1 << 20)]
    for n in sizes:
        rk = rng.choice("bf")
        pk = rng.choice(["b", "f", "s"])
        m = rng.choice(sizes)
        if pk == "f":
            p = plan(200, [], "f", gspec(rng, m), hexs(b"bin"))
        elif pk == "s":
            p = plan(200, [], "s", gspec(rng, m), rng.choice(["128000", "1000000", "127999,2"]))
        else:
            p = plan(200, [], "b", gspec(rng, m))
        lines.append("big " + req(b"POST", b"/big", "SF", [], rk, gspec(rng, n)) + " " + p)
    return lines


def extra(ctx):
    import random
    from lib import core
    from lib.engine import Failure
    rng = random.Random(ctx["seed"] * 1000003 + 1010)
    lines = extra_lines(rng, ctx["tier"])
    impl, crash, err = core.run_impl(ctx["exe"], ["case 0"] + lines, timeout=900)
    impl = impl[1:]
    fails = []
    nx = 0
    for i, l in enumerate(lines):
        exp = reference(l)
        got = impl[i] if i < len(impl) else "(no output: %s)" % crash
        t = l.split()
        if got == exp:
            nx += int(t[1]) * int(t[2]) if t[0] == "par" else int(t[3]) if t[0] == "dl" else 1
        elif len(fails) < 3:
            f = Failure("crash" if (crash and i >= len(impl)) else "diverge", [l], ["case", got], ["case", exp], crash=crash if i >= len(impl) else None,
                        clause="property oracle inside the harness: every client must receive the response made for its own request and "
                               "every handler must see exactly the request of its client (bodies compared byte for byte; file downloads: "
                               "status, Content-Length, Content-Range and every body byte against the per-file, per-offset formula)",
                        name="concurrent clients / multi-megabyte bodies / concurrent file downloads over loopback TCP (harness/c10.cpp opPar, opBig, opDl)", stderr=err[-3000:])
            fails.append(f)
    if crash and not fails:
        fails.append(Failure("crash", lines[:1], impl, [], crash=crash, clause="sanitizer report / abnormal termination: %s" % crash,
                             name="concurrent clients over loopback TCP", stderr=err[-3000:]))
    ctx["stats"]["concurrent_and_large_exchanges_judged_by_oracle"] = nx
    ctx["stats"]["concurrency_levels"] = sorted(set(int(l.split()[1]) for l in lines if l.startswith("par")))
    ctx["stats"]["concurrent_file_download_ops"] = sum(1 for l in lines if l.startswith("dl"))
    ctx["stats"]["concurrent_file_download_clients"] = sorted(set(int(l.split()[3]) for l in lines if l.startswith("dl")))
    ctx["stats"]["largest_body_bytes"] = max([int(tok.split(".")[1]) for l in lines if l.startswith("big") for tok in l.split() if tok[0] == "g" and tok.count(".") == 2] or [0])
    return fails
