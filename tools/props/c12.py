"""C12 — shared handles and atomic counters under every interleaving: plugin for tools/check.py"""
import sys
import os
import re
import subprocess

from lib import core, cparse
from lib.engine import TranslateError

ID = "C12"
PROPS_MODULE = "AslProps.C12"
DRIVER = "c12"
HARNESS_EXTRA = ("vsched.h",)
SERIAL = False
CASES_PER_BATCH = 4
RULE = ("a case = one scenario: a handle type (Array, Map, HashMap, Shared<T>, SmartObject) or counter type (AtomicCount, "
        "Atomic<int>) and 2-3 thread programs of up to 4 copy/assign/drop or increment/decrement operations; the real library is "
        "run under a deterministic scheduler at its ASL_VERIF hook points and ALL interleavings are enumerated (bounded by a "
        "schedule budget in quick), the Lean model enumerates the same tree; compared: number of schedules, deadlocks, set of final "
        "outcomes (releases per reference counter, counter values). `nest` cases: a DAG of up to 8 shared objects that CONTAIN handles "
        "(Array<Node> blocks whose elements have a member Array<Node>, maps of maps, Shared<Node> / SmartObject members), 1-3 "
        "program variables and up to 8 assignments between handle places reached by paths (mostly with the source stored inside "
        "what the destination releases: a = a[0].kids) and scope exits; compared: which blocks were released (release events at "
        "each block's counter), under ASan; judged independently by a tracing oracle (released iff unreachable). Non-trivial = "
        "scenario with at least 2 threads that each perform an atomic operation on a shared object, or a nest case with an assignment")
TRUSTED = ["tools/props/c12.py translate(): g++ -E of include/asl/atomic.h (which primitive atomicInc/atomicDec compile to, guard off "
           "and guard on must agree), and atomic-step shapes of every handle operation recorded by harness/c12.cpp `rec` on the "
           "instrumented library -> lean/Gen/ShapesGen.lean",
           "harness/vsched.h deterministic scheduler over the ASL_VERIF hook points (hooks: /verif/hooks_commits.txt)"]
ASSUMPTIONS = ["__sync_add_and_fetch / __sync_sub_and_fetch are atomic read-modify-write operations returning the new value",
               "pthread_mutex_lock/unlock give mutual exclusion (modelled as a boolean that a thread must find false to proceed)",
               "sequential consistency for the hooked operations; code between two hook points of a thread touches only "
               "thread-local state or storage the thread holds a reference to",
               "reference counts stay below 2^31 (the model counts in unbounded integers)"]

KINDS = ["array", "map", "hashmap", "shared", "smart"]
SHAPE_OPS = ["copy", "drop_notlast", "assign_diff", "assign_sameobj", "assign_self", "drop_last", "assign_diff_last"]
LEAN_FIELD = {"copy": "copy", "drop_notlast": "dropNotLast", "assign_diff": "assignDiff", "assign_sameobj": "assignSameObj",
              "assign_self": "assignSelf", "drop_last": "dropLast", "assign_diff_last": "assignDiffLast"}


def atomic_primitive(repo, verif):
    src = "#include <asl/atomic.h>\n"
    cmd = ["g++", "-std=c++11", "-E", "-P", "-I", os.path.join(repo, "include"), "-x", "c++", "-"]
    if verif:
        cmd.insert(1, "-DASL_VERIF")
    p = subprocess.run(cmd, input=src.encode(), stdout=subprocess.PIPE, stderr=subprocess.PIPE)
    if p.returncode != 0:
        raise TranslateError("cannot preprocess atomic.h: " + p.stderr.decode()[-500:])
    txt = p.stdout.decode(errors="replace")
    out = {}
    for fn in ("atomicInc", "atomicDec"):
        m = re.search(r"inline\s+int\s+" + fn + r"\s*\(\s*(?:volatile\s+int|int\s+volatile)\s*\*\s*x\s*\)\s*\{([^}]*)\}", txt)
        if not m:
            raise TranslateError("cannot find %s after preprocessing atomic.h" % fn)
        body = re.sub(r"asl_verif_point\s*\([^;]*\)\s*;", "", m.group(1))
        out[fn] = re.sub(r"\s+", " ", body).strip()
    return out


def classify(body, fn):
    want = {"atomicInc": r"return __sync_add_and_fetch\s*\(\s*x\s*,\s*1\s*\)\s*;", "atomicDec": r"return __sync_sub_and_fetch\s*\(\s*x\s*,\s*1\s*\)\s*;"}[fn]
    alt = {"atomicInc": r"return __atomic_add_fetch\s*\(\s*x\s*,\s*1\s*,\s*__ATOMIC_\w+\s*\)\s*;", "atomicDec": r"return __atomic_sub_fetch\s*\(\s*x\s*,\s*1\s*,\s*__ATOMIC_\w+\s*\)\s*;"}[fn]
    if re.fullmatch(want, body) or re.fullmatch(alt, body):
        return "atomicRMW"
    if re.fullmatch(r"return (\+\+|--)\s*\*\s*x\s*;", body):
        return "readThenWrite"
    return "unknown"


def parse_ev(tok):
    m = re.fullmatch(r"(inc|dec|free):(\d+)\.(\d+)", tok)
    if not m:
        return "Ev.unknown"
    return "Ev.%s %s %s" % (m.group(1), m.group(2), m.group(3))


def _body_after(txt, sig):
    """text of the brace block that follows the first occurrence of `sig`"""
    i = txt.find(sig)
    if i < 0:
        raise TranslateError("assignment operator not found: " + sig)
    j = txt.index("{", i)
    depth, k = 0, j
    while True:
        if txt[k] == "{": depth += 1
        elif txt[k] == "}":
            depth -= 1
            if depth == 0: break
        k += 1
    return re.sub(r"//[^\n]*", "", txt[j:k + 1])


def assign_orders(repo):
    """which of the three steps (increment the source's count, store into the destination place, release the old object) the copy
    assignment of each handle class performs in which order, read from the operator's own statements"""
    def order(body, pats, what):
        pos = {}
        for step, pat in pats.items():
            m = re.search(pat, body)
            if not m:
                raise TranslateError("%s: statement for %r not found in %r" % (what, step, body[:300]))
            pos[step] = m.start()
        seq = sorted(pos, key=lambda k: pos[k])
        return {("inc", "store", "rel"): "array", ("store", "inc", "rel"): "shared", ("inc", "rel", "store"): "smart"}.get(tuple(seq), "unknown")
    rd = lambda f: open(os.path.join(repo, "include/asl", f), encoding="latin-1").read().replace("\r", "")
    res = {}
    # Array / HashMap: `X old(b);` (copy = increment) ... `bswap(...)` (store) ... closing brace (destructor of old = release)
    res["array"] = order(_body_after(rd("Array.h"), "Array& operator=(const Array& b)"),
                         {"inc": r"Array\s+old\s*\(\s*b\s*\)", "store": r"bswap\s*\(", "rel": r"\}\s*$"}, "Array::operator=")
    mb = _body_after(rd("Map.h"), "void operator=(const Map& b)")
    if not re.fullmatch(r"\{\s*a\s*=\s*b\.a\s*;\s*\}", mb.strip()):
        raise TranslateError("Map::operator= no longer delegates to Array::operator=: " + mb)
    res["map"] = res["array"]
    res["hashmap"] = order(_body_after(rd("HashMap.h"), "void operator=(const HashMap& b)"),
                           {"inc": r"HashMap\s+old\s*\(\s*b\s*\)", "store": r"bswap\s*\(", "rel": r"\}\s*$"}, "HashMap::operator=")
    res["shared"] = order(_body_after(rd("Pointer.h"), "Shared& operator=(const Shared& r)"),
                          {"store": r"_p\s*=\s*r\._p\s*;", "inc": r"\bref\s*\(\s*\)\s*;", "rel": r"->\s*unref\s*\(\s*\)\s*;"}, "Shared::operator=")
    res["smart"] = order(_body_after(rd("Shared.h"), "SmartObject& operator=(const SmartObject& n)"),
                         {"inc": r"\+\+\s*p->rc\s*;", "rel": r"\bunref\s*\(\s*\)\s*;", "store": r"_p\s*=\s*p\s*;"}, "SmartObject::operator=")
    return res


def translate(repo):
    off = atomic_primitive(repo, False)
    on = atomic_primitive(repo, True)
    if off != on:
        raise TranslateError("atomic.h: the ASL_VERIF branch of atomicInc/atomicDec differs from the normal branch: %r vs %r" % (on, off))
    sem = [classify(off[f], f) for f in ("atomicInc", "atomicDec")]
    # shapes: run the recorder on the instrumented library built from the current tree
    libdir, _ = core.build_lib("asan")
    exe = core.build_harness(DRIVER, libdir, "asan", HARNESS_EXTRA)
    out, crash, err = core.run_impl(exe, ["rec " + k for k in KINDS], timeout=120)
    if crash or len(out) != len(KINDS):
        raise TranslateError("shape recorder failed: %s %s" % (crash, err[-800:]))
    txt = "/- GENERATED by tools/props/c12.py from include/asl/atomic.h and by running every handle operation once on the\n"
    txt += "   instrumented library (harness/c12.cpp rec) — do not edit -/\nnamespace Gen.Shapes\n\n"
    txt += "inductive Sem where\n  | atomicRMW | readThenWrite | unknown\nderiving Repr, DecidableEq\n\n"
    txt += "/-- what `atomicInc` / `atomicDec` compile to -/\ndef incSem : Sem := .%s\ndef decSem : Sem := .%s\n\n" % (sem[0], sem[1])
    txt += "inductive Ev where\n  | inc (role cnt : Nat)\n  | dec (role cnt : Nat)\n  | free (role cnt : Nat)\n  | unknown\nderiving Repr, DecidableEq, Inhabited\n\n"
    txt += "structure Kind where\n  name : String\n  counters : Nat\n" + "".join("  %s : List Ev\n" % LEAN_FIELD[o] for o in SHAPE_OPS) + "deriving Repr\n\n"
    txt += "def kinds : List Kind := [\n"
    items = []
    for k, line in zip(KINDS, out):
        parts = [p.strip() for p in line.split(";")]
        m = re.fullmatch(r"counters=(\d+)", parts[0])
        if not m:
            raise TranslateError("recorder output for %s: %r" % (k, line))
        d = {}
        for p in parts[1:]:
            toks = p.split()
            if toks[0] not in SHAPE_OPS:
                raise TranslateError("unknown shape %r" % toks[0])
            d[toks[0]] = [] if toks[1:] == ["-"] else [parse_ev(t) for t in toks[1:]]
        if set(d) != set(SHAPE_OPS):
            raise TranslateError("missing shapes for " + k)
        fields = ", ".join("%s := [%s]" % (LEAN_FIELD[o], ", ".join(d[o])) for o in SHAPE_OPS)
        items.append('  { name := "%s", counters := %s, %s }' % (k, m.group(1), fields))
    txt += ",\n".join(items) + "]\n\n"
    # Atomic<T>: every operator, recorded once on the instrumented library: mutex steps around the access, value computed
    out2, crash2, err2 = core.run_impl(exe, ["rec atomicops"], timeout=120)
    if crash2 or len(out2) != 1:
        raise TranslateError("Atomic<T> operator recorder failed: %s %s" % (crash2, err2[-800:]))
    txt += "inductive MEv where\n  | lock | unlock | other | lockSrc | unlockSrc | ownMutex\nderiving Repr, DecidableEq\n\n"
    txt += "/-- (operator, mutex events of one call, value and result as computed, value expected) -/\n"
    txt += "structure AtomicOp where\n  name : String\n  evs : List MEv\n  value : Int\n  expected : Int\nderiving Repr, DecidableEq\n\n"
    aitems = []
    for part in out2[0].split(" ; "):
        tk = part.split()
        if len(tk) != 3 or not re.fullmatch(r"-?\d+/-?\d+/-?\d+", tk[2]):
            raise TranslateError("Atomic<T> recorder output: %r" % part)
        evs = [] if tk[1] == "-" else tk[1].split(":")
        if any(e not in ("lock", "unlock", "other", "lockSrc", "unlockSrc", "ownMutex") for e in evs):
            raise TranslateError("Atomic<T> recorder event: %r" % part)
        val, _, exp = tk[2].split("/")
        aitems.append('  { name := "%s", evs := [%s], value := %s, expected := %s }' % (tk[0], ", ".join("MEv." + e for e in evs), "(%s)" % val, "(%s)" % exp))
    txt += "def atomicOps : List AtomicOp := [\n" + ",\n".join(aitems) + "]\n\n"
    ords = assign_orders(repo)
    txt += "/-- order of (increment source, store into the destination, release the old object) in each copy-assignment operator, read from its statements -/\n"
    txt += "inductive Ord where\n  | array | shared | smart | unknown\nderiving Repr, DecidableEq\n\n"
    txt += "def assignOrders : List (String × Ord) := [" + ", ".join('("%s", Ord.%s)' % (k, ords[k]) for k in KINDS) + "]\n\nend Gen.Shapes\n"
    return {"Gen/ShapesGen.lean": txt}


FALLBACK = {}

OPS_H = ["c0", "c1", "x", "a01", "a10", "a00", "a02", "a20", "a12", "u0", "u1", "u2"]


def rprog(rng, ops, maxlen):
    n = rng.randrange(0, maxlen + 1)
    return ",".join(rng.choice(ops) for _ in range(n)) or "-"


def gen(rng, tier):
    cases = []
    budget = 400 if tier == "quick" else 12000
    # fixed scenarios the property text names: copy/assign/drop through own handles, 2 and 3 threads
    fixed = [
        ("array", ["c0,x", "c0,x"]), ("array", ["x,x", "x,x"]), ("array", ["a01", "a10"]), ("array", ["-", "-", "-"]),
        ("map", ["c0,x", "x"]), ("hashmap", ["x", "x"]), ("hashmap", ["c0,x", "-"]), ("hashmap", ["a01", "x"]),
        ("shared", ["a01", "c1"]), ("shared", ["x,x", "a10"]), ("shared", ["-", "-", "-"]),
        ("smart", ["a00,c0", "x,x"]), ("smart", ["a01", "a10"]), ("smart", ["-", "-", "-"]),
        ("array", ["u0,x,u0", "x,x"]), ("shared", ["a01,u0", "u1,x"]), ("hashmap", ["u0", "x"]), ("map", ["c0,u2,x", "a10,u0"]), ("smart", ["u1,a10,u1", "x"]),
        ("count", ["i,i", "d", "i"]), ("count", ["i,d,i,d", "i,i,i,i"]), ("count", ["i", "i", "i"]),
        ("atomic", ["p1,p2", "p3"]), ("atomic", ["p1", "p2", "p4"]), ("atomic", ["p1,p1,p1", "p5,p5"]),
        ("atomic", ["s1", "p10"]), ("atomic", ["s3,I", "D,P"]), ("atomic", ["M", "s2", "I"]), ("atomic", ["P,P", "M,s5"]),
    ]
    for k, ps in fixed:
        cases.append(["scen %s %d %s" % (k, budget, "|".join(ps))])
    n = 28 if tier == "quick" else 110
    for i in range(n):
        kind = rng.choice(["array", "map", "hashmap", "shared", "smart", "count", "atomic"])
        nth = rng.choice([2, 2, 3])
        if kind == "count":
            ps = [rprog(rng, ["i", "d"], 4 if nth == 2 else 3) for _ in range(nth)]
        elif kind == "atomic":
            ps = [rprog(rng, ["p1", "p2", "p3", "p-1", "s1", "s2", "I", "P", "D", "M"], 3 if nth == 2 else 2) for _ in range(nth)]
        else:
            ps = [rprog(rng, OPS_H, 3 if nth == 2 else 2) for _ in range(nth)]
            if kind == "hashmap":
                ps = [rprog(rng, OPS_H, 2 if nth == 2 else 1) for _ in range(nth)]
        cases.append(["scen %s %d %s" % (kind, budget, "|".join(ps))])
    # handles stored inside the shared objects: assignments whose source lives in what the destination releases
    for k in KINDS:
        for f in NEST_FIXED:
            cases.append(["nest %s %s" % (k, f)])
    for i in range(60 if tier == "quick" else 1500):
        cases.append([gen_nest(rng, rng.choice(KINDS), rng.choice([2, 3, 4, 5, 6, 8]), rng.choice([1, 2, 3, 5, 8]))])
    # free-running contention (no scheduler): 16 threads
    it = 20000 if tier == "quick" else 600000
    for k in ["count", "array", "map", "hashmap", "shared", "smart"]:
        cases.append(["stress %s 16 %d" % (k, it if k == "count" else it // 10)])
    # converting copies of Shared handles, SmartObject clones, Atomic<T> copy assignment next to a busy source
    cases.append(["stress conv 8 %d" % (it // 10)])
    cases.append(["stress clone 8 %d" % (it // 20)])
    cases.append(["stress aassign 1 %d" % (it * 10)])
    return cases


# ---- handles stored inside shared objects (nest): python mini-heap used to generate valid, cycle-free programs and as an
# independent oracle (a block is released iff no program variable reaches it: tracing semantics, equal to counting on DAGs)
class MiniHeap:
    def __init__(self, descr, roots):
        self.inner = [list(x) for x in descr]
        self.roots = list(roots)

    def resolve(self, path):
        r, es = path
        if r >= len(self.roots):
            return None
        loc = ("r", r)
        for e in es:
            t = self.read(loc)
            if e >= len(self.inner[t]):
                return None
            loc = (t, e)
        return loc

    def read(self, loc):
        return self.roots[loc[1]] if loc[0] == "r" else self.inner[loc[0]][loc[1]]

    def reach(self, start):
        seen = set()
        todo = list(start)
        while todo:
            b = todo.pop()
            if b in seen:
                continue
            seen.add(b)
            todo.extend(self.inner[b])
        return seen

    def live(self):
        return self.reach(self.roots)

    def assign(self, dst, src):
        """False if skipped (unresolvable) or refused (would create a cycle)"""
        d, s = self.resolve(dst), self.resolve(src)
        if d is None or s is None:
            return False
        t = self.read(s)
        if d[0] != "r" and d[0] in self.reach([t]):
            return None
        if d[0] == "r":
            self.roots[d[1]] = t
        else:
            self.inner[d[0]][d[1]] = t
        # blocks that became unreachable are gone: handles stored in them no longer exist
        return True

    def drop(self):
        if self.roots:
            self.roots.pop()

    def frees(self):
        lv = self.live()
        return ",".join("0" if b in lv else "1" for b in range(len(self.inner)))


def parse_nest(line):
    t = line.split()
    descr = [[] if b == "-" else [int(x) for x in b.split(",")] for b in t[2].split("/")]
    roots = [] if t[3] == "-" else [int(x) for x in t[3].split(",")]
    ops = []
    if t[4] != "-":
        for o in t[4].split(";"):
            if o == "x":
                ops.append("x")
            else:
                a, b = o.split("=")
                pp = lambda q: (int(q.split(".")[0][1:]), [int(e) for e in q.split(".")[1:]])
                ops.append((pp(a), pp(b)))
    return t[1], descr, roots, ops


def nest_reference(line):
    try:
        _, descr, roots, ops = parse_nest(line)
    except (ValueError, IndexError):
        return None
    for b, inn in enumerate(descr):
        if any(x <= b or x >= len(descr) for x in inn):
            return None
    h = MiniHeap(descr, roots)
    for o in ops:
        if o == "x":
            h.drop()
        elif h.assign(o[0], o[1]) is None:
            return None      # a cycle: counting and tracing differ, no verdict from this oracle
    return "frees=%s end=%s" % (h.frees(), ",".join("1" for _ in descr))


def reference(line):
    if line.startswith("nest "):
        return nest_reference(line)
    return None


def rpath(rng, h):
    r = rng.randrange(len(h.roots)) if h.roots else 0
    es = []
    loc = ("r", r)
    while h.roots and rng.random() < 0.6:
        t = h.read(loc)
        if not h.inner[t]:
            break
        e = rng.randrange(len(h.inner[t]))
        es.append(e)
        loc = (t, e)
    return (r, es)


def pstr(p):
    return "r%d" % p[0] + "".join(".%d" % e for e in p[1])


def gen_nest(rng, kind, nblocks, nops):
    descr = []
    for b in range(nblocks):
        hi = list(range(b + 1, nblocks))
        k = rng.randrange(0, min(4, len(hi)) + 1) if hi else 0
        descr.append([rng.choice(hi) for _ in range(k)])
    nroots = rng.choice([1, 1, 2, 3])
    roots = [rng.choice([0, 0, rng.randrange(nblocks)]) for _ in range(nroots)]
    h = MiniHeap(descr, roots)
    ops = []
    for _ in range(nops):
        if not h.roots:
            break
        if rng.random() < 0.12:
            h.drop()
            ops.append("x")
            continue
        for _try in range(6):
            dst = rpath(rng, h)
            # most of the time the source is below the destination: the source handle lives in what the destination releases
            src = (dst[0], dst[1] + rpath(rng, h)[1]) if rng.random() < 0.5 else rpath(rng, h)
            if rng.random() < 0.1:
                src = (src[0], src[1] + [rng.randrange(9)])      # index beyond the block: the operation is skipped
            g = MiniHeap(h.inner, h.roots)
            r = g.assign(dst, src)
            if r is None:
                continue
            h.assign(dst, src)
            ops.append(pstr(dst) + "=" + pstr(src))
            break
    return "nest %s %s %s %s" % (kind, "/".join(",".join(map(str, b)) or "-" for b in descr), ",".join(map(str, roots)) or "-", ";".join(ops) or "-")


NEST_FIXED = ["1/- 0 r0=r0.0", "1,2/2/- 0,1 r0=r0.0.0;x", "1/2/3/- 0 r0=r0.0;r0=r0.0;r0=r0.0", "1,2,3/-/-/- 0 r0=r0.2", "1,1/2/- 0,0 r0=r0.1;r1=r1.0.0",
              "1/2/- 0 r0.0=r0.0.0", "1,2/3/3/- 0 r0.0=r0.1;r0=r0.0", "1/- 0,0 r0=r0.0;r1=r1.0", "1/- 0 r0=r0;r0=r0.0;r0=r0.5", "1,2/-/- 0 x;x"]


def PROD_CASE(case):
    """production-build pass: only the free-running contention runs mean anything without the hook points"""
    return case[0].startswith("stress ")


def nontrivial(case):
    t = case[0].split()
    if t[0] == "stress":
        return True
    if t[0] == "nest":
        return "=" in t[4]
    progs = t[3].split("|")
    return len(progs) >= 2


def distribution(cases):
    d = {}
    nth = {}
    for c in cases:
        t = c[0].split()
        if t[0] == "stress":
            d["stress"] = d.get("stress", 0) + 1
            continue
        if t[0] == "nest":
            d["nest-" + t[1]] = d.get("nest-" + t[1], 0) + 1
            continue
        d[t[1]] = d.get(t[1], 0) + 1
        k = len(t[3].split("|"))
        nth[k] = nth.get(k, 0) + 1
    return {"scenarios_by_kind": d, "threads": nth}


TECHNIQUE = "Lean 4 invariant proof over an interleaving model (any number of threads/programs) + heap model of handles stored inside objects with the three statement orders of operator= proved equivalent + recorded atomic-step shapes and statement orders regenerated from the source + exhaustive schedule replay on the real library"
LEVEL_TEXT = ("Proved in Lean 4 for any number of threads and any finite programs, every schedule: if each thread only increments/"
              "decrements/reads objects it holds a handle to (thread-local well-formedness), then the reference count always equals the "
              "number of live handles, no increment, decrement or payload read touches released storage, storage is released by exactly "
              "the thread whose decrement reached 0, and when all threads are done every dropped object has been released exactly once "
              "(rc_protocol_safe, destroyed_exactly_once). That hypothesis is itself proved for every program the compiler builds from "
              "the recorded shapes: any list of copy / drop / assign / read operations on any handles, for every recorded handle type "
              "(compiled_programs_wf), hence scenario_safe: every handle type, any number >= 1 of threads, any operation lists, every "
              "schedule. AtomicCount: counter + pending operations is conserved by every step, so the final value is initial + sum of "
              "all operations in every interleaving (atomiccount_sum: this is 'atomic adds commute'; atomicity of the primitive is the "
              "regenerated fact atomic_primitive_is_rmw). Atomic<T> operators (lock, load, store, unlock as separate interleavable "
              "steps) end at initial + sum of all operands for any threads and schedules (atomic_T_sum); the same steps without the "
              "lock lose an update (nonatomic_loses); every Atomic<T> operator takes the variable's mutex exactly once around its "
              "access and computes the C++ value (atomic_ops_locked, recorded from the library on every run). Tie: the primitive "
              "behind atomicInc/atomicDec, the atomic-step shape of every Array/Map/HashMap/Shared/SmartObject copy, assign and drop and "
              "the mutex steps of every Atomic<T> operator are regenerated from the source/instrumented library on every run; all "
              "interleavings of small scenarios (with payload reads through the handles and a construction/destruction counter on the "
              "payload) are replayed on the real library under a deterministic scheduler and compared with the model's enumeration; "
              "16-thread free-running contention runs (handles, counters, converting Shared<Der> -> Shared<Base> copies, SmartObject "
              "clones, Atomic<T> copy assignment next to a busy source with a deadlock watchdog) are repeated under ThreadSanitizer "
              "(harness built at -O0 there, so that same-value stores are not optimised away). Handles stored INSIDE shared objects "
              "(AslModel/RcNest.lean: objects own handles, release cascades through them): for every heap satisfying count = number of "
              "handles, and any two handle places in live storage — the source possibly inside the object the destination releases — "
              "the acquire-first assignment touches no released storage and keeps the invariant (nested_assign_safe), a variable "
              "assigned to then holds the live source object (nested_assign_result), every heap the harness can build satisfies the "
              "invariant and every program of assignments and scope exits on it stays safe (nested_programs_safe), and after any such "
              "program an object is allocated iff at least one handle points at it — no leak, no early release "
              "(nested_destroyed_exactly_when_unreferenced); the release-first "
              "order the containers had before their repair reads released storage on a = a[0].kids (release_first_unsafe); that every "
              "handle type's assignment increments before it decrements or releases is a regenerated obligation "
              "(assignment_acquires_first, from the recorded shapes).")
LEVEL_NOTE = ("Test-only (no model, no theorem; the driver answers the constant `ok`): the `stress` runs, among them the converting "
              "Shared<Der> -> Shared<Base> copies (5500962), SmartObject::clone (f4a7d71) and Atomic<T> copy assignment next to a busy "
              "source (735352c: judged by a stall watchdog and ThreadSanitizer; the lock discipline of the copy operations themselves "
              "is the recorded obligation atomic_ops_locked). The nested-handle theorems are sequential (one program); they are stated "
              "for the increment-store-release order of Array/Map/HashMap, Shared's order (store, increment, release) is proved to give the same heap "
              "in every heap (shared_order_same_heap) and SmartObject's order (increment, release, store) whenever the destination's container "
              "survives the assignment (smart_order_same_heap), which is proved for every destination a path from a program variable resolves to "
              "(path_destination_keeps_its_container), so every program in any of the three orders gives the Array order's heaps and is safe "
              "(all_orders_same_programs, nested_programs_safe_every_order; smart_order_needs_live_container shows the hypothesis is needed for unreachable places); which order each operator has is regenerated from its statements (assignment_orders_known); cyclic heaps are covered by the theorems but "
              "never sampled by K (the generator and the tracing oracle refuse cycles). Trusted: atomicity of __sync builtins, mutual exclusion of pthread mutexes, sequential consistency at hook points, the "
              "scheduler harness. There is no hook point between atomicDec and the test of its result, so a decrement whose result is "
              "re-read instead of tested on return is invisible to the scheduler and rests on the free-running runs (ASan, TSan, "
              "payload counter) only. The model releases at count = 0 where Shared's unref tests <= 0 (equal because the count never "
              "goes below 0, rcEq); counts are unbounded integers (no 2^31 handles). Atomic<T>::operator<< / >> (template forwarding "
              "operators) are not recorded. load/store have no hook of their own: the harness sees them fused with the lock step, the "
              "theorem atomic_T_sum treats them as separate steps.")


def extra(ctx):
    """second pass of the free-running contention runs under ThreadSanitizer (a data-race detector, as the property's
    quantifier asks): the library and the harness are rebuilt with -fsanitize=thread and the `stress` ops run without the
    scheduler; any race report, or a final value other than the one the theorems give, is a violation"""
    from lib import core
    from lib.engine import Failure
    tier, stats = ctx["tier"], ctx["stats"]
    libdir, _ = core.build_lib("tsan")
    # -O0 for the harness translation unit (where the header-only handle code is instantiated): at -O1 the compiler removes
    # same-value stores, which hid the racing store of the converting Shared copy
    exe = core.build_harness(DRIVER, libdir, "tsan", getattr(sys.modules[__name__], "HARNESS_EXTRA", ()), tuple(getattr(sys.modules[__name__], "HARNESS_FLAGS", ())) + ("-O0",))
    it = 3000 if tier == "quick" else 60000
    lines = ["stress %s 16 %d" % (k, it if k == "count" else it // 4) for k in ["count", "array", "map", "hashmap", "shared", "smart"]]
    lines += ["stress conv 8 %d" % (it // 4), "stress clone 8 %d" % (it // 8), "stress aassign 1 %d" % (it * 4)]
    fails = []
    ok = 0
    for l in lines:
        out, crash, err = core.run_impl(exe, ["case 0", l], timeout=900)
        good = crash is None and len(out) == 2 and out[1] == "ok"
        if good:
            ok += 1
            continue
        f = Failure("crash" if crash else "diverge", [l], out, ["case", "ok"], crash=crash, stderr=(err or "")[-4000:])
        f.clause = ("data race reported by ThreadSanitizer in a free-running contention run" if crash == "tsan:race" else
                    "free-running contention run under ThreadSanitizer did not end with the value / destruction count the theorems give: %s %s" % (crash, out[1:2]))
        f.name = "K(C12) ThreadSanitizer pass: harness/c12.cpp stress ops on the -fsanitize=thread build of the library"
        fails.append(f)
    stats["tsan_stress_runs"] = len(lines)
    stats["tsan_stress_ok"] = ok
    stats["evaluations"] += len(lines)
    stats["distinct_nontrivial"] += len(lines)
    stats["validated"] += ok
    return fails
