"""C13 — Thread start/join, ThreadGroup, parallel_for, Semaphore, Condition: plugin for tools/check.py"""
from lib import core
from lib.engine import Failure

ID = "C13"
PROPS_MODULE = "AslProps.C13"
DRIVER = "c13"
HARNESS_EXTRA = ("vsched.h",)
CASES_PER_BATCH = 6
RULE = ("(1) parallel_for(i0,i1,f,nth) on the real library for ranges -3 <= i0,i1 <= 40 and nth 1..12 (exhaustive in thorough, all "
        "ranges with sampled nth in quick) plus sampled larger ranges: per index how often f ran and which indices shared a "
        "thread, compared with the model's worker lists; (2) subclassed, lambda, ThreadGroup and parallel_invoke threads with "
        "empty bodies and scheduling jitter: run counts and finished() after join; (3) semaphore op sequences, concurrent "
        "post/wait, the documented condition-variable protocol; (4) all interleavings of creator and workers at the library's "
        "hand-over hook points for small scenarios, enumerated by a deterministic scheduler; every recorded trace must be accepted "
        "by the Lean hand-over model (trace inclusion). Non-trivial = case that starts at least one thread")
TRUSTED = ["harness/vsched.h deterministic scheduler over the ASL_VERIF hook points in Thread.h (hooks: /verif/hooks_commits.txt)",
           "the trace acceptor in lean/Driver/C13.lean (maps hook events to model steps)"]
ASSUMPTIONS = ["pthread_create starts the function exactly once; pthread_join returns after the thread has exited and makes its writes visible",
               "sem_post/sem_wait and pthread_cond_wait/broadcast behave as POSIX specifies (modelled, not verified)",
               "volatile bool ready/finished flags are read and written atomically with sequential consistency (x86-64)",
               "no int overflow in i += n (|i1| + nth < 2^31)"]


def gen(rng, tier):
    cases = [["seed %d" % rng.randrange(1, 1 << 30)]]
    # (1) parallel_for ranges
    nths_all = list(range(1, 13))
    for i0 in range(-3, 41):
        if tier == "thorough":
            nths = nths_all
        else:
            nths = sorted(set([1, 8] + [rng.choice(nths_all) for _ in range(2)]))
        cases.append(["pfrow %d %d -3 40" % (i0, n) for n in nths])
    for k in range(6 if tier == "quick" else 60):
        i0 = rng.randrange(-1000, 1000)
        ln = rng.choice([0, 1, 2, 7, 63, 64, 65, 200, 1000])
        cases.append(["pfrow %d %d %d %d" % (i0, rng.randrange(1, 17), i0 + ln - 2, i0 + ln + 1)])
    # (2) thread kinds
    reps = 30 if tier == "quick" else 400
    for kind, ns in (("sub", [1, 2, 5]), ("lam", [1, 2, 5]), ("grp", [1, 3, 6]), ("inv", [2, 3, 4])):
        for n in ns:
            cases.append(["thr %s %d %d" % (kind, n, reps)])
    # (3) semaphore / condition
    for k in range(20 if tier == "quick" else 300):
        ops = "".join(rng.choice("ppw") for _ in range(rng.randrange(0, 30)))
        cases.append(["sem " + (ops or "p")])
    for p, c, k in ((1, 1, 50), (3, 2, 200), (4, 4, 500), (8, 3, 100)):
        cases.append(["semc %d %d %d" % (p, c, k if tier == "quick" else k * 20)])
    for w in (1, 2, 5):
        cases.append(["cond %d %d" % (w, 20 if tier == "quick" else 400)])
    # copies of started function threads (join and finished() through the copy, original destroyed first in `cpd`)
    for n in ([1, 3] if tier == "quick" else [1, 2, 3, 5, 8]):
        cases.append(["thr cpy %d %d" % (n, 3 if tier == "quick" else 40), "thr cpd %d %d" % (n, 3 if tier == "quick" else 40), "thr cpj %d 2" % n])
    # ranges at the ends of the int range: the index i += n must not wrap
    for (a, b) in [(2147483637, 2147483647), (2147483640, 2147483647), (-2147483648, -2147483640), (2147483646, 2147483647),
                   (2147483647, -2147483647), (2147483645, -2147483645), (2147483647, -2147483648), (7, -2147483648), (5, 5), (9, 5)]:
        for nth in ([1, 3, 8] if tier == "quick" else [1, 2, 3, 5, 8, 12]):
            cases.append(["pfx %d %d %d" % (a, b, nth)])
    for kinds in (["t", "u", "tt", "ut", "ttt", "utu"] if tier == "quick" else ["t", "u", "tt", "ut", "tu", "ttt", "utu", "tttt", "uutt", "tttttt"]):
        cases.append(["condt %s %d 1500" % (kinds, 3 if tier == "quick" else 25)])
    return cases


def nontrivial(case):
    return any(l.split()[0] in ("pfrow", "pfx", "thr", "semc", "cond", "condt") for l in case)


def distribution(cases):
    d = {}
    for c in cases:
        for l in c:
            d[l.split()[0]] = d.get(l.split()[0], 0) + 1
    return {"ops_by_kind": d}


def extra(ctx):
    """(4) interleavings at the hand-over points: enumerate on the real library, then every trace must be accepted by the model"""
    tier = ctx["tier"]
    budget = 400 if tier == "quick" else 50000
    scen = ["pfs 0 1 1 %d" % budget, "pfs 0 2 2 %d" % budget, "pfs -1 2 3 %d" % budget, "pfs 0 5 2 %d" % budget, "pfs 3 3 4 %d" % budget,
            "ths lam 1 %d" % budget, "ths lam 2 %d" % budget, "ths sub 1 %d" % budget, "ths sub 2 %d" % budget, "ths sub 3 %d" % budget,
            "ths grp 2 %d" % budget, "ths inv 2 %d" % budget, "ths inv 3 %d" % budget, "ths inv 4 %d" % budget]
    out, crash, err = core.run_impl(ctx["exe"], scen, timeout=1200)
    fails = []
    stats = ctx["stats"]
    if crash:
        k = min(len(out), len(scen) - 1)
        f = Failure("crash", [scen[k]], crash=crash, stderr=err[-4000:], clause="memory error / abnormal termination under the deterministic scheduler: " + crash)
        f.name = "K(C13) scheduler enumeration"
        return [f]
    nsched = 0
    traces = []
    for line, o in zip(scen, out):
        parts = dict(p.split("=", 1) for p in o.split(" ") if "=" in p and not p.startswith("traces"))
        nsched += int(parts.get("sched", 0))
        if int(parts.get("dl", 0)) != 0:
            f = Failure("diverge", [line], [o[:300]], [], clause="deadlock: unfinished threads but none enabled (lost hand-over)")
            f.name = "K(C13) scheduler enumeration"
            fails.append(f)
        tr = o.split("traces=", 1)[1] if "traces=" in o else ""
        for t in tr.split(";"):
            if not t:
                continue
            ev, res = t.split("=>", 1)
            traces.append((line, ev, res))
            # the run's own result must be the expected one
            toks = line.split()
            if toks[0] == "ths":
                n = int(toks[2])
                want = "ran=%s fin=%s" % (",".join(["1"] * n), ",".join(["1"] * n))
                if res != want:
                    f = Failure("diverge", [line, "trace " + ev], [res], [want], clause="a task did not run exactly once or finished() was false after join in this interleaving")
                    f.name = "K(C13) scheduler enumeration"
                    fails.append(f)
    # expected results of the pfs scenarios come from the model through the ordinary pfrow op
    ops = []
    for line, ev, res in traces:
        ops.append("trace " + (ev or "-"))
    pf_expect = {}
    for line in scen:
        t = line.split()
        if t[0] == "pfs":
            ops.append("pfrow %s %s %s %s" % (t[1], t[3], t[2], t[2]))
    model = core.run_model(DRIVER, ops) if ops else []
    for (line, ev, res), m in zip(traces, model):
        if m != "accept" and len(fails) < 4:
            f = Failure("diverge", [line, "trace " + ev], ["(recorded from the implementation)"], [m],
                        clause="the hand-over model does not admit this trace of the implementation: " + m)
            f.name = "trace inclusion K(C13): lean/Driver/C13.lean acceptTrace"
            f.has_input = False   # result oracles passed for this interleaving: correspondence broken, property not refuted
            fails.append(f)
    k = len(traces)
    for line in scen:
        t = line.split()
        if t[0] == "pfs":
            want = model[k].split(":", 1)[1]
            k += 1
            for (l2, ev, res) in traces:
                if l2 == line and res != want and len(fails) < 4:
                    f = Failure("diverge", [line, "trace " + ev], [res], [want], clause="parallel_for ran a wrong set of indices in this interleaving")
                    f.name = "K(C13) scheduler enumeration"
                    fails.append(f)
    stats["schedules_enumerated"] = nsched
    stats["distinct_traces_accepted_by_model"] = len(traces) - len([f for f in fails if "trace inclusion" in f.name])
    stats["scheduler_scenarios"] = len(scen)
    fails.sort(key=lambda f: not f.has_input)
    return fails[:4]


TECHNIQUE = "Lean 4 theorems (arithmetic partition proof; invariant over an interleaving model for any number of workers) + trace inclusion of hook-point traces + exhaustive ranges"
LEVEL_TEXT = ("Proved in Lean 4: for all integers i0, i1 and every nth >= 1 the workers of parallel_for run exactly the indices of "
              "[i0,i1), none twice, nothing when i1 <= i0 or nth = 0 (parallel_for_covers / _exactly_once / _zero_threads); for any "
              "number of workers and every interleaving of the creation/hand-over/join protocol no worker reads or writes its stack "
              "context after the creator left the scope, no finished flag is written into a deleted Thread, every body runs exactly "
              "once, join returns only after completion and finished() is then true, the protocol never gets stuck (handover_safe, "
              "runs_once_and_join, finished_after_join, never_twice, handover_progress), for function threads and for subclassed "
              "threads; composed: when parallel_for has returned under any interleaving, f(i) has been invoked exactly once for every "
              "i in [i0,i1) and for no other i (parallel_for_end_to_end). Semaphore with any number of waiting and posting threads: "
              "the count is conserved in every interleaving and at quiescence the completed waits are exactly min(waits wanted, "
              "initial + posts) (semaphore_no_lost_post_n, semaphore_post_wakes); under the documented protocol a condition-variable "
              "waiter is never asleep after the signal and can always progress once the signaler is done, for one waiter and for any "
              "number n of waiters with a broadcasting signal (condition_no_lost_signal, condition_no_lost_signal_n). Tie: the index "
              "loop, thread kinds and semaphore are compared op by op with the real library (all ranges -3..40 x nth), and every "
              "hook-point trace of the real creator/worker hand-over, enumerated over all interleavings of small scenarios by a "
              "deterministic scheduler, must be accepted by the Lean model (trace inclusion).")
LEVEL_NOTE = ("Trusted: pthread/sem/cond semantics as modelled, sequential consistency of the volatile flags, the scheduler harness and "
              "the trace acceptor. The semaphore and condition models are abstractions of the POSIX primitives (asl only wraps them) "
              "and of the user protocol; spurious wake-ups are not modelled (the documented while(!pred) loop absorbs them). The index "
              "theorems are over the mathematical integers; since the repair 14af174 the loop index and the range width are "
              "computed in 64 bits, so they describe the code for every int range. Copies of a started Thread share its finished flag (one flag per worker, as in the model): "
              "exercised by the thr cpy cases.")
