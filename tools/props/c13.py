"""C13 — Thread start/join, ThreadGroup, parallel_for, Semaphore, Condition: plugin for tools/check.py"""
import os
import random
import re
import subprocess
import tempfile

from lib import core
from lib.engine import Failure, TranslateError

ID = "C13"
PROPS_MODULE = "AslProps.C13"
DRIVER = "c13"
HARNESS_EXTRA = ("vsched.h",)
CASES_PER_BATCH = 6
RULE = ("(1) parallel_for(i0,i1,f,nth) on the real library for ranges -3 <= i0,i1 <= 40 and nth 1..12 (exhaustive in thorough, all "
        "ranges with sampled nth in quick) plus sampled larger ranges: per index how often f ran and which indices shared a "
        "thread, compared with the model's worker lists; (2) subclassed, lambda, ThreadGroup and parallel_invoke threads with "
        "empty bodies and scheduling jitter: run counts and finished() after join; (3) semaphore op sequences, concurrent "
        "post/wait, the documented condition-variable protocol; (4) all interleavings of creator and workers at the library's "
        "hand-over hook points for small scenarios, enumerated by a deterministic scheduler; every recorded trace must be accepted "
        "by the Lean hand-over model (trace inclusion); (5) at the library's own -O3 with the hooks off: three injected schedules "
        "(harness/c13_handover_o3.cpp single-steps a worker with the x86 trap flag and deschedules it right after its store of "
        "`ready` — lambda thread, parallel_for — or of `finished` — an owner that polls finished() and deletes the object), and "
        "free-running owners that never join (`thr reap`, ASan+UBSan). Non-trivial = case that starts at least one thread")
TRUSTED = ["tools/props/c13.py translate(): statement order in Thread::begin / beginf / beginfN (regex over the source, TranslateError on anything "
           "unrecognised) and the instruction order g++ -O3 emits for the two trampolines with the hooks off -> lean/Gen/ThreadGen.lean",
           "harness/c13_handover_o3.cpp (interposed pthread_create, trap-flag single-stepping; x86-64 only)",
           "harness/vsched.h deterministic scheduler over the ASL_VERIF hook points in Thread.h (hooks: /verif/hooks_commits.txt)",
           "the trace acceptor in lean/Driver/C13.lean (maps hook events to model steps)"]
ASSUMPTIONS_DROPPED = "no int overflow in i += n: the index is 64 bit since 14af174 / b417996"
ASSUMPTIONS = ["pthread_create starts the function exactly once; pthread_join returns after the thread has exited and makes its writes visible",
               "sem_post/sem_wait and pthread_cond_wait/broadcast behave as POSIX specifies (modelled, not verified)",
               "volatile bool ready/finished flags are read and written atomically with sequential consistency (x86-64)",
               "gcc's -O3 code for other lambda shapes than the two probes keeps the order the barrier asks for (atomicFence() = __sync_synchronize() is a "
               "compiler and hardware barrier by its documentation; the probes only confirm it on the emitted code)"]


O3_PROBE = r"""
#include <asl/Thread.h>
using namespace asl;
static long ra, rb, rc, rd; static double* re;
__attribute__((noinline)) void sink(long a, long b, long c, long d, double* e) { ra=a; rb=b; rc=c; rd=d; re=e; }
__attribute__((noinline)) Thread* make(long a, long b, long c, long d, double* e) { return new Thread([=]{ sink(a,b,c,d,e); }); }
int hits[8];
void pf() { long a=3,b=5; int* h=hits; Thread::parallel_for(0,4,[=](int i){ h[i]+=(int)(a*i+b); },4); }
"""


def body_of(txt, head_rx):
    m = re.search(head_rx, txt)
    if not m:
        return None
    i = txt.index("{", m.end() - 1)
    depth = 0
    for j in range(i, len(txt)):
        if txt[j] == "{":
            depth += 1
        elif txt[j] == "}":
            depth -= 1
            if depth == 0:
                return txt[i + 1:j]
    return None


def strip_hooks(b):
    b = re.sub(r"#ifdef ASL_VERIF.*?#endif", "", b, flags=re.S)
    b = re.sub(r"//[^\n]*", "", b)
    return [x.strip() for x in b.replace("\r", "").split(";") if x.strip()]


def asm_fenced(repo):
    """compile the trampolines as the library does (-O3, hooks off) and look at the instruction order: every read of the
    creator's context (operands based on the argument register) must come before a barrier that comes before the store of
    `ready`"""
    with tempfile.TemporaryDirectory(prefix="c13o3-") as d:
        src = os.path.join(d, "p.cpp")
        open(src, "w").write(O3_PROBE)
        r = subprocess.run(["g++", "-std=c++11", "-O3", "-S", "-I", os.path.join(repo, "include"), src, "-o", os.path.join(d, "p.s")],
                           stdout=subprocess.PIPE, stderr=subprocess.PIPE)
        if r.returncode != 0:
            raise TranslateError("cannot compile the -O3 probe of Thread.h: " + r.stderr.decode()[-600:])
        asm = open(os.path.join(d, "p.s")).read()
    res = {}
    for name in ("beginf", "beginfN"):
        m = re.search(r"^(_ZN3asl6Thread%d%sI\w+):\n(.*?)\.cfi_endproc" % (len(name), name), asm, flags=re.S | re.M)
        if not m:
            raise TranslateError("the -O3 probe has no out-of-line %s" % name)
        lines = [l.strip() for l in m.group(2).split("\n") if l.strip() and not l.strip().startswith(".")]
        fence = store = None
        late = False
        aliases = {"rdi"}             # registers that hold the argument (the address of the creator's context)
        def reads_ctx(l):
            return any(re.search(r"-?\d*\(%%%s(,[^)]*)?\)\s*," % a, l) for a in aliases)
        for k, l in enumerate(lines):
            if re.match(r"(mfence|lock\b)", l) and store is None and fence is None:
                fence = k
                continue
            if store is None and aliases and any(re.match(r"movb\s+\$1,\s*-?\d*\(%%%s\)" % a, l) for a in aliases):
                store = k
                continue
            if reads_ctx(l) and (fence is not None or store is not None):
                late = True          # a read of the context after the barrier or after the store
            if fence is not None and store is None and re.search(r"\(%(?!rsp)[a-z0-9]+(,[^)]*)?\)\s*,", l):
                late = True          # any load from memory other than the own stack between the barrier and the store
            mv = re.match(r"movq?\s+%(\w+),\s*%(\w+)$", l)
            if mv and mv.group(1) in aliases:
                aliases.add(mv.group(2))
            else:
                md = re.search(r",\s*%(\w+)$", l)
                if md and not re.match(r"(test|cmp)", l):
                    d = md.group(1)
                    aliases.discard(d)
                    aliases.discard("r" + d[1:] if d.startswith("e") else d)
        if store is None:
            raise TranslateError("no store of `ready` found in %s at -O3" % name)
        res[name] = (fence is not None and fence < store and not late)
    return res


def translate(repo):
    txt = open(os.path.join(repo, "include", "asl", "Thread.h"), encoding="latin-1").read()
    facts = {}
    for name in ("beginf", "beginfN"):
        b = body_of(txt, r"static\s+void\s+ASL_THREADFUNC_API\s+%s\s*\(\s*void\s*\*\s*p\s*\)\s*\{" % name)
        if b is None:
            raise TranslateError("Thread.h: cannot find %s" % name)
        st = strip_hooks(b)
        try:
            ic = next(i for i, x in enumerate(st) if re.fullmatch(r"Context<Func>\s+s\s*=\s*\*\s*\(Context<Func>\s*\*\)\s*p", x))
            ir = next(i for i, x in enumerate(st) if re.fullmatch(r"\(\(Context<Func>\s*\*\)\s*p\)\s*->\s*ready\s*=\s*true", x))
        except StopIteration:
            raise TranslateError("Thread.h %s: context copy / ready store not recognised: %r" % (name, st[:6]))
        between = st[ic + 1:ir] if ic < ir else None
        facts[name] = between is not None and any(re.fullmatch(r"(atomicFence\s*\(\s*\)|__sync_synchronize\s*\(\s*\))", x) for x in between)
    b = body_of(txt, r"static\s+ASL_THREADFUNC_RET\s+ASL_THREADFUNC_API\s+begin\s*\(\s*void\s*\*\s*p\s*\)\s*\{")
    if b is None:
        raise TranslateError("Thread.h: cannot find begin")
    st = strip_hooks(b)
    def idx(rx):
        l = [i for i, x in enumerate(st) if re.fullmatch(rx, x)]
        return l[0] if len(l) == 1 else None
    i_run, i_end = idx(r"t\s*->\s*run\s*\(\s*\)"), idx(r"t\s*->\s*ended\s*\(\s*\)")
    i_flag_st, i_flag_obj = idx(r"st\s*->\s*finished\s*=\s*true"), idx(r"t\s*->\s*_state\s*->\s*finished\s*=\s*true")
    i_take, i_inc, i_rel = idx(r"State_\s*\*\s*st\s*=\s*t\s*->\s*_state"), idx(r"\+\+\s*st\s*->\s*rc"), idx(r"releaseState\s*\(\s*st\s*\)")
    if i_run is None or i_end is None or (i_flag_st is None) == (i_flag_obj is None):
        raise TranslateError("Thread.h begin(): statements not recognised: %r" % st)
    i_flag = i_flag_st if i_flag_st is not None else i_flag_obj
    holds = i_flag_st is not None and None not in (i_take, i_inc, i_rel) and i_take < i_inc < i_run and i_flag < i_rel
    if i_flag_st is not None and not holds:
        raise TranslateError("Thread.h begin(): the flag is written through `st` but the reference is not taken before run() and released after the flag: %r" % st)
    asm = asm_fenced(repo)
    B = lambda x: "true" if x else "false"
    # join(): waits on the thread handle, unconditionally; ThreadGroup::join joins every member, unconditionally
    tj = body_of(txt, r"void\s+join\s*\(\s*\)\s*\{")
    gi = txt.rfind("class ThreadGroup")
    gj = body_of(txt[gi:], r"void\s+join\s*\(\s*\)\s*\{") if gi >= 0 else None
    if tj is None or gj is None:
        raise TranslateError("Thread.h: Thread::join / ThreadGroup::join not found")
    thread_ok = "pthread_join(_thread" in tj and "finished" not in tj and not re.search(r"\bif\s*\(", tj) and "return" not in tj
    group_ok = re.fullmatch(r"\s*foreach\s*\(\s*Thread\s*&\s*t\s*,\s*_threads\s*\)\s*t\.join\s*\(\s*\)\s*;\s*", gj) is not None
    out = "/- GENERATED by tools/props/c13.py from include/asl/Thread.h (statement order in begin / beginf / beginfN) and from the\n"
    out += "   assembly g++ -O3 produces for the two trampolines with the hooks off — do not edit -/\nnamespace Gen.Thread\n\n"
    out += "/-- a barrier stands between the copy of the creator's context and `ready = true` (source text) -/\n"
    out += "def fencedInSource : List (String × Bool) := [(\"beginf\", %s), (\"beginfN\", %s)]\n\n" % (B(facts["beginf"]), B(facts["beginfN"]))
    out += "/-- in the code g++ -O3 emits, every read of the context precedes a barrier that precedes the store of `ready` -/\n"
    out += "def fencedAtO3 : List (String × Bool) := [(\"beginf\", %s), (\"beginfN\", %s)]\n\n" % (B(asm["beginf"]), B(asm["beginfN"]))
    out += "/-- `Thread::begin`: `t->ended()` comes before `finished = true` -/\ndef endedFirst : Bool := %s\n\n" % B(i_end < i_flag)
    out += "/-- `Thread::begin` takes its own reference on the shared state before `run()`, writes the flag through it and releases it last -/\n"
    out += "def holdsState : Bool := %s\n\n" % B(holds)
    out += "/-- does a `join()` look at anything but the thread itself? (`Thread::join` is an unconditional `pthread_join`, `ThreadGroup::join`\n    joins every member unconditionally: false) -/\n"
    out += "def joinUsesFlag : Bool := %s\n\nend Gen.Thread\n" % B(not (thread_ok and group_ok))
    return {"Gen/ThreadGen.lean": out}


FALLBACK = {}


def gen(rng, tier):
    cases = [["seed %d" % rng.randrange(1, 1 << 30)]]
    # (1) parallel_for ranges
    nths_all = list(range(1, 13))
    for i0 in range(-3, 41):
        if tier == "thorough":
            nths = nths_all
        else:
            nths = sorted(set([1, 8] + [rng.choice(nths_all) for _ in range(2)]))
        cases.append(["pfrow %d %d -3 40" % (i0, n) for n in nths])
    for k in range(6 if tier == "quick" else 60):
        i0 = rng.randrange(-1000, 1000)
        ln = rng.choice([0, 1, 2, 7, 63, 64, 65, 200, 1000])
        cases.append(["pfrow %d %d %d %d" % (i0, rng.randrange(1, 17), i0 + ln - 2, i0 + ln + 1)])
    # (2) thread kinds
    reps = 30 if tier == "quick" else 400
    for kind, ns in (("sub", [1, 2, 5]), ("lam", [1, 2, 5]), ("grp", [1, 3, 6]), ("inv", [2, 3, 4])):
        for n in ns:
            cases.append(["thr %s %d %d" % (kind, n, reps)])
    # (3) semaphore / condition
    for k in range(20 if tier == "quick" else 300):
        ops = "".join(rng.choice("ppw") for _ in range(rng.randrange(0, 30)))
        cases.append(["sem " + (ops or "p")])
    for p, c, k in ((1, 1, 50), (3, 2, 200), (4, 4, 500), (8, 3, 100)):
        cases.append(["semc %d %d %d" % (p, c, k if tier == "quick" else k * 20)])
    for w in (1, 2, 5):
        cases.append(["cond %d %d" % (w, 20 if tier == "quick" else 400)])
    # parallel_invoke with one slow function in each position: all must have run at return
    for n in (2, 3, 4):
        cases.append(["thr invs %d %d" % (n, 1 if tier == "quick" else 5)])
    # the same ThreadGroup started and joined three times (each round is one hand-over of the model; finished flags are sticky)
    for n in ([1, 4] if tier == "quick" else [1, 2, 4, 7]):
        cases.append(["thr grp3 %d 1" % n])
    # copies of started function threads (join and finished() through the copy, original destroyed first in `cpd`)
    for n in ([1, 3] if tier == "quick" else [1, 2, 3, 5, 8]):
        cases.append(["thr cpy %d %d" % (n, 3 if tier == "quick" else 40), "thr cpd %d %d" % (n, 3 if tier == "quick" else 40), "thr cpj %d 2" % n,
                      "thr sst %d %d" % (n, 3 if tier == "quick" else 40)])
    # owners that never join: they poll finished() and delete the thread object as soon as it is true (free-running, ASan+UBSan)
    for n in ([8, 24] if tier == "quick" else [8, 24, 32, 32, 32, 32]):
        cases.append(["thr reap %d %d" % (n, 6 if tier == "quick" else 150)])
    # ranges at the ends of the int range: the index i += n must not wrap
    for (a, b) in [(2147483637, 2147483647), (2147483640, 2147483647), (-2147483648, -2147483640), (2147483646, 2147483647),
                   (2147483647, -2147483647), (2147483645, -2147483645), (2147483647, -2147483648), (7, -2147483648), (5, 5), (9, 5)]:
        for nth in ([1, 3, 8] if tier == "quick" else [1, 2, 3, 5, 8, 12]):
            cases.append(["pfx %d %d %d" % (a, b, nth)])
    for kinds in (["t", "u", "tt", "ut", "ttt", "utu"] if tier == "quick" else ["t", "u", "tt", "ut", "tu", "ttt", "utu", "tttt", "uutt", "tttttt"]):
        cases.append(["condt %s %d 1500" % (kinds, 3 if tier == "quick" else 25)])
    return cases


def PROD_CASE(case):
    """production-build pass: everything but the scheduler scenarios (those live in extra()) runs free"""
    return True


def nontrivial(case):
    return any(l.split()[0] in ("pfrow", "pfx", "thr", "semc", "cond", "condt") for l in case)


def distribution(cases):
    d = {}
    for c in cases:
        for l in c:
            d[l.split()[0]] = d.get(l.split()[0], 0) + 1
    return {"ops_by_kind": d}


def o3_schedules(ctx):
    """(5) the library's own optimisation level, hooks off: harness/c13_handover_o3.cpp single-steps a worker (x86 trap flag)
    and deschedules it right after its store of `ready` (lambda thread, parallel_for) or of `finished` (an owner that polls
    and deletes): one injected schedule each, judged by the program's own result"""
    src = os.path.join(core.ROOT, "harness", "c13_handover_o3.cpp")
    os.makedirs(core.BUILD, exist_ok=True)
    exe = os.path.join(core.BUILD, "c13_o3_%d" % os.getpid())
    fails = []
    r = subprocess.run(["g++", "-std=c++11", "-O3", "-w", "-I", os.path.join(core.REPO, "include"), src, "-lpthread", "-ldl", "-o", exe],
                       stdout=subprocess.PIPE, stderr=subprocess.PIPE)
    if r.returncode != 0:
        f = Failure("obligation", ["o3 build"], clause="harness/c13_handover_o3.cpp does not build against the current headers: " + r.stderr.decode()[-400:])
        f.name = "K(C13) -O3 hand-over schedules"
        f.has_input = False
        return [f], 0
    ran = 0
    try:
        for mode, what in (([], "a lambda thread ran with stale captures: the creator's stack context was read after `ready` had been published"),
                           (["x"], "parallel_for workers read a reused context (wrong indices / another thread's state released)"),
                           (["reap"], "the thread object was used after finished() had become true and its owner had deleted it")):
            for rep in range(3):
                try:
                    p = subprocess.run([exe] + mode, stdout=subprocess.PIPE, stderr=subprocess.STDOUT, timeout=60)
                    out, rc = p.stdout.decode(errors="replace").strip().split("\n")[-1][:300], p.returncode
                except subprocess.TimeoutExpired:
                    out, rc = "timeout", 124
                ran += 1
                if rc != 0 or "PASS" not in out:
                    f = Failure("diverge", ["o3 " + (mode[0] if mode else "lambda")], [out + " (exit %d)" % rc], ["PASS"], clause=what)
                    f.name = "K(C13) -O3 hand-over schedules (harness/c13_handover_o3.cpp)"
                    fails.append(f)
                    break
    finally:
        try:
            os.remove(exe)
        except OSError:
            pass
    return fails, ran


def replay_case(lines, ctx):
    """replays of the injected -O3 schedules (`o3 lambda|x|reap`): they do not go through the line protocol"""
    if not lines or not lines[0].startswith("o3 "):
        return None
    fails, ran = o3_schedules(ctx)
    want = lines[0]
    hit = [f for f in fails if f.case and f.case[0] == want]
    if hit:
        return True, "%s: %s [%s]" % (want, hit[0].clause, " ".join(hit[0].impl))
    if fails:
        return True, "%s did not fail, but another injected schedule did: %s" % (want, fails[0].case[0])
    return False, "%s: PASS (%d injected schedules run)" % (want, ran)


def condx_logs(ctx):
    """(3b) timed waits that run out, waiters that give up or loop again: the log of the real threads' critical sections must be
    accepted by the Lean model with time-outs and spurious wake-ups (AslModel/ThreadTimed.lean), and the model's outcome per waiter
    must be the one the real waiter reported"""
    tier = ctx["tier"]
    rng = random.Random(int(os.environ.get("VERIF_SEED", "1")) * 7919 + 13)
    scen = []
    base = ["t", "l", "u", "tu", "lt", "ul", "tlu", "ttl", "ullt", "tttt", "lulu"]
    for kinds in (base if tier == "quick" else base * 6 + ["tltltl", "uuuutt", "llllll", "tttttttt"] * 3):
        delay = rng.choice([0, 0, 300, 3000, 12000, 25000])
        tmo = rng.choice([1, 2, 5, 40])
        scen.append("condx %s %d %d" % (kinds, delay, tmo))
    out, crash, err = core.run_impl(ctx["exe"], scen, timeout=600)
    stats = ctx["stats"]
    if crash:
        k = min(len(out), len(scen) - 1)
        f = Failure("crash", [scen[k]], crash=crash, stderr=err[-4000:],
                    clause="a waiter never returned (lost signal) or abnormal termination in the timed condition-variable protocol: " + crash)
        f.name = "K(C13) timed condition protocol"
        return [f]
    fails = []
    ops = []
    for line, o in zip(scen, out):
        kinds = line.split()[1]
        tr = o.split("trace=", 1)[1] if "trace=" in o else ""
        ops.append("ctrace %s %s" % (kinds, tr or "-"))
    model = core.run_model(DRIVER, ops) if ops else []
    ntmo = nspur = 0
    for line, o, m in zip(scen, out, model):
        kinds = line.split()[1]
        got = o.split(" ")[0]                      # out=pt..
        outc = got.split("=", 1)[1] if "=" in got else ""
        ntmo += outc.count("t")
        # property-level oracle first: a waiter returns with the predicate true, or because ITS OWN timed wait ran out and it gives up
        bad = [i for i, ch in enumerate(outc) if not (ch == "p" or (ch == "t" and kinds[i] == "t"))]
        if bad or len(outc) != len(kinds):
            f = Failure("diverge", [line], [o[:400]], ["every waiter p, or t for a waiter of kind t"],
                        clause="a waiter left the documented wait loop without the predicate and without a time-out of its own wait")
            f.name = "K(C13) timed condition protocol"
            fails.append(f)
        elif m != "accept " + got and len(fails) < 4:
            f = Failure("diverge", [line, "ctrace " + kinds + " " + o.split("trace=", 1)[-1]], ["(recorded from the implementation) " + got], [m],
                        clause="the condition-variable model with time-outs and spurious wake-ups does not admit this log of the implementation: " + m)
            f.name = "trace inclusion K(C13): lean/Driver/C13.lean CondX.accept"
            f.has_input = False
            fails.append(f)
    stats["condx_logs_accepted_by_model"] = len(scen) - len(fails)
    stats["condx_waiters_that_timed_out"] = ntmo
    return fails[:4]


def extra(ctx):
    """(4) interleavings at the hand-over points: enumerate on the real library, then every trace must be accepted by the model"""
    o3fails, o3ran = o3_schedules(ctx)
    ctx["stats"]["o3_injected_schedules_run"] = o3ran
    if o3fails:
        return o3fails
    cxfails = condx_logs(ctx)
    if cxfails:
        return cxfails
    tier = ctx["tier"]
    budget = 400 if tier == "quick" else 50000
    scen = ["pfs 0 1 1 %d" % budget, "pfs 0 2 2 %d" % budget, "pfs -1 2 3 %d" % budget, "pfs 0 5 2 %d" % budget, "pfs 3 3 4 %d" % budget,
            "ths lam 1 %d" % budget, "ths lam 2 %d" % budget, "ths sst 1 %d" % budget, "ths sst 2 %d" % budget, "ths sub 1 %d" % budget, "ths sub 2 %d" % budget, "ths sub 3 %d" % budget,
            "ths grp 2 %d" % budget, "ths inv 2 %d" % budget, "ths inv 3 %d" % budget, "ths inv 4 %d" % budget]
    out, crash, err = core.run_impl(ctx["exe"], scen, timeout=1200)
    fails = []
    stats = ctx["stats"]
    if crash:
        k = min(len(out), len(scen) - 1)
        f = Failure("crash", [scen[k]], crash=crash, stderr=err[-4000:], clause="memory error / abnormal termination under the deterministic scheduler: " + crash)
        f.name = "K(C13) scheduler enumeration"
        return [f]
    nsched = 0
    traces = []
    for line, o in zip(scen, out):
        parts = dict(p.split("=", 1) for p in o.split(" ") if "=" in p and not p.startswith("traces"))
        nsched += int(parts.get("sched", 0))
        if int(parts.get("dl", 0)) != 0:
            f = Failure("diverge", [line], [o[:300]], [], clause="deadlock: unfinished threads but none enabled (lost hand-over)")
            f.name = "K(C13) scheduler enumeration"
            fails.append(f)
        tr = o.split("traces=", 1)[1] if "traces=" in o else ""
        for t in tr.split(";"):
            if not t:
                continue
            ev, res = t.split("=>", 1)
            traces.append((line, ev, res))
            # the run's own result must be the expected one
            toks = line.split()
            if toks[0] == "ths":
                n = int(toks[2])
                want = "ran=%s fin=%s" % (",".join(["1"] * n), ",".join(["1"] * n))
                if res != want:
                    f = Failure("diverge", [line, "trace " + ev], [res], [want], clause="a task did not run exactly once or finished() was false after join in this interleaving")
                    f.name = "K(C13) scheduler enumeration"
                    fails.append(f)
    # expected results of the pfs scenarios come from the model through the ordinary pfrow op
    ops = []
    for line, ev, res in traces:
        ops.append("trace " + (ev or "-"))
    pf_expect = {}
    for line in scen:
        t = line.split()
        if t[0] == "pfs":
            ops.append("pfrow %s %s %s %s" % (t[1], t[3], t[2], t[2]))
    model = core.run_model(DRIVER, ops) if ops else []
    for (line, ev, res), m in zip(traces, model):
        if m != "accept" and len(fails) < 4:
            f = Failure("diverge", [line, "trace " + ev], ["(recorded from the implementation)"], [m],
                        clause="the hand-over model does not admit this trace of the implementation: " + m)
            f.name = "trace inclusion K(C13): lean/Driver/C13.lean acceptTrace"
            f.has_input = False   # result oracles passed for this interleaving: correspondence broken, property not refuted
            fails.append(f)
    k = len(traces)
    for line in scen:
        t = line.split()
        if t[0] == "pfs":
            want = model[k].split(":", 1)[1]
            k += 1
            for (l2, ev, res) in traces:
                if l2 == line and res != want and len(fails) < 4:
                    f = Failure("diverge", [line, "trace " + ev], [res], [want], clause="parallel_for ran a wrong set of indices in this interleaving")
                    f.name = "K(C13) scheduler enumeration"
                    fails.append(f)
    stats["schedules_enumerated"] = nsched
    stats["distinct_traces_accepted_by_model"] = len(traces) - len([f for f in fails if "trace inclusion" in f.name])
    stats["scheduler_scenarios"] = len(scen)
    fails.sort(key=lambda f: not f.has_input)
    return fails[:4]


TECHNIQUE = "Lean 4 theorems (arithmetic partition proof; invariants over interleaving models for any number of workers, waiters with time-outs and spurious wake-ups, and repeated start/join rounds) + trace inclusion of hook-point traces and of mutex-ordered condition-variable logs + facts regenerated from Thread.h and the -O3 assembly + exhaustive ranges"
LEVEL_TEXT = ("Proved in Lean 4: for all integers i0, i1 and every nth >= 1 the workers of parallel_for run exactly the indices of "
              "[i0,i1), none twice, nothing when i1 <= i0 or nth = 0 (parallel_for_covers / _exactly_once / _zero_threads); for any "
              "number of workers and every interleaving of the creation/hand-over/join protocol no worker reads or writes its stack "
              "context after the creator left the scope, no finished flag is written into a deleted Thread, every body runs exactly "
              "once, join returns only after completion and finished() is then true, the protocol never gets stuck (handover_safe, "
              "runs_once_and_join, finished_after_join, never_twice, handover_progress), for function threads and for subclassed "
              "threads; composed: when parallel_for has returned under any interleaving, f(i) has been invoked exactly once for every "
              "i in [i0,i1) and for no other i (parallel_for_end_to_end). Semaphore with any number of waiting and posting threads: "
              "the count is conserved in every interleaving and at quiescence the completed waits are exactly min(waits wanted, "
              "initial + posts) (semaphore_no_lost_post_n, semaphore_post_wakes); under the documented protocol a condition-variable "
              "waiter is never asleep after the signal and can always progress once the signaler is done, for one waiter and for any "
              "number n of waiters with a broadcasting signal (condition_no_lost_signal, condition_no_lost_signal_n); the same with "
              "timed waits that may run out, waiters that give up or loop again, and wake-ups without a signal at any moment: no signal "
              "is lost, nobody is blocked for ever, and a waiter written with the documented while loop leaves only with the predicate "
              "true or on a time-out of its own timed wait (condition_timed_no_lost_signal, condition_wait_returns_only_with_predicate; "
              "if_instead_of_while_unsafe shows what the loop is for); a semaphore used through post/wait/trywait/wait(timeout) conserves "
              "its units whatever fails in between (semaphore_failed_attempts_take_nothing). Tie: the index "
              "loop, thread kinds and semaphore are compared op by op with the real library (all ranges -3..40 x nth), and every "
              "hook-point trace of the real creator/worker hand-over, enumerated over all interleavings of small scenarios by a "
              "deterministic scheduler, must be accepted by the Lean model (trace inclusion). Start fence and thread end (AslModel/"
              "ThreadEnd.lean): with a barrier between the copy of the creator's context (any number of loads) and the store of "
              "`ready`, no load ever reads the reused stack slot, in every interleaving (fenced_handover_never_stale; "
              "unfenced_handover_stale is the code before 12ac8c3); with ended() first and the flag written through the thread's own "
              "reference, neither a polling-and-deleting owner nor a self-deleting object ever leads to a use of the deleted object or "
              "the released state, and the state's count is exactly (object alive) + (thread not over) (thread_end_safe; "
              "flag_first_unsafe is the code before 8766189). That the source has the barrier, that g++ -O3 keeps every context read "
              "before it IN THE TWO PROBE INSTANTIATIONS the translator compiles (a lambda thread with five captures, a parallel_for "
              "body), and the statement order in Thread::begin are regenerated obligations (handover_fenced_in_source, "
              "handover_fenced_at_O3, thread_end_order). Copies of a Thread (copy construction, assignment, arrays) share one counted "
              "state: for any number of copies dropped in any order around the end of the thread the state is never used after its "
              "release, is released exactly once with the last reference, and finished() through any live copy is the worker's flag "
              "(thread_copies_safe).")
LEVEL_NOTE = ("Thread copies and assignment share a reference-counted State_: modelled in `Copies` (any number of copies, any drop order: "
              "thread_copies_safe; the driver takes finished() of the kinds cpy, cpd, cpj, sst from it), at the level of the count and the "
              "flag — which C++ statements copy the state pointer is the reading of Thread.h that produced the model, checked by K at "
              "free-running schedules only. The timed "
              "Condition::wait(timeout) is modelled in AslModel/ThreadTimed.lean (time-outs and spurious wake-ups as moves of the environment); "
              "tie: `condx` logs every step of real waiters and signaler under the mutex (time-outs do happen in those runs) and the log must "
              "be accepted by the model with the same outcome per waiter (CondX.accept, trace inclusion); `condt` keeps the promptness oracle. fenced_handover_never_stale is a "
              "statement about what a barrier means in the model (the store is enabled only after the loads); its content for the code is "
              "the regenerated instruction-order obligation, checked on two probe instantiations with register aliases of the argument "
              "tracked and no non-stack load allowed between the barrier and the store. "
              "The hook points act as compiler barriers, so the scheduler harness cannot see what the optimiser does between two of them: "
              "that is covered only by the -O3 assembly check, the three injected -O3 schedules and the Fence model. "
              "Trusted: pthread/sem/cond semantics as modelled, sequential consistency of the volatile flags, the scheduler harness and "
              "the trace acceptor. The semaphore and condition models are abstractions of the POSIX primitives (asl only wraps them) "
              "and of the user protocol; spurious wake-ups cannot be provoked in the harness: they are covered by the model (any wake-up without a signal is a move of the environment) only. The index "
              "theorems are over the mathematical integers; since the repair 14af174 the loop index and the range width are "
              "computed in 64 bits, so they describe the code for every int range. Copies of a started Thread share its finished flag (one flag per worker, as in the model): "
              "exercised by the thr cpy cases.")
