"""C14 — SocketServer serves each accepted connection exactly once and stops cleanly: plugin for tools/check.py"""
from concurrent.futures import ThreadPoolExecutor

from lib import core
from lib.engine import Failure

ID = "C14"
PROPS_MODULE = "AslProps.C14"
DRIVER = "c14"
CASES_PER_BATCH = 1
HARNESS_TIMEOUT = 300
RULE = ("a case = one history of the real SocketServer (ASan build, hooks on, seeded jitter at every hook point): concurrent or "
        "sequential mode, TCP port or Unix-socket path, N clients (0..200) arriving as a burst, a trickle or mixed with early "
        "closes, or with the first accept() calls failing as under descriptor exhaustion (interposed accept, EMFILE), stop(true) at a seeded moment, then destruction of the server while client threads are still alive. Judged: every "
        "token served exactly once, every reply reaches its own client, running() false after stop(true), no serve() after it, "
        "no memory error; and the recorded hook-point trace must be accepted by the Lean model (trace inclusion). "
        "Non-trivial = history with at least one accepted connection")
TRUSTED = ["tools/props/c14.py translate(): two facts of src/SocketServer.cpp read from the source text on every run (a failed accept() is "
           "skipped before ++_numClients; the destructor joins the accept thread before `delete _thread` and does not kill it) -> "
           "lean/Gen/SockGen.lean; the model's `init` takes them as parameters (model_parameters_from_source)",
           "harness/c14.cpp (recording hook with jitter, client threads, oracles) and the trace acceptor in lean/Driver/C14.lean",
           "ASL_VERIF hooks in src/SocketServer.cpp (/verif/hooks_commits.txt); events are recorded before the operation they announce"]
ASSUMPTIONS = ["plain bool flags _requestStop/_running are read and written atomically; a stale read of _requestStop by the accept loop is "
               "allowed by the model (check false), a read of _running == false by stop() happens after the loop's write",
               "accept(), select(), close() and socket I/O behave as POSIX specifies; AtomicCount as proved in C12",
               "the 2 s select timeout only delays stop(true); liveness is not claimed"]


def _body(txt, head_rx):
    import re
    m = re.search(head_rx, txt)
    if not m:
        return None
    i = txt.index("{", m.end() - 1)
    depth = 0
    for j in range(i, len(txt)):
        if txt[j] == "{":
            depth += 1
        elif txt[j] == "}":
            depth -= 1
            if depth == 0:
                return txt[i + 1:j]
    return None


def translate(repo):
    """two facts of src/SocketServer.cpp that the model takes as parameters: does the accept loop skip a failed accept()
    before it counts the connection, and does the destructor wait for the accept thread before it frees it"""
    import os
    import re
    from lib.engine import TranslateError
    txt = open(os.path.join(repo, "src", "SocketServer.cpp"), encoding="latin-1").read().replace("\r", "")
    txt = re.sub(r"#ifdef ASL_VERIF.*?#endif", "", txt, flags=re.S)
    txt = re.sub(r"//[^\n]*", "", txt)
    loop = _body(txt, r"void\s+SocketServer::startLoop\s*\(\s*\)\s*\{")
    dtor = _body(txt, r"SocketServer::~SocketServer\s*\(\s*\)\s*\{")
    if loop is None or dtor is None:
        raise TranslateError("SocketServer.cpp: startLoop / ~SocketServer not found")
    flat = re.sub(r"\s+", " ", loop)
    m_acc = re.search(r"Socket client = _sockets\.activeAt\(i\)\.accept\(\);", flat)
    m_cnt = re.search(r"\+\+_numClients;", flat)
    if not m_acc or not m_cnt or m_acc.end() > m_cnt.start():
        raise TranslateError("startLoop: accept() / ++_numClients not recognised: " + flat[:300])
    between = flat[m_acc.end():m_cnt.start()]
    skips = re.fullmatch(r"\s*if \(client\.handle\(\) < 0\) \{ (sleep\([0-9.]+\); )?continue; \}\s*", between) is not None
    if between.strip() and not skips:
        raise TranslateError("startLoop: unrecognised code between accept() and ++_numClients: " + between[:200])
    fd = re.sub(r"\s+", " ", dtor)
    m_del = re.search(r"delete _thread;", fd)
    if not m_del:
        raise TranslateError("~SocketServer: `delete _thread` not found: " + fd[:300])
    before = fd[:m_del.start()]
    # the join must be UNCONDITIONAL on the path to `delete _thread`: same brace depth as the delete, no `return` in between,
    # and no guard other than `if(_thread)` around both (`if(_running) { join }` followed by the delete is not a join)
    def depth_at(txt, pos):
        return txt.count("{", 0, pos) - txt.count("}", 0, pos)
    m_join = re.search(r"_thread->join\(\);", before)
    joins = False
    if m_join and "kill(" not in before:
        dj, dd = depth_at(fd, m_join.start()), depth_at(fd, m_del.start())
        guards = re.findall(r"\bif\s*\(([^)]*)\)", before)
        joins = dj == dd and "return" not in fd[m_join.start():m_del.start()] and all(g.strip() in ("_thread", "_thread != 0", "_thread != NULL") for g in guards)
    B = lambda x: "true" if x else "false"
    out = "/- GENERATED by tools/props/c14.py from src/SocketServer.cpp — do not edit -/\nnamespace Gen.Sock\n\n"
    out += "/-- `startLoop`: a failed `accept()` (`client.handle() < 0`) is skipped before `++_numClients` -/\ndef skipsFailed : Bool := %s\n\n" % B(skips)
    out += "/-- `~SocketServer`: `_thread->join()` comes before `delete _thread` (and the thread is not killed) -/\ndef joins : Bool := %s\n\nend Gen.Sock\n" % B(joins)
    return {"Gen/SockGen.lean": out}


FALLBACK = {}


def scen(rng, tier, n):
    out = []
    for i in range(n):
        mode = rng.choice(["conc", "conc", "seq"])
        tr = rng.choice(["tcp", "tcp", "unix", "both", "both"])
        nc = rng.choice([0, 1, 2, 3, 5, 8, 13, 20, 40] + ([80, 200] if tier == "thorough" else []))
        pat = rng.choice(["burst", "trickle", "mixed", "slow", "afail"])
        stop = rng.choice([1, 5, 20, 60, 150])
        out.append("srv %s %s %d %s %d %d" % (mode, tr, nc, pat, stop, rng.randrange(1, 1 << 30)))
    return out


def gen(rng, tier):
    return [[l] for l in scen(rng, tier, 6 if tier == "quick" else 24)]


def PROD_CASE(case):
    """production-build pass: the server histories without a recorded trace"""
    return not case[0].endswith(" trace")


def nontrivial(case):
    return int(case[0].split()[3]) > 0


def distribution(cases):
    d = {}
    for c in cases:
        t = c[0].split()
        for k in (t[1], t[2], t[4]):
            d[k] = d.get(k, 0) + 1
    return d


def extra(ctx):
    """histories with recorded traces; every trace must be accepted by the model"""
    rng, tier = ctx["rng"], ctx["tier"]
    lines = [l + " trace" for l in scen(rng, tier, 60 if tier == "quick" else 400)]
    want = "served-exactly-once=1 replies=1 running=0 late=0 badsock=0"

    def one(l):
        return l, core.run_impl(ctx["exe"], [l], timeout=120)
    fails = []
    res = []
    with ThreadPoolExecutor(max_workers=12) as ex:
        res = list(ex.map(one, lines))
    ops = []
    meta = []
    nacc = 0
    for l, (out, crash, err) in res:
        if crash:
            f = Failure("crash", [l], out, [], crash=crash, stderr=err[-4000:], clause="memory error / abnormal termination: " + crash)
            f.name = "K(C14) server history under ASan"
            fails.append(f)
            continue
        o = out[0] if out else ""
        if o == "bind-failed":
            continue
        head = o.split(" accepted=")[0]
        if head != want:
            f = Failure("diverge", [l], [o[:400]], [want], clause="oracle on the real server failed: " + head)
            f.name = "K(C14) server history oracles"
            fails.append(f)
        tr = o.split("trace=", 1)[1] if "trace=" in o else "-"
        try:
            nacc += int(o.split("accepted=")[1].split()[0])
        except Exception:
            pass
        ops.append("trace %s %s" % (l.split()[1], tr))
        meta.append(l)
    model = core.run_model(DRIVER, ops) if ops else []
    for l, op, m in zip(meta, ops, model):
        if m != "accept":
            f = Failure("diverge", [l, op], ["(recorded from the implementation)"], [m],
                        clause="the SocketServer model does not admit this trace of the implementation: " + m)
            f.name = "trace inclusion K(C14): lean/Driver/C14.lean acceptTrace"
            f.has_input = False   # the oracles on the real server passed for this history: the property is no longer shown, not refuted
            fails.append(f)
    st = ctx["stats"]
    st["histories_with_trace"] = len(ops)
    st["traces_accepted_by_model"] = len([m for m in model if m == "accept"])
    st["connections_accepted_total"] = nacc
    fails.sort(key=lambda f: not f.has_input)
    return fails[:4]


TECHNIQUE = "Lean 4 invariant proof over an interleaving model (any number of connections, both modes, stale flag reads; termination of stop(true) by a decreasing measure under a fair scheduler) + facts regenerated from SocketServer.cpp + trace inclusion of hook-point traces of the real server under jitter and ASan"
LEVEL_TEXT = ("Proved in Lean 4 for any number of connections, concurrent and sequential mode, every interleaving of clients, accept "
              "loop, handlers and controller (including accept-loop reads of _requestStop that still see the old value, and the loop "
              "giving up on its own when waitInput fails): serve() is entered at most once per accepted connection, only after the "
              "connection was counted, the socket is closed only after serve() returned and a finished handler served exactly once "
              "(serve_exactly_once); in every state where stop(true) has returned the accept loop has exited, running() is false, the "
              "client count is 0 and every accepted connection is fully served, closed and un-counted (stop_sync_quiescent); afterwards "
              "no serve() starts or ends, running() stays false and neither the destroyed server nor the thread object it owns is "
              "ever used: the accept thread, which is still finishing when stop(true) returns, has completely ended before the "
              "destructor frees anything (after_stop_nothing_happens, never_used_after_destruction, accept_thread_ended_before_free; "
              "destroy_without_join_unsafe is the counterexample for the destructor as it was before its repair); with any number of "
              "failed accept() calls in between, serve() is never called on a socket that is not a connection "
              "(only_connections_are_served; failed_accept_served_unsafe is the loop before its repair); that the source has the two "
              "facts these theorems rest on — the skip of a failed accept and the join in the destructor — is the regenerated "
              "obligation model_parameters_from_source (without it the two theorems would only restate model flags). Tie: hook-point "
              "traces of the real server (TCP and Unix sockets, one or two endpoints, both modes, 0..200 clients, bursts/trickles/"
              "early closes/slow clients/accept() failing with EMFILE (interposed; trace event F), stop at a seeded moment, destruction with threads alive, seeded jitter incl. a busy accept "
              "thread at its very end, ASan) must each be accepted step by step by the model, and per-connection token oracles are "
              "checked on the real server.")
LEVEL_NOTE = ("Trace events: a<k> is recorded by the interposed accept() when it really returns a connection (not at the loop's own hook "
              "after its handle test), F when it fails, so a loop that counts or serves a failed accept produces `F, n` which the model "
              "rejects, and the serve() calls are compared with the successful accepts. D is the destructor's entry and E the accept "
              "thread's last hook (before ended(), the flag store and the release of its state): a destructor that freed the thread "
              "object between them without joining would be accepted by the acceptor as long as the thread later reaches E — that "
              "order is decided by the regenerated `joins` fact and by ASan on the tail, not by the trace. Not in any model: the creator "
              "side of the self-deleting connection thread (`new SockClientThread` starts the thread inside its constructor: "
              "pthread_create stores the handle into an object the new thread may already have deleted in ended() — glibc writes the "
              "handle before the thread runs; observed under ASan only), and destruction of a concurrent-mode server WITHOUT "
              "stop(true) (the destructor stops and joins the accept thread but does not wait for the handlers: outside the property, "
              "see outside_findings.txt). Trusted: POSIX socket semantics, atomic plain-bool flags, the recording harness and acceptor. The traces come from OS "
              "scheduling with injected jitter, not from exhaustive enumeration; liveness is claimed for the model only: from every reachable state in which stop(true) "
              "is pending the server's own threads can bring it to its return in at most mu steps, each enabled and strictly decreasing mu "
              "(stop_sync_terminates, stop_sync_progress: no deadlock, no livelock, no new connection needed) - a possibility under a fair "
              "scheduler; that the OS schedules those threads and that select() wakes within its 0.5 s period is not modelled (every harness "
              "history does wait for stop(true) to return, under a time limit). Not modelled (observed by the harness oracles and ASan only): the reference-counted Socket handle staying "
              "valid during serve(), several listening sockets and the activeAt(i) batch of one select round. A failed accept() is "
              "one atomic model step that leaves the state alone (the 10 ms pause is not modelled). Connections whose token never "
              "arrives (client closed early) are judged for exactly-once by the trace acceptor only.")
